#!/usr/bin/env python3
"""Per-property check: Lean obligations + correspondence with the real code.  Usage: check.py <Cxx> [--tier quick|thorough]"""
import hashlib
import json, os, re, subprocess, sys, time, collections

sys.path.insert(0, os.path.dirname(os.path.abspath(__file__)))
import pipeline, render, gen, dumpparse

VERIF = os.environ.get("VERIF_ROOT") or os.path.dirname(os.path.dirname(os.path.abspath(__file__)))
OUT = os.environ.get("VERIF_OUT", VERIF)   # where evidence/ and replays/ are written
LEAN_DIR = os.path.join(VERIF, "lean")
ALLOWED_AXIOMS = {"propext", "Classical.choice", "Quot.sound"}
PROPS = ["C%02d" % i for i in range(1, 20)]

TRUSTED_BASE = [
    "Lean 4.33.0 kernel (lake build; thorough tier also runs leanchecker on the property module)",
    "axioms per theorem as printed by Audit.lean, required to be a subset of {propext, Classical.choice, Quot.sound}",
    "hand-written Lean model of parsing.rs / codegen.rs / bitfield/mod.rs / bitenum.rs / bit_size.rs (tied to the code by the correspondence run, not verified)",
    "model of Rust integer operators in two profiles (evalBin, castBits) and of arbitrary-int new/value/extract_uN (validated by the differential on every run)",
    "corpus generator, runner generator, dump parser and this checker (Python); the verif_hooks dump in /repo",
    "rustc for accept/reject, type checking, method resolution, const evaluation, layout, lints",
]


def log(*a):
    print("[check]", *a, file=sys.stderr, flush=True)


# ---------------------------------------------------------------------------------------------
# Lean side
# ---------------------------------------------------------------------------------------------

PROGRAM_THEOREMS = {
    "C01": ["accepted_getter"], "C02": ["accepted_setter", "accepted_history_readback"], "C03": ["accepted_getter", "accepted_setter", "accepted_oob"],
    "C04": ["accepted_getter", "accepted_setter", "accepted_wide", "accepted_history_readback"], "C05": ["accepted_getter", "accepted_setter", "accepted_history_readback"],
    "C08": ["accepted_getter", "accepted_history_readback"], "C11": ["accepted_setter", "accepted_history"],
    "C12": ["accepted_history", "accepted_history_readback", "accepted_history_order_independent", "LegalStep.ok"], "C13": ["accepted_builder", "chainCalls_ok"],
    "C14": ["accepted_builder", "pieces_disjoint_of_writable", "ranges_disjoint_of_pieces"], "C06": ["expand_inv", "accepted_default", "accepted_no_default"], "C16": ["accepted_history_profile_independent", "accepted_oob", "accepted_wide"],
}


_NF = ["Bb.Nf.nf_sound", "Bb.Nf.bodiesEquiv_sound", "Bb.Nf.witness_refutes"]
_TVG = ["Bb.TV.getter_validated", "Bb.TV.getter_validated_plain", "Bb.TV.accepted_getter_validated"]
_TVS = ["Bb.TV.setter_validated", "Bb.TV.accepted_setter_validated"]
_TVH = ["Bb.TV.history_validated_exists", "Bb.TV.history_validated_unique", "Bb.TV.history_validated_bits"]
_TVO = ["Bb.TV.getter_validated_oob", "Bb.TV.setter_validated_oob"]
TV_THEOREMS = {
    "C01": _NF + _TVG, "C02": _NF + _TVS, "C03": _NF + _TVG + _TVS + _TVO, "C04": _NF + _TVG + _TVS, "C05": _NF + _TVG + _TVS,
    "C06": _NF, "C08": _NF + _TVG + _TVS, "C11": _NF + _TVS + _TVH, "C12": _NF + _TVS + _TVH, "C13": _NF + _TVS + _TVH,
    "C16": _NF + _TVO + ["Bb.TV.validated_profile_independent"],
}


def run_audit(mods):
    """`lake env lean --run Audit.lean <mods>` (axioms of every theorem of the modules); its output is a function of the Lean
    sources, so it is shared between the checks of one run through a cache keyed by their hash"""
    key = pipeline.tree_hash([os.path.join(LEAN_DIR, "BitbybitModel"), os.path.join(LEAN_DIR, "Audit.lean"), os.path.join(LEAN_DIR, "lakefile.toml")])
    cdir = os.path.join(pipeline.WORK_ROOT, "audit-cache")
    path = os.path.join(cdir, "%s-%s.txt" % (key, hashlib.sha256(" ".join(mods).encode()).hexdigest()[:12]))
    if os.path.exists(path):
        with open(path) as f:
            return 0, f.read()
    a = subprocess.run(["lake", "env", "lean", "--run", "Audit.lean"] + mods, cwd=LEAN_DIR, stdout=subprocess.PIPE, stderr=subprocess.STDOUT, text=True)
    if a.returncode == 0:
        os.makedirs(cdir, exist_ok=True)
        tmp = path + ".%d.tmp" % os.getpid()
        with open(tmp, "w") as f:
            f.write(a.stdout)
        os.replace(tmp, path)
    return a.returncode, a.stdout


def lean_obligations(prop, thorough=False):
    """returns dict(obligations, discharged, theorems[], problems[], checker_cmd)"""
    mod = "BitbybitModel.Props.%s" % prop
    src = os.path.join(LEAN_DIR, "BitbybitModel", "Props", "%s.lean" % prop)
    out = {"obligations": 0, "discharged": 0, "theorems": [], "problems": [],
           "checker_cmd": "cd /verif/lean && lake build %s && lake env lean --run Audit.lean %s" % (mod, mod)}
    if not os.path.exists(src):
        out["problems"].append("no property module %s" % src)
        return out
    p = subprocess.run(["lake", "build", mod], cwd=LEAN_DIR, stdout=subprocess.PIPE, stderr=subprocess.STDOUT, text=True)
    if p.returncode != 0:
        out["problems"].append("lake build %s failed: %s" % (mod, p.stdout[-1500:]))
        return out
    # forbidden constructs anywhere in the development (comments excluded crudely)
    bad_words = re.compile(r"\b(sorry|admit|native_decide|bv_decide|implemented_by|unsafe)\b|^axiom |maxHeartbeats 0")
    for dp, dn, fn in os.walk(os.path.join(LEAN_DIR, "BitbybitModel")):
        for f in fn:
            if f.endswith(".lean"):
                in_block = False
                for ln, line in enumerate(open(os.path.join(dp, f)), 1):
                    code = line
                    if "/-" in code:
                        in_block = True
                    if in_block:
                        if "-/" in code:
                            in_block = False
                        continue
                    code = code.split("--")[0]
                    if bad_words.search(code):
                        out["problems"].append("forbidden construct in %s:%d: %s" % (f, ln, line.strip()[:80]))
    arc, aout = run_audit([mod])
    if arc != 0:
        out["problems"].append("audit failed: %s" % aout[-800:])
        return out
    ns = "Bb.%s." % prop
    for line in aout.splitlines():
        m = re.match(r"theorem (\S+) axioms=\[(.*)\]", line)
        if not m:
            continue
        name = m.group(1)
        if not name.startswith(ns):
            continue
        short = name[len(ns):]
        if re.search(r"(^|\.)(eq_\d+|match_\d+|proof_\d+|_|sizeOf_spec|injEq|inj)$", short) or "._" in short:
            continue
        axs = [x.strip() for x in m.group(2).split(",") if x.strip()]
        ok = set(axs) <= ALLOWED_AXIOMS
        out["obligations"] += 1
        if ok:
            out["discharged"] += 1
        else:
            out["problems"].append("theorem %s depends on %s" % (name, axs))
        out["theorems"].append({"name": name, "axioms": axs})
    if out["obligations"] == 0:
        out["problems"].append("no theorems found in namespace %s" % ns)
    # declaration-level corollaries (Props/Program.lean) and the translation-validation theorems (Symbolic/NfSound.lean,
    # Props/TV.lean: what an `equal` answer of the normaliser means) that this property also relies on
    def audit_extra(mods, names):
        for pm in mods:
            b = subprocess.run(["lake", "build", pm], cwd=LEAN_DIR, stdout=subprocess.PIPE, stderr=subprocess.STDOUT, text=True)
            if b.returncode != 0:
                out["problems"].append("lake build %s failed: %s" % (pm, b.stdout[-1500:]))
                return False
        _, a2out = run_audit(mods)
        seen = {}
        for line in a2out.splitlines():
            m = re.match(r"theorem (\S+) axioms=\[(.*)\]", line)
            if m:
                seen[m.group(1)] = [x.strip() for x in m.group(2).split(",") if x.strip()]
        for name in names:
            out["obligations"] += 1
            if name not in seen:
                out["problems"].append("theorem %s missing from %s" % (name, " ".join(mods)))
                continue
            if set(seen[name]) <= ALLOWED_AXIOMS:
                out["discharged"] += 1
            else:
                out["problems"].append("theorem %s depends on %s" % (name, seen[name]))
            out["theorems"].append({"name": name, "axioms": seen[name]})
        return True
    extra = PROGRAM_THEOREMS.get(prop, [])
    if extra:
        if not audit_extra(["BitbybitModel.Props.Program"], ["Bb.Prog." + x for x in extra]):
            return out
    tv = TV_THEOREMS.get(prop, [])
    if tv:
        if not audit_extra(["BitbybitModel.Props.TV", "BitbybitModel.Symbolic.NfSound"], tv):
            return out
    if thorough:
        lc = subprocess.run(["lake", "env", "leanchecker", mod], cwd=LEAN_DIR, stdout=subprocess.PIPE, stderr=subprocess.STDOUT, text=True)
        out["leanchecker_rc"] = lc.returncode
        if lc.returncode != 0:
            out["problems"].append("leanchecker failed: %s" % lc.stdout[-500:])
    return out


# ---------------------------------------------------------------------------------------------
# classification of operations
# ---------------------------------------------------------------------------------------------

def self_overlapping(ranges):
    rs = sorted((lo, hi) for lo, hi in ranges)
    return any(rs[k + 1][0] <= rs[k][1] for k in range(len(rs) - 1))


def field_props(d, f, opkind):
    """properties an accessor operation on field f belongs to"""
    sp = f.get("spec")
    is_list = (sp is not None and (len(sp["ranges"]) > 1))
    props = set()
    if is_list and self_overlapping(sp["ranges"]):
        # a list that names a bit twice is outside C04's guarantee (its own words); what remains true of it – a write
        # leaves the positions it does not cover alone, getters are functions of the register – is C12's statement
        return {"C12", "C16"}
    if opkind == "get":
        if f["count"] is not None:
            props.add("C03")
        if is_list:
            props.add("C04")
        if f["count"] is None and not is_list:
            props.add("C01")
    else:
        if f["count"] is not None:
            props.add("C03")
        if is_list:
            props.add("C04")
        if f["count"] is None and not is_list:
            props.add("C02")
    if f["kind"] == "signed":
        props.add("C05")
    if f["kind"] in ("enum", "optenum", "nested"):
        props.add("C08")
    props.add("C16")
    return props


def op_props(table, opline):
    """(decl, opkind, set of properties) of an `op …` line"""
    w = opline.split(" ")
    name, kind = w[1], w[2]
    d = table.get(name)
    if d is None:
        return name, kind, set()
    if d["kind"] == "bitenum":
        return name, kind, {"C07", "C16"}
    bw = render.base_width(d)
    arb = bw is not None and bw not in gen.NATIVE
    if kind in ("get", "with", "set"):
        f = next((x for x in d["fields"] if x["name"] == w[3]), None)
        if f is None:
            return name, kind, set()
        return name, kind, field_props(d, f, "get" if kind == "get" else "write")
    if kind in ("rt", "zero", "default", "defaulttrait", "new"):
        return name, kind, {"C06", "C16"} | ({"C11"} if arb else set())
    if kind == "hist":
        return name, kind, {"C12", "C16"} | ({"C11"} if arb else set())
    if kind == "build":
        return name, kind, {"C13", "C16"}
    if kind == "dbg":
        return name, kind, {"C19"}
    return name, kind, set()


# ---------------------------------------------------------------------------------------------
# evaluation of the pipeline results for one property
# ---------------------------------------------------------------------------------------------

class Finding:
    def __init__(self, kind, prop, what, detail):
        self.kind = kind      # 'violation' (real code vs property), 'correspondence' (model vs code)
        self.prop = prop
        self.what = what
        self.detail = detail


def decl_source(table, d):
    """Rust source of a declaration together with the types it refers to"""
    deps = []
    if d["kind"] == "bitfield":
        for f in d["fields"]:
            if f.get("custom") and f["custom"] in table:
                dep = table[f["custom"]]
                if dep not in deps:
                    for f2 in dep.get("fields", []):
                        if f2.get("custom") and f2["custom"] in table and table[f2["custom"]] not in deps:
                            deps.append(table[f2["custom"]])
                    deps.append(dep)
    text, _ = render.render_decls(deps + [d], pipeline.HEADER[1:])
    return text, [x["name"] for x in deps]


SURFACE_ACCESS = {"r": (True, False), "w": (False, True), "rw": (True, True), "": (False, False)}


def expected_accessors(d):
    """the accessor surface the property C17 demands, from the access specifiers alone"""
    out = set()
    for f in d["fields"]:
        g, s = SURFACE_ACCESS[f["access"]]
        nr = render.ident_noraw(f["name"])
        if g:
            out.add(("fn", nr))
        if s:
            out.add(("fn", "with_" + nr))
            out.add(("fn", "set_" + nr))
    return out


def builder_sound(d):
    """the set-level condition of C14, from the declaration alone: no position writable twice, and a default or full coverage"""
    N = render.base_width(d)
    counts = collections.Counter()
    for f in d["fields"]:
        if "w" not in f["access"] or f.get("spec") is None:
            continue
        K = f["count"] or 1
        stride = f["spec"]["stride"]
        if stride is None:
            stride = sum(hi - lo + 1 for lo, hi in f["spec"]["ranges"])
        for i in range(K):
            for lo, hi in f["spec"]["ranges"]:
                for p in range(lo + i * stride, hi + i * stride + 1):
                    counts[p] += 1
    return all(v <= 1 for v in counts.values()) and (d["default"] is not None or all(counts.get(p, 0) >= 1 for p in range(N)))


def decided_by_evaluation(res, table, name, what):
    """True when the operations executed for declaration `name` cover the whole input space of the items `what` describes:
    `consts` – ZERO / DEFAULT / Default::default() / new() have no inputs; `enum` – both conversions of an enum of at most
    12 bits are executed on all 2^N raw values and on every variant.  (Their results are compared with the reference
    semantics like every other operation; a wrong one is reported there.)"""
    d = table.get(name)
    if d is None or not res.get("profiles"):
        return False
    for prof in res["profiles"]:
        kinds = res.get("op_counts", {}).get(prof, {}).get(name, {})
        if what == "consts":
            need = ["zero"] + (["default", "defaulttrait", "new"] if d.get("default") else [])
            if any(kinds.get(k, 0) < 1 for k in need):
                return False
        elif what == "enum":
            bits = d.get("size")
            if not isinstance(bits, int) or bits > 12 or kinds.get("enew", 0) < 2 ** bits or kinds.get("eraw", 0) < 1:
                return False
        else:
            return False
    return True


def evaluate(prop, res):
    """returns (findings, coverage dict)"""
    decls = res["decls"]
    table = {d["name"]: d for d in decls}
    accepted = set(res["rustc_accepted"])
    model = res["model"]
    findings = []
    cov = collections.Counter()
    samples = []

    # declarations the rule set calls invalid are the business of C09 / C10 (and C19 for `debug`) only: when rustc
    # accepts one of them, what its accessors do says nothing about the properties of *valid* declarations
    invalid_names = set(d["name"] for d in decls if d["expect"] == "invalid")
    layout_props = prop not in ("C09", "C10", "C17", "C19")

    def add(kind, what, detail):
        if layout_props and detail.get("declaration") in invalid_names:
            return
        findings.append(Finding(kind, prop, what, detail))

    # ---- operations ------------------------------------------------------------------------------
    for prof in res["profiles"]:
        counts = res["op_counts"].get(prof, {})
        for name, kinds in counts.items():
            d = table.get(name)
            if d is None:
                continue
            for kind, n in kinds.items():
                # per-field attribution is only needed for accessor ops; count them coarsely by declaration classes
                if kind in ("get", "with", "set"):
                    continue
                _, _, ps = op_props(table, "op %s %s" % (name, kind))
                if prop in ps:
                    cov["ops_" + kind] += n
    # accessor ops: count per field from the ops file (cheap scan)
    for prof, path in res.get("ops_files", {}).items():
        if not os.path.exists(path):
            continue
        per_field = collections.Counter()
        with open(path) as f:
            for line in f:
                if line.startswith("op "):
                    w = line.split(" ", 5)
                    if w[2] in ("get", "with", "set"):
                        per_field[(w[1], w[2], w[3])] += 1
        nontrivial = 0
        for (name, kind, fname), n in per_field.items():
            d = table.get(name)
            if d is None:
                continue
            fdef = next((x for x in d["fields"] if x["name"] == fname), None)
            if fdef is None:
                continue
            ps = field_props(d, fdef, "get" if kind == "get" else "write")
            if prop in ps:
                cov["ops_" + kind] += n
                cov["fields_" + kind] += 1
                if len(samples) < 3:
                    samples.append({"declaration": name, "field": fname, "type": render.field_ty_text(fdef), "attr": fdef["attrs"], "op": kind, "inputs": n})
    # mismatches
    cov["focus_search_ops"] = res.get("focus", {}).get("ops", 0)
    for prof in list(res["profiles"]) + ["focus"]:
        for line in (res.get("focus", {}).get("mismatches", []) if prof == "focus" else res["mismatches"].get(prof, [])):
            if line.startswith("bad-op"):
                opline = line[len("bad-op "):]
                bname, _, ps = op_props(table, opline)
                if prop in ps:
                    add("correspondence", "driver could not interpret operation", {"line": opline, "profile": prof, "declaration": bname})
                continue
            m = re.match(r"mismatch (M|S|A) (.*?) :: (op .*)$", line)
            if not m:
                continue
            which, expected, opline = m.group(1), m.group(2), m.group(3)
            name, kind, ps = op_props(table, opline)
            if prop not in ps:
                continue
            if which == "A":
                # the emitted body, read back into the model's expression language and evaluated, does not give the real
                # result: the translation of that body (on which its validation by normal form rests) is not faithful
                add("correspondence", "the emitted body as translated for its validation evaluates differently from the real code",
                    {"op": opline, "translated_body_gives": expected, "profile": prof, "declaration": name})
                continue
            # C16 only cares about panics / profile differences; value mismatches belong to the accessor properties
            if prop == "C16" and not ("panic" in expected or opline.endswith("= panic")):
                continue
            if which == "S":
                add("violation", "real code disagrees with the reference semantics", {"op": opline, "expected": expected, "profile": prof, "declaration": name})
            else:
                add("correspondence", "real code disagrees with the Lean model", {"op": opline, "model": expected, "profile": prof, "declaration": name})
        for fl in res["flags"].get(prof, []):
            w = fl.split(" ")
            tag = w[0]
            name = w[1] if len(w) > 1 else ""
            if tag == "RECEIVER-CHANGED" and prop == "C02":
                add("violation", "with_ modified its receiver", {"line": fl, "declaration": name})
            elif tag == "REWRAP-DIFF" and prop in ("C11", "C12"):
                # C12: "all getters observe exactly that state" – a getter that tells a value from new_with_raw_value(raw_value())
                # observes something other than the last-write-wins register
                add("violation", "value and its re-wrapped copy differ through a getter", {"line": fl, "declaration": name})
            elif tag == "READBACK-DIFF":
                # "READBACK-DIFF <decl> hist <raw> <n> <steps…> :: <field> <idx> wrote <v> read <got>": after a history of writes the
                # field written last does not read back what was written (read-back for every reachable receiver: C02 / C03 /
                # C04 / C05 / C08 by the kind of the field; C12: the getters observe the last-write-wins state)
                fname = fl.split(" :: ", 1)[1].split(" ")[0] if " :: " in fl else ""
                d0 = table.get(name)
                fdef = next((x for x in d0["fields"] if x["name"] == fname), None) if d0 else None
                ps = (field_props(d0, fdef, "write") | {"C12"}) if fdef else {"C12"}
                if prop in ps and prop != "C16":
                    add("violation", "after a history of writes the field written last does not read back the written value", {"line": fl, "declaration": name})
            elif tag == "HIDDEN-STATE" and prop == "C11":
                add("violation", "an operation created state above bit N-1 of the storage", {"line": fl, "declaration": name})
            elif tag in ("HIST-PANIC", "RUN-PANIC") and prop in ("C12", "C16"):
                add("violation", "unexpected panic", {"line": fl, "declaration": name})
    # dev vs release traces (C16)
    if prop == "C16" and len(res.get("ops_files", {})) >= 2:
        a, b = [res["ops_files"][p] for p in ("dev", "release")]
        with open(a) as fa, open(b) as fb:
            la, lb = fa.read().splitlines(), fb.read().splitlines()
        cov["profile_lines_compared"] = min(len(la), len(lb))
        if len(la) != len(lb):
            add("violation", "dev and release traces have different lengths", {"dev": len(la), "release": len(lb)})
        nd = 0
        for x, y in zip(la, lb):
            if x != y:
                nd += 1
                if nd <= 5:
                    add("violation", "dev and release builds disagree", {"dev": x, "release": y, "declaration": x.split(" ")[1] if " " in x else ""})
        # panics other than out-of-range indices
        for l in la:
            if l.endswith("= panic") and l.startswith("op "):
                w = l.split(" ")
                d = table.get(w[1])
                ok = False
                if d and w[2] in ("get", "with", "set"):
                    fdef = next((x for x in d["fields"] if x["name"] == w[3]), None)
                    if fdef and fdef["count"] is not None and w[4] != "-" and int(w[4]) >= fdef["count"]:
                        ok = True
                cov["panics_oob" if ok else "panics_other"] += 1
                if not ok:
                    add("violation", "operation panics", {"op": l, "declaration": w[1]})

    # ---- AST comparison of the emitted bodies with the model's (translation validation of the macro output) ----------
    ast = res.get("ast", {})
    for (name, item, rsx, msx) in [tuple(x) for x in ast.get("differ", [])] + [(x[0], x[1], x[2], "") for x in ast.get("untranslatable", [])]:
        d = table.get(name)
        if d is None:
            continue
        if item in ("raw_value", "new_with_raw_value"):
            ps = {"C06", "C11", "C16"}
        else:
            base = item
            kind = "get"
            for pre in ("with_", "set_"):
                if item.startswith(pre):
                    base = item[len(pre):]
                    kind = "write"
            fdef = next((x for x in d["fields"] if render.ident_noraw(x["name"]) == base or x["name"] == base), None)
            if fdef is None and kind == "write":
                fdef = next((x for x in d["fields"] if x["name"] == item or render.ident_noraw(x["name"]) == item), None)
                kind = "get"
            ps = field_props(d, fdef, kind) if fdef else set()
            if kind == "write":
                ps |= {"C12"} | ({"C13"} if "builder" in d["classes"] else set())
        if prop in ps:
            add("correspondence", "the emitted body differs from the body the model generates and has no normal form in common with it "
                "(the theorems are about the latter)",
                {"declaration": name, "item": item, "real": rsx, "model": msx, "as_operation": "get %s" % item})
    if ast:
        cov["ast_equal_bodies"] = ast.get("equal", 0)
        cov["ast_differing_bodies"] = ast.get("differ_count", 0)
        cov["ast_untranslatable_bodies"] = ast.get("untranslatable_count", 0)
        nfr = ast.get("nf", {})
        # bodies that differ syntactically from the model's but were proved equivalent to it for all inputs
        # (Nf.bodiesEquiv = true; theorem Bb.Nf.bodiesEquiv_sound / Bb.TV.*_validated)
        cov["nf_validated_bodies"] = nfr.get("validated_count", 0)
        cov["nf_compared_bodies"] = nfr.get("asked", 0)
        cov["nf_equal_bodies"] = nfr.get("equal", 0)
        cov["nf_no_normal_form"] = len(nfr.get("unknown", []))
        cov["nf_kernel_rechecked"] = nfr.get("kernel_checked", 0)
        if nfr.get("samples") and prop in TV_THEOREMS and len(samples) < 6:
            samples.append({"normal_form_of_an_emitted_body (declaration item index bits-LSB-first; rK = raw bit K, vK = written-value bit K)": nfr["samples"][:2]})
        for (name, item) in [tuple(x) for x in nfr.get("kernel_failed", [])][:5]:
            add("correspondence", "the kernel does not confirm the driver's answer that an emitted body is equivalent to the model's",
                {"declaration": name, "item": item})
        for (name, item, verdict) in [tuple(x) for x in nfr.get("ast_equal_but_not_nf_equal", [])][:20]:
            add("correspondence", "a body that is syntactically the model's is not accepted by the normaliser (translator or normaliser defect)",
                {"declaration": name, "item": item, "verdict": verdict})
        for prof in res.get("stats", {}):
            mA = re.search(r"opsA=(\d+) misA=(\d+)", res["stats"][prof])
            if mA:
                cov["translated_body_ops_" + prof] = int(mA.group(1))

    # ---- semantics corpus: the model's meaning of Rust's integer operators / arbitrary-int against rustc ----------------
    sem = res.get("semantics")
    if sem is not None and prop in TV_THEOREMS:
        for prof, n in sem.get("evaluated", {}).items():
            cov["semantics_ops_" + prof] = n
        cov["semantics_exprs"] = sem.get("exprs", 0)
        if sem.get("fail"):
            add("correspondence", "semantics corpus could not be run", {"why": sem["fail"]})
        for l in sem.get("mismatches", [])[:5]:
            add("correspondence", "eval (the model's meaning of Rust's integer operators) disagrees with rustc on a random expression",
                {"line": l})
        if len(sem.get("bad", [])) > max(4, sem.get("exprs", 0) // 50):
            add("correspondence", "too many expressions of the semantics corpus could not be read by the driver", {"lines": sem["bad"][:3]})

    # ---- structural comparison of Debug impl / builder / enum conversions with the model --------------------------------
    sc = res.get("struct_cmp", {})
    want_what = {"C19": "debug", "C13": "builder", "C14": "builder", "C07": "enum", "C06": "consts"}.get(prop)
    if want_what:
        cov["structure_equal"] = sc.get("equal", 0)
        for (name, what, real, want) in [tuple(x) for x in sc.get("differ", [])]:
            if what == want_what and str(real).startswith("unexpected shape") and decided_by_evaluation(res, table, name, what):
                # the item is written in a form the structure matcher does not know, but it has no inputs (constants) or all of
                # its inputs were executed (conversions of an enum of at most 12 bits): the executed operations – compared
                # with the reference semantics in the operations loop above – decide the property for this declaration
                cov["structure_decided_by_complete_evaluation"] += 1
                continue
            if what == want_what or what == "dump":
                add("correspondence", "the %s part of the expansion differs from what the model generates" % what,
                    {"declaration": name, "real": real, "model": want})

    # ---- declarations rustc accepted but whose runner code does not compile ------------------------------------------
    for name, errs in res.get("runner_dropped", {}).items():
        d = table.get(name)
        if d is None:
            continue
        ps = set()
        text = " ".join(errs)
        if "size_of" in text or "align_of" in text or "Copy" in text or "evaluation of constant" in text or "evaluation panicked" in text:
            ps.add("C06")
        if d["kind"] == "bitenum":
            ps.add("C07")
        else:
            for f in d["fields"]:
                ps |= field_props(d, f, "get") | field_props(d, f, "write")
            ps |= {"C06", "C12", "C17"}
            if d.get("debug"):
                ps.add("C19")
            if "builder" in d["classes"]:
                ps |= {"C13", "C14"}
        if prop in ps:
            if prop == "C06" and "C06" in ps and ("size_of" in text or "Copy" in text or "evaluation" in text):
                add("violation", "layout / Copy assertion fails to compile", {"declaration": name, "errors": errs[:3], "source": decl_source(table, d)[0]})
            else:
                add("correspondence", "the generated use of this declaration does not compile", {"declaration": name, "errors": errs[:3]})

    # ---- verdicts (C09 / C10) --------------------------------------------------------------------------
    if prop in ("C09", "C10"):
        want_kind = "bitfield" if prop == "C09" else "bitenum"
        for d in decls:
            if d["kind"] != want_kind or "debug-invalid" in d["classes"]:
                continue
            name = d["name"]
            real = name in accepted
            rel = res.get("rustc_accepted_release")
            if rel is not None:
                cov["verdicts_compared_across_macro_profiles"] += 1
                if (name in rel) != real:
                    src, _ = decl_source(table, d)
                    add("violation", "the verdict depends on how the proc macro is built (dev: %s, release: %s)" % (
                        "accept" if real else "reject", "accept" if name in rel else "reject"), {"declaration": name, "rule": d["rule"], "source": src})
            mv = model.get(name, {}).get("verdict", "missing")
            mdl = (mv == "accept")
            spec = model.get(name, {}).get("spec")
            wellformed = d.get("wellformed", True)
            if wellformed:
                exp = (d["expect"] == "valid")
                cov["decls_valid" if exp else "decls_invalid"] += 1
                if spec is not None:
                    cov["spec_verdicts"] += 1
                    if (spec == "valid") != exp:
                        add("correspondence", "Lean rule set and corpus expectation differ", {"declaration": name, "rule": d["rule"], "spec": spec})
                        exp = (spec == "valid")
                if real != exp:
                    src, _ = decl_source(table, d)
                    add("violation", "rustc %s a declaration the rule set calls %s" % ("accepts" if real else "rejects", "valid" if exp else "invalid"),
                        {"declaration": name, "rule": d["rule"], "source": src, "rustc_errors": res["rustc_rejected"].get(name, [])[:3]})
                elif mdl != real:
                    add("correspondence", "model verdict differs from rustc", {"declaration": name, "rule": d["rule"], "model": mv, "rustc": "accept" if real else "reject"})
            else:
                cov["decls_malformed"] += 1
                if mdl != real:
                    add("correspondence", "model verdict differs from rustc on a malformed declaration", {"declaration": name, "rule": d["rule"], "model": mv, "rustc": "accept" if real else "reject"})
            if len(samples) < 4 and d["expect"] == "invalid":
                samples.append({"declaration": name, "rule": d["rule"], "rustc": "accept" if real else "reject", "model": mv})
    elif prop == "C06":
        # C06 is not conditioned on acceptance: "when a default is declared, DEFAULT, Default::default() and new() all have
        # exactly that raw value". A declaration the rule set calls valid, written with a default, that the real macro
        # rejects delivers none of them (the rejection itself is also C09's finding).
        for d in decls:
            name = d["name"]
            if d["kind"] != "bitfield" or d.get("default") is None or not d.get("wellformed", True) or d["expect"] != "valid":
                continue
            cov["decls_with_default"] += 1
            spec = model.get(name, {}).get("spec")
            if name not in accepted and spec in (None, "valid"):
                src, _ = decl_source(table, d)
                add("violation", "a valid declaration with a declared default is rejected: DEFAULT / Default::default() / new() do not exist",
                    {"declaration": name, "rule": d["rule"], "default": d.get("default"), "source": src,
                     "rustc_errors": res["rustc_rejected"].get(name, [])[:3]})

    # ---- surface (C14, C15, C17, C18) -----------------------------------------------------------------
    if prop in ("C14", "C15", "C17", "C18"):
        for d in decls:
            name = d["name"]
            if d["kind"] != "bitfield" or name not in accepted:
                continue
            real = [tuple(x) for x in res["surfaces"].get(name, [])]
            msurf = model.get(name, {}).get("surface")
            if msurf is None:
                # the model rejects this declaration (that disagreement is C09's / C19's); the access-specifier rule of
                # C17 is still checked against the real surface, the model comparison is skipped
                if prop != "C17":
                    continue
                msurf = []
            mdl = [(k, n[2:] if n.startswith("r#") else n, p == "1", c == "1", dd == "1") for (k, n, p, c, dd) in msurf]
            # the model does not list the struct itself; steps and build are plain fns in the dump
            real_n = [("fn" if k in ("fn",) else k, n, p, c, dd) for (k, n, p, c, dd) in real if not (k == "struct" and n == name)]
            mdl_n = [("fn" if k in ("step", "build") else k, n, p, c, dd) for (k, n, p, c, dd) in mdl]
            cov["surfaces"] += 1
            if prop in ("C15", "C17", "C18") and len(samples) < 2 and len(real_n) > 6:
                samples.append({"declaration": name, "emitted_items(kind,name,pub,const,doc)": real_n[:10]})
            rs, ms = collections.Counter(real_n), collections.Counter(mdl_n)
            if prop == "C17":
                cov["accessor_items"] += sum(1 for x in real_n if x[0] == "fn")
                # the API surface is what is `pub`: an accessor emitted without `pub` does not exist for the user of the type
                # (inside the defining module it would still resolve, which is why a test next to the struct cannot see it)
                real_acc = set((k, n) for (k, n, p, c, dd) in real_n if k == "fn" and p and not n in ("raw_value", "new_with_raw_value", "builder", "build", "new"))
                private_acc = sorted(n for (k, n, p, c, dd) in real_n if k == "fn" and not p and ("fn", n) in expected_accessors(d))
                if private_acc:
                    src, _ = decl_source(table, d)
                    add("violation", "an accessor the access specifier demands is emitted without `pub`",
                        {"declaration": name, "private": private_acc, "source": src})
                # builder steps share the with_ names; sets ignore multiplicity
                want = expected_accessors(d)
                if real_acc != want:
                    src, _ = decl_source(table, d)
                    add("violation", "generated accessors do not match the access specifiers",
                        {"declaration": name, "extra": sorted(real_acc - want), "missing": sorted(want - real_acc), "source": src})
                rk = collections.Counter((k, n) for (k, n, p, c, dd) in real_n)
                mk = collections.Counter((k, n) for (k, n, p, c, dd) in mdl_n)
                # "w gets with_/set_ (and a builder step)": where the declaration is sound and complete (the set-level condition
                # of C14, from the declaration alone) every writable field has its `with_` twice – on the struct and as a step
                if d.get("wellformed", True) and all(f.get("spec") is not None for f in d["fields"]) and builder_sound(d) and real_acc == want:
                    nosteps = sorted(f["name"] for f in d["fields"] if "w" in f["access"] and rk.get(("fn", "with_" + render.ident_noraw(f["name"])), 0) < 2)
                    if nosteps:
                        src, _ = decl_source(table, d)
                        add("violation", "a writable field has no builder step although the declaration offers a builder by the rule",
                            {"declaration": name, "fields_without_step": nosteps, "source": src})
                if msurf and rk != mk and real_acc == want:
                    add("correspondence", "item set of the expansion differs from the model", {"declaration": name, "only_real": sorted((rk - mk).keys()), "only_model": sorted((mk - rk).keys())})
            if prop == "C15":
                for (k, n, p, c, dd) in real_n:
                    if k in ("fn", "const") and not n.startswith("set_"):
                        cov["const_items"] += 1
                        if not c:
                            src, _ = decl_source(table, d)
                            add("violation", "generated item is not const", {"declaration": name, "item": n, "source": src})
                    if k == "fn" and n.startswith("set_") and c:
                        pass
                both = set((k, n) for (k, n, p, c, dd) in real_n) & set((k, n) for (k, n, p, c, dd) in mdl_n)
                rc = set((k, n, c) for (k, n, p, c, dd) in real_n if (k, n) in both)
                mc = set((k, n, c) for (k, n, p, c, dd) in mdl_n if (k, n) in both)
                if rc != mc and not any(f.prop == prop and f.kind == "violation" and f.detail.get("declaration") == name for f in findings):
                    add("correspondence", "const qualifiers differ from the model", {"declaration": name, "diff": sorted(rc ^ mc)})
            if prop == "C18":
                if d.get("docs"):
                    for (k, n, p, c, dd) in real_n:
                        if p and k in ("fn", "const", "struct"):
                            cov["doc_items"] += 1
                            if not dd:
                                src, _ = decl_source(table, d)
                                add("violation", "public item without documentation", {"declaration": name, "item": n, "source": src})
                both = set((k, n) for (k, n, p, c, dd) in real_n) & set((k, n) for (k, n, p, c, dd) in mdl_n)
                rd = set((k, n, dd) for (k, n, p, c, dd) in real_n if k != "traitfn" and (k, n) in both)
                md = set((k, n, dd) for (k, n, p, c, dd) in mdl_n if k != "traitfn" and (k, n) in both)
                if rd != md and not any(f.kind == "violation" and f.detail.get("declaration") == name for f in findings):
                    add("correspondence", "doc attributes differ from the model", {"declaration": name, "diff": sorted(rd ^ md)})
            if prop == "C14":
                real_has = any(n == "builder" for (k, n, p, c, dd) in real_n)
                mb = model.get(name, {}).get("builder", "none")
                cov["builder_yes" if real_has else "builder_no"] += 1
                if real_has != (mb != "none"):
                    add("correspondence", "builder presence differs from the model", {"declaration": name, "real": real_has, "model": mb})
    # ---- C14: the set-level condition of the property, computed from the declaration alone -----------------------
    if prop == "C14":
        for d in decls:
            name = d["name"]
            if d["kind"] != "bitfield" or name not in accepted or not d.get("wellformed", True):
                continue
            N = render.base_width(d)
            counts = collections.Counter()
            for f in d["fields"]:
                if "w" not in f["access"] or f.get("spec") is None:
                    continue
                K = f["count"] or 1
                stride = f["spec"]["stride"]
                if stride is None:
                    stride = sum(hi - lo + 1 for lo, hi in f["spec"]["ranges"])
                for i in range(K):
                    for lo, hi in f["spec"]["ranges"]:
                        for p in range(lo + i * stride, hi + i * stride + 1):
                            counts[p] += 1
            sound = all(v <= 1 for v in counts.values()) and (d["default"] is not None or all(counts.get(p, 0) >= 1 for p in range(N)))
            real_has = any(x[1] == "builder" for x in res["surfaces"].get(name, []))
            cov["builder_spec_yes" if sound else "builder_spec_no"] += 1
            if len(samples) < 2 and "builder-overlap" in d["classes"]:
                samples.append({"declaration": name, "fields": [(f["name"], render.field_ty_text(f), f["attrs"]) for f in d["fields"]],
                                "default": d["default"], "builder_sound_by_rule": sound, "builder_offered": real_has})
            if real_has != sound:
                src, _ = decl_source(table, d)
                add("violation", "builder() is %s although the declaration is %s" % ("offered" if real_has else "missing", "sound and complete" if sound else "unsound or incomplete"),
                    {"declaration": name, "source": src, "double_covered": sorted(p for p, v in counts.items() if v > 1)[:8]})
            # type-state chain of the real expansion (impl headers Partial<prev> … -> Partial<next>) vs the model's
            mb = model.get(name, {}).get("builder", "none")
            real_chain = res.get("chains", {}).get(name)
            if real_has and mb.startswith("chain"):
                want = []
                final = None
                for w in mb.split(" ")[1:]:
                    if w.startswith("final="):
                        final = int(w[6:], 0)
                    elif w:
                        fn, a, b = w.rsplit(":", 2)
                        want.append(["with_" + render.ident_noraw(fn), int(a, 0), int(b, 0)])
                want.append(["build", final, None])
                cov["chains_compared"] += 1
                if real_chain != want:
                    # is the real chain still linear with strictly growing masks and build() only at the end?
                    ok_linear = bool(real_chain) and real_chain[-1][0] == "build" and all(
                        real_chain[i][2] == real_chain[i + 1][1] and real_chain[i][1] != real_chain[i][2] and (real_chain[i][1] & real_chain[i][2]) == real_chain[i][1]
                        for i in range(len(real_chain) - 1)) and real_chain[0][1] == 0
                    if ok_linear:
                        add("correspondence", "builder mask chain differs from the model", {"declaration": name, "real": real_chain, "model": want})
                    else:
                        src, _ = decl_source(table, d)
                        add("violation", "builder type-state is not a strictly growing linear chain", {"declaration": name, "real": real_chain, "source": src})
    # ---- compile-time probes (C14 type-state, C17 presence / absence) -------------------------------------------------
    if prop in ("C14", "C17"):
        pr = res.get("probes", {})
        for e in pr.get("list", []):
            is14 = ("chain" in e["what"] or "build()" in e["what"] or "field first" in e["what"] or "field twice" in e["what"])
            if (prop == "C14") != is14:
                continue
            cov["probes_" + e["expect"]] += 1
            if len(samples) < 4 and (e["expect"] == "err") == (len(samples) % 2 == 1):
                samples.append({"compile_time_probe": e["what"], "declaration": e["decl"], "expected": e["expect"], "rustc": e["got"], "errors": e["errors"][:1]})
            if e["expect"] != e["got"]:
                d = table.get(e["decl"])
                src = decl_source(table, d)[0] if d else ""
                add("violation", "compile-time probe: %s %s" % (e["what"], "compiles although it must not" if e["got"] == "ok" else "does not compile"),
                    {"declaration": e["decl"], "probe": e["what"], "errors": e["errors"], "source": src})
        if pr.get("fail"):
            add("correspondence", "the probe crate produced unattributed errors", {"errors": pr["fail"]})
    # ---- C15: const items evaluated by rustc vs run time -------------------------------------------------------------
    if prop == "C15":
        for prof in res["profiles"]:
            for fl in res["flags"].get(prof, []):
                if fl.startswith("CONST-DIFF"):
                    w = fl.split(" ")
                    add("violation", "compile-time result differs from run-time result", {"line": fl, "declaration": w[1], "profile": prof})
        cov["const_evaluated"] = res.get("const_ok", 0)
        for name, errs in res.get("const_failed", {}).items():
            d = table.get(name)
            add("violation", "a listed operation cannot be evaluated in a const context (the const items of this declaration do not compile)",
                {"declaration": name, "errors": errs[:3], "source": decl_source(table, d)[0] if d else ""})
        for name, errs in res.get("runner_dropped", {}).items():
            text = " ".join(errs)
            if "non-const" in text or "E0015" in text or "in constants" in text or "const fn" in text:
                d = table.get(name)
                add("violation", "a listed operation is not usable in const context", {"declaration": name, "errors": errs[:3], "source": decl_source(table, d)[0] if d else ""})
    # ---- C18: token scan -------------------------------------------------------------------------------------------
    if prop == "C18":
        for name, sc in res.get("token_scan", {}).items():
            cov["expansions_scanned"] += 1
            if sc.get("unsafe"):
                add("violation", "expansion contains `unsafe`", {"declaration": name})
            if sc.get("bad_paths"):
                add("violation", "expansion refers to a path outside core / arbitrary_int", {"declaration": name, "paths": sc["bad_paths"]})
        nostd = res.get("nostd")
        if nostd is not None:
            cov["nostd_decls"] = nostd.get("decls", 0)
            for name, errs in nostd.get("rejected", {}).items():
                d = table.get(name)
                src = decl_source(table, d)[0] if d else ""
                add("violation", "does not compile under #![no_std] #![deny(missing_docs)]", {"declaration": name, "errors": errs[:3], "source": src})
            if nostd.get("fail"):
                add("correspondence", "the no_std crate could not be built", {"detail": nostd["fail"]})
    # ---- C19: declarations that must not compile with `debug` -------------------------------------------------------
    if prop == "C19":
        for d in decls:
            if "debug-invalid" in d["classes"]:
                cov["debug_invalid_decls"] += 1
                if d["name"] in accepted:
                    src, _ = decl_source(table, d)
                    add("violation", "a declaration with `debug` and an array / unreadable field compiles", {"declaration": d["name"], "rule": d["rule"], "source": src})
    if samples:
        cov["_samples"] = samples
    return findings, cov


# ---------------------------------------------------------------------------------------------
# main
# ---------------------------------------------------------------------------------------------

REQUIRED_COVERAGE = {
    "C01": ["ops_get"], "C02": ["ops_with", "ops_set"], "C03": ["ops_get", "ops_with"], "C04": ["ops_get", "ops_with"],
    "C05": ["ops_get", "ops_with"], "C06": ["ops_rt", "ops_zero", "ops_default"], "C07": ["ops_enew", "ops_eraw"],
    "C08": ["ops_get", "ops_with"], "C09": ["decls_valid", "decls_invalid"], "C10": ["decls_valid", "decls_invalid"],
    "C11": ["ops_hist", "ops_rt"], "C12": ["ops_hist"], "C13": ["ops_build"], "C14": ["builder_yes", "builder_no"],
    "C15": ["const_items", "const_evaluated"], "C16": ["ops_get", "ops_with", "profile_lines_compared"], "C17": ["accessor_items", "probes_ok", "probes_err"],
    "C18": ["doc_items", "expansions_scanned", "nostd_decls"], "C19": ["ops_dbg", "debug_invalid_decls"],
}


def load_known_findings():
    p = os.path.join(VERIF, "known_findings.json")
    if os.path.exists(p):
        with open(p) as f:
            return json.load(f)
    return {"known": [], "fixed": []}


def matches_known(k, f):
    """a known finding names a property and a predicate on the failing case"""
    if k["property"] != f.prop:
        return False
    d = f.detail
    text = json.dumps(d)
    return all(s in text for s in k.get("match_all", []))


def replay(path):
    """re-runs the declaration of a replay file (alone, with the types it depends on) against /repo's working tree and
    re-evaluates the property on it; exit 1 when the violation shows again"""
    with open(path) as fh:
        rp = json.load(fh)
    prop = rp["property"]
    print("replay of %s: %s" % (prop, rp.get("what") or rp.get("kind")))
    if "declaration_json" not in rp:
        print(json.dumps(rp, indent=1)[:4000])
        print("this replay names a broken proof obligation / correspondence, not a single declaration; re-run ./check %s" % prop)
        return 1
    decls = list(rp.get("deps_json", [])) + [rp["declaration_json"]]
    os.environ.setdefault("VERIF_WORK", os.path.join(pipeline.WORK_ROOT, "replay"))
    pipeline.WORK_ROOT = os.environ["VERIF_WORK"]
    res = pipeline.build_and_run(rp.get("tier", "quick"), rp.get("seed", 1), ("dev", "release"), decls_override=decls)
    findings, cov = evaluate(prop, res)
    print(rp.get("source", ""))
    name = rp["declaration_json"]["name"]
    print("rustc verdict: %s" % ("accepted" if name in res["rustc_accepted"] else "rejected: %s" % res["rustc_rejected"].get(name, [""])[:2]))
    print("model verdict: %s" % res["model"].get(name, {}).get("verdict"))
    real = [f for f in findings if f.kind == "violation"]
    for f in findings[:20]:
        print("%s: %s %s" % (f.kind.upper(), f.what, json.dumps(f.detail)[:400]))
    if not findings:
        print("no disagreement on this declaration now")
    return 1 if real else 0


def macro_coverage(tier, seed):
    """line coverage of the proc macro under the corpus (harness/coverage.py); cached next to the results"""
    key = "%s-%s-%s-%d" % (pipeline.repo_key(), pipeline.framework_key(), tier, seed)
    rep = os.path.join(pipeline.WORK_ROOT, "coverage", "report.json")
    try:
        if os.path.exists(rep):
            with open(rep) as f:
                r = json.load(f)
            if r.get("key") == key:
                return r["summary"]
        p = subprocess.run([sys.executable, os.path.join(os.path.dirname(os.path.abspath(__file__)), "coverage.py"), tier, str(seed)],
                           stdout=subprocess.PIPE, stderr=subprocess.STDOUT, text=True, timeout=3600)
        with open(rep) as f:
            r = json.load(f)
        summary = {"lines": r["total_lines"], "covered": r["covered_lines"],
                   "missed": ["%s:%d" % (fn, m["line"]) for fn, fr in r["files"].items() for m in fr["missed"]][:60]}
        r["key"] = key
        r["summary"] = summary
        with open(rep, "w") as f:
            json.dump(r, f)
        return summary
    except Exception as e:  # noqa  (no nightly toolchain, …): coverage is information, not a verdict
        return {"unavailable": str(e)[:200]}


def main(argv):
    t0 = time.time()
    if len(argv) >= 3 and argv[1] == "replay":
        return replay(argv[2])
    prop = argv[1]
    tier = os.environ.get("VERIF_TIER", "quick")
    if "--tier" in argv:
        tier = argv[argv.index("--tier") + 1]
    seed = int(os.environ.get("VERIF_SEED", "1"))
    if prop not in PROPS:
        print("unknown property", prop)
        return 2
    profiles = ("dev", "release")
    lean = lean_obligations(prop, thorough=(tier == "thorough"))
    res = pipeline.build_and_run(tier, seed, profiles)
    findings, cov = evaluate(prop, res)
    samples = cov.pop("_samples", [])
    # infrastructure failures break the correspondence for every property
    infra = []
    if res.get("runner_fail"):
        infra.append("runner: " + str(res["runner_fail"]))
    if res.get("unattributed"):
        infra.append("unattributed compiler errors: " + json.dumps(res["unattributed"][:2])[:400])
    if res.get("runner_unattributed"):
        infra.append("unattributed runner errors: " + json.dumps(res["runner_unattributed"][:2])[:400])
    if model_bad := res["model"].get("_bad"):
        infra.append("driver rejected lines: " + json.dumps(model_bad)[:300])
    missing_cov = [k for k in REQUIRED_COVERAGE.get(prop, []) if cov.get(k, 0) == 0]

    known = load_known_findings()
    violations = []
    known_hits = []
    for f in findings:
        hit = next((k for k in known["known"] if matches_known(k, f)), None)
        if hit is not None:
            known_hits.append((hit, f))
        else:
            violations.append(f)
    for k in known["known"]:
        if k["property"] == prop and any(h is k for h, _ in known_hits):
            print("KNOWN-FINDING: property=%s %s" % (prop, k["what"]))

    os.makedirs(os.path.join(OUT, "replays", prop), exist_ok=True)
    os.makedirs(os.path.join(OUT, "evidence"), exist_ok=True)
    table = {d["name"]: d for d in res["decls"]}
    rc = 0
    out_lines = []
    real = [f for f in violations if f.kind == "violation"]
    corr = [f for f in violations if f.kind == "correspondence"]

    def write_replay(n, payload):
        path = os.path.join(OUT, "replays", prop, "%d.json" % n)
        with open(path, "w") as fh:
            json.dump(payload, fh, indent=1)
        return path

    if real:
        for n, f in enumerate(real[:5]):
            d = table.get(f.detail.get("declaration", ""))
            payload = {"property": prop, "kind": "failing-input", "what": f.what, "detail": f.detail, "tier": tier, "seed": seed}
            if d is not None:
                src, deps = decl_source(table, d)
                payload.setdefault("source", src)
                payload["depends_on"] = deps
                payload["declaration_json"] = d
                payload["deps_json"] = [table[x] for x in deps]
            path = write_replay(n, payload)
            out_lines.append("VIOLATION property=%s replay=%s" % (prop, path))
        rc = 1
    else:
        broken = []
        if lean["problems"]:
            broken.append({"what": "proof obligations of %s do not check" % prop, "problems": lean["problems"]})
        if corr:
            broken.append({"what": "correspondence between the Lean model and the code is broken",
                           "cases": [{"what": f.what, "detail": f.detail} for f in corr[:10]]})
        if infra:
            broken.append({"what": "the correspondence run could not be completed", "problems": infra})
        if missing_cov:
            broken.append({"what": "required coverage missing: nothing of this kind was exercised", "missing": missing_cov})
        if broken:
            path = write_replay(0, {"property": prop, "kind": "no-failing-input-found", "broken": broken, "tier": tier, "seed": seed,
                                    "searched": "all corpus declarations and probe inputs of this tier; no operation of the real code disagreed with the reference semantics"})
            out_lines.append("VIOLATION property=%s replay=%s no-failing-input-found" % (prop, path))
            rc = 1

    ops_total = sum(v for k, v in cov.items() if k.startswith("ops_"))
    if tier == "thorough":
        cov["macro_line_coverage"] = macro_coverage(tier, seed)
    evidence = {
        "property_id": prop, "tier": tier, "seed": seed, "level": "proof",
        "coverage": {
            "obligations": lean["obligations"], "discharged": lean["discharged"],
            "obligation_samples": lean["theorems"][:3],
            "checker_cmd": lean["checker_cmd"], "trusted_base": TRUSTED_BASE,
            "theorems": lean["theorems"],
            "correspondence": {k: v for k, v in cov.items()},
            "evaluations": max(1, ops_total + cov.get("decls_valid", 0) + cov.get("decls_invalid", 0) + cov.get("surfaces", 0)),
            "rule": "theorems of namespace Bb.%s checked by the Lean kernel; correspondence: corpus declarations (systematic over template branches and boundary widths + seeded random) built against /repo's working tree, every probe operation executed on the real code and compared with the Lean model (M) and the reference semantics (S)" % prop,
            "samples": samples or [{"obligation": t} for t in lean["theorems"][:3]] or [{"note": "no sample"}],
            "declarations_total": len(res["decls"]), "declarations_accepted_by_rustc": len(res["rustc_accepted"]),
            "driver_stats": res.get("stats", {}),
            "model_disagreements": len(corr), "implementation_vs_oracle_failures": len(real),
            "known_findings_reproduced": len(known_hits),
            "lean_problems": lean["problems"],
        },
        "assumptions": ["see trusted_base"],
        "wall_s": round(time.time() - t0, 2),
        "violations": len(real) + (1 if (rc == 1 and not real) else 0),
    }
    with open(os.path.join(OUT, "evidence", "%s.json" % prop), "w") as fh:
        json.dump(evidence, fh, indent=1)
    for l in out_lines:
        print(l)
    print("%s: %s (obligations %d/%d, %d correspondence operations, %.0fs)" % (
        prop, "FAIL" if rc else "ok", lean["discharged"], lean["obligations"], ops_total, time.time() - t0))
    return rc


if __name__ == "__main__":
    sys.exit(main(sys.argv))
