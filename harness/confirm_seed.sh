#!/bin/sh
# usage: confirm_seed.sh <worktree> <demo-dir> <Sxx> [build|run]  — confirms a sub-agent's change (tests pass with it, demo fails with it
# and passes without it) and stores patch + demo under /verif/seeded/<Sxx>/.  Prints the facts for meta.json.
wt="$1"; demo="$2"; id="$3"; mode="${4:-run}"
out=/verif/seeded/$id
export CARGO_NET_OFFLINE=true
mkdir -p "$out"
git -C "$wt" diff -- bitbybit > "$out/patch.diff"
[ -s "$out/patch.diff" ] || { echo "empty patch"; exit 2; }
( cd "$wt" && CARGO_TARGET_DIR="$wt/target" cargo test --workspace --offline 2>&1 | grep -E "^test result" | awk '{p+=$4; f+=$6} END {print "tests_with_patch: " p " passed, " f " failed"}' )
rm -rf "$demo/target"
( cd "$demo" && CARGO_TARGET_DIR="$demo/target" cargo $mode --offline >/dev/null 2>"$demo/with.log"; echo "demo_with_patch: cargo $mode exit $?" )
git -C "$wt" apply -R "$out/patch.diff" || { echo "cannot revert"; exit 2; }
touch "$wt/bitbybit/src/lib.rs"
( cd "$demo" && CARGO_TARGET_DIR="$demo/target" cargo $mode --offline >/dev/null 2>"$demo/without.log"; echo "demo_without_patch: cargo $mode exit $?" )
git -C "$wt" apply "$out/patch.diff"
rm -rf "$demo/target" "$wt/target"
rm -rf "$out/demo"; mkdir -p "$out/demo"
cp -r "$demo/Cargo.toml" "$demo/src" "$out/demo/" ; cp "$demo/Cargo.lock" "$out/demo/" 2>/dev/null
sed -i 's#path = "[^"]*bitbybit"#path = "../bitbybit"#' "$out/demo/Cargo.toml"
tail -3 "$demo/with.log"
