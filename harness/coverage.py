#!/usr/bin/env python3
"""Line coverage of the proc macro (/repo/bitbybit/src) under the generated corpus.

The corpus is only as good as what it makes the macro execute.  This tool builds the macro with
`-C instrument-coverage` (nightly toolchain: its llvm-tools match the profile format), expands every declaration of the
corpus (valid, invalid and malformed ones) and reports which source lines of the macro were never executed.

usage: coverage.py [quick|thorough] [seed]      (writes $VERIF_WORK/coverage/report.json and prints a summary)
"""
import json, os, re, shutil, subprocess, sys, glob

sys.path.insert(0, os.path.dirname(os.path.abspath(__file__)))
import gen, render, pipeline  # noqa: E402

NIGHTLY_BIN = os.path.expanduser("~/.rustup/toolchains/nightly-x86_64-unknown-linux-gnu/lib/rustlib/x86_64-unknown-linux-gnu/bin")


def main(argv):
    tier = argv[1] if len(argv) > 1 else "quick"
    seed = int(argv[2]) if len(argv) > 2 else 1
    root = os.path.join(pipeline.WORK_ROOT, "coverage")
    shutil.rmtree(root, ignore_errors=True)
    ws = os.path.join(root, "ws")
    prof = os.path.join(root, "prof")
    os.makedirs(prof)
    decls = gen.generate(seed, tier)
    chunks = pipeline.chunk_decls(decls)
    members = ["c%d" % i for i in range(pipeline.NCHUNK + 1)] + ["support"]
    pipeline.setup_workspace(ws, members)
    pipeline.write(os.path.join(ws, "support", "Cargo.toml"),
                   "[package]\nname = \"support\"\nversion = \"0.1.0\"\nedition = \"2021\"\n\n[dependencies]\narbitrary-int = { version = \"1.3.0\", default-features = false }\n")
    os.makedirs(os.path.join(ws, "support", "src"), exist_ok=True)
    shutil.copy(os.path.join(pipeline.VERIF, "harness", "static", "support.rs"), os.path.join(ws, "support", "src", "lib.rs"))
    env = dict(pipeline.CARGO_ENV)
    env["RUSTFLAGS"] = "-C instrument-coverage"
    env["LLVM_PROFILE_FILE"] = os.path.join(prof, "%p-%m.profraw")
    env["CARGO_TARGET_DIR"] = os.path.join(root, "target")

    def write_all(c0_valid_only):
        for i, ch in enumerate(chunks):
            ds = ch
            if i == 0 and c0_valid_only:
                ds = [d for d in ch if d["expect"] == "valid"]
            text, _ = render.render_decls(ds, pipeline.decl_header(i))
            pipeline.write(os.path.join(ws, "c%d" % i, "Cargo.toml"), pipeline.chunk_toml(i))
            pipeline.write(os.path.join(ws, "c%d" % i, "src", "lib.rs"), pipeline.HEADER[0] + "\npub mod decls;\n")
            pipeline.write(os.path.join(ws, "c%d" % i, "src", "decls.rs"), text)

    def check(pkgs):
        cmd = ["cargo", "+nightly", "check", "--offline", "--keep-going"] + sum([["-p", p] for p in pkgs], [])
        p = subprocess.run(cmd, cwd=ws, env=env, stdout=subprocess.PIPE, stderr=subprocess.STDOUT, text=True)
        return p.returncode, p.stdout

    # pass 1: the shared types, invalid ones included (errors are expected; every macro invocation is still expanded)
    write_all(False)
    rc1, out1 = check(["c0"])
    # pass 2: valid shared types, every other declaration
    write_all(True)
    rc2, out2 = check(["c%d" % i for i in range(1, pipeline.NCHUNK + 1)])
    raws = glob.glob(os.path.join(prof, "*.profraw"))
    if not raws:
        print("no profiles were written:\n" + out2[-2000:])
        return 2
    pd = os.path.join(root, "all.profdata")
    subprocess.run([os.path.join(NIGHTLY_BIN, "llvm-profdata"), "merge", "-sparse"] + raws + ["-o", pd], check=True)
    sos = glob.glob(os.path.join(root, "target", "debug", "deps", "libbitbybit-*.so"))
    exp = subprocess.run([os.path.join(NIGHTLY_BIN, "llvm-cov"), "export", "-format=lcov", "--instr-profile=" + pd] +
                         sum([["--object", s] for s in sos], []), stdout=subprocess.PIPE, stderr=subprocess.PIPE, text=True)
    files = {}
    cur = None
    for line in exp.stdout.splitlines():
        if line.startswith("SF:"):
            path = line[3:]
            cur = path if "/bitbybit/src/" in path else None
            if cur:
                files.setdefault(cur, {})
        elif line.startswith("DA:") and cur:
            ln, cnt = line[3:].split(",")[:2]
            files[cur][int(ln)] = max(files[cur].get(int(ln), 0), int(cnt))
    report = {"tier": tier, "seed": seed, "declarations": len(decls), "files": {}}
    tot = hit = 0
    for path, lines in sorted(files.items()):
        rel = path.split("/bitbybit/src/")[1]
        src = open(path).read().splitlines()
        missed = sorted(l for l, c in lines.items() if c == 0)
        report["files"][rel] = {"lines": len(lines), "covered": len(lines) - len(missed),
                                "missed": [{"line": l, "text": src[l - 1].strip()[:140] if l - 1 < len(src) else ""} for l in missed]}
        tot += len(lines)
        hit += len(lines) - len(missed)
    report["total_lines"] = tot
    report["covered_lines"] = hit
    with open(os.path.join(root, "report.json"), "w") as f:
        json.dump(report, f, indent=1)
    print("macro line coverage under the %s corpus (%d declarations): %d / %d lines (%.1f%%)" % (tier, len(decls), hit, tot, 100.0 * hit / max(1, tot)))
    for rel, r in report["files"].items():
        print("  %-24s %4d / %4d" % (rel, r["covered"], r["lines"]))
        for m in r["missed"]:
            print("      missed %4d: %s" % (m["line"], m["text"]))
    shutil.rmtree(os.path.join(root, "target"), ignore_errors=True)
    shutil.rmtree(prof, ignore_errors=True)
    return 0


if __name__ == "__main__":
    sys.exit(main(sys.argv))
