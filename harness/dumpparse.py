"""Tokenises a dumped macro expansion (`TokenStream::to_string()`) and extracts its items."""
import re

TOKEN_RE = re.compile(r"""
    (?P<ws>\s+)
  | (?P<rawstr>r\#*")                     # raw string start, handled specially
  | (?P<str>"(?:[^"\\]|\\.)*")
  | (?P<char>'(?:[^'\\]|\\.)')
  | (?P<lifetime>'[A-Za-z_][A-Za-z0-9_]*)
  | (?P<ident>(?:r\#)?[A-Za-z_][A-Za-z0-9_]*)
  | (?P<num>[0-9][0-9A-Za-z_]*)
  | (?P<punct>.)
""", re.X | re.S)


def tokenize(text):
    toks = []
    i = 0
    n = len(text)
    while i < n:
        m = TOKEN_RE.match(text, i)
        kind = m.lastgroup
        if kind == "ws":
            i = m.end()
            continue
        if kind == "rawstr":
            hashes = m.group().count("#")
            end = text.find('"' + "#" * hashes, m.end())
            if end < 0:
                end = n
            toks.append(("str", text[i:end + 1 + hashes]))
            i = end + 1 + hashes
            continue
        toks.append((kind, m.group()))
        i = m.end()
    return toks


class Item:
    def __init__(self):
        self.kind = None      # 'fn' | 'const' | 'struct' | 'enum' | 'traitfn'
        self.name = None
        self.is_pub = False
        self.is_const = False
        self.has_doc = False
        self.attrs = []       # attribute names
        self.impl_header = None  # token texts of the enclosing impl header, or None
        self.sig = []         # token texts between the name and the body / ';'
        self.body = []        # tokens (kind, text) of the body (fn) or initializer (const)

    def as_tuple(self):
        return (self.kind, self.name, self.is_pub, self.is_const, self.has_doc)


def match_close(toks, i):
    """toks[i] is an opening bracket; returns index of the matching close"""
    pairs = {"{": "}", "(": ")", "[": "]"}
    op = toks[i][1]
    cl = pairs[op]
    depth = 0
    j = i
    while j < len(toks):
        t = toks[j][1]
        if toks[j][0] == "punct":
            if t == op:
                depth += 1
            elif t == cl:
                depth -= 1
                if depth == 0:
                    return j
        j += 1
    return len(toks) - 1


def parse_items(toks, impl_header=None, in_trait=False):
    """items of one nesting level (top level or inside an impl block)"""
    items = []
    i = 0
    n = len(toks)
    attrs = []
    has_doc = False
    while i < n:
        k, t = toks[i]
        if k == "punct" and t == "#" and i + 1 < n and toks[i + 1][1] == "[":
            j = match_close(toks, i + 1)
            inner = toks[i + 2:j]
            if inner:
                attrs.append(inner[0][1])
                if inner[0][1] == "doc":
                    has_doc = True
            i = j + 1
            continue
        if k == "ident" and t == "impl":
            # header up to '{'
            j = i + 1
            while j < n and not (toks[j][0] == "punct" and toks[j][1] == "{"):
                j += 1
            header = [x[1] for x in toks[i + 1:j]]
            close = match_close(toks, j)
            items.extend(parse_items(toks[j + 1:close], impl_header=header, in_trait=("for" in header)))
            i = close + 1
            attrs, has_doc = [], False
            continue
        # item start?
        j = i
        is_pub = False
        is_const = False
        if toks[j][1] == "pub" and toks[j][0] == "ident":
            is_pub = True
            j += 1
            if j < n and toks[j][1] == "(":       # pub(crate)
                j = match_close(toks, j) + 1
        if j < n and toks[j][1] == "const" and j + 1 < n and toks[j + 1][1] == "fn":
            is_const = True
            j += 1
        if j < n and toks[j][0] == "ident" and toks[j][1] in ("fn", "struct", "enum", "const") and j + 1 < n and toks[j + 1][0] == "ident":
            it = Item()
            kw = toks[j][1]
            it.name = toks[j + 1][1]
            if it.name.startswith("r#"):
                it.name = it.name[2:]
            it.is_pub = is_pub
            it.is_const = is_const or kw == "const"
            it.has_doc = has_doc
            it.attrs = attrs
            it.impl_header = impl_header
            it.kind = {"fn": "traitfn" if in_trait else "fn", "struct": "struct", "enum": "enum", "const": "const"}[kw]
            # signature up to body or ';'
            m = j + 2
            while m < n and not (toks[m][0] == "punct" and toks[m][1] in ("{", ";", "=")):
                if toks[m][0] == "punct" and toks[m][1] in ("(", "["):
                    c = match_close(toks, m)
                    it.sig.extend(x[1] for x in toks[m:c + 1])
                    m = c + 1
                    continue
                if toks[m][0] == "punct" and toks[m][1] == "<" and kw == "struct":
                    pass
                it.sig.append(toks[m][1])
                m += 1
            if m < n and toks[m][1] == "{":
                c = match_close(toks, m)
                it.body = toks[m + 1:c]
                i = c + 1
            elif m < n and toks[m][1] == "=":
                c = m
                while c < n and not (toks[c][0] == "punct" and toks[c][1] == ";"):
                    if toks[c][0] == "punct" and toks[c][1] in ("(", "[", "{"):
                        c = match_close(toks, c)
                    c += 1
                it.body = toks[m + 1:c]
                i = c + 1
            else:
                i = m + 1
            items.append(it)
            attrs, has_doc = [], False
            continue
        i += 1
        attrs, has_doc = [], False
    return items


def parse_dump(text):
    return parse_items(tokenize(text))


def surface(text):
    return [it.as_tuple() for it in parse_dump(text)]


def has_unsafe(text):
    return any(k == "ident" and t == "unsafe" for k, t in tokenize(text))


KEYWORDS = {"impl", "mut", "for", "as", "dyn", "in", "where", "fn", "let", "const", "pub", "return", "if", "else", "match", "ref", "use"}


def paths(text):
    """all `a :: b :: c` paths of the expansion as tuples of idents (a leading `::` is marked by a first element '')"""
    toks = tokenize(text)
    out = []
    i = 0
    n = len(toks)

    def is_sep(j):
        return j + 1 < n and toks[j] == ("punct", ":") and toks[j + 1] == ("punct", ":")

    while i < n:
        k, t = toks[i]
        if k == "ident" and t not in KEYWORDS:
            # is this the start of a path? (not preceded by `::`)
            if i >= 2 and is_sep(i - 2):
                prev = toks[i - 3] if i >= 3 else None
                arrow = prev is not None and prev[1] == ">" and i >= 4 and toks[i - 4][1] == "-"
                lead = prev is None or arrow or not ((prev[0] == "ident" and prev[1] not in KEYWORDS) or prev[1] == ">")
                if not lead:
                    i += 1
                    continue
            else:
                lead = False
            segs = [t]
            j = i + 1
            while is_sep(j) and j + 2 < n and toks[j + 2][0] == "ident":
                segs.append(toks[j + 2][1])
                j += 3
            if len(segs) > 1 or lead:
                out.append(tuple(([""] if lead else []) + segs))
            i = j
            continue
        i += 1
    return out


if __name__ == "__main__":
    import sys
    txt = open(sys.argv[1]).read()
    for it in parse_dump(txt):
        print(it.as_tuple(), " ".join(it.impl_header or []), "|", " ".join(it.sig)[:80])
