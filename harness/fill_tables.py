import subprocess, re, os, json
out = subprocess.run(["python3", "/verif/harness/seeded_table.py", "/tmp/trial2", "--update-meta"], stdout=subprocess.PIPE, text=True).stdout.splitlines()
hdr = out[:2]
rows = sorted([l for l in out[2:] if re.match(r"^\| S(8\d|9\d|10\d) ", l)], key=lambda l: int(re.match(r"^\| S(\d+)", l).group(1)))
seeded = "\n".join(hdr + rows)
what = {
 "H19": "bitenum conversions bind the scrutinee / the raw value to a local first (`let value = value.value(); match value {…}`)",
 "H20": "`ZERO` as a struct literal, `new_with_raw_value` with `Self { .. }`, `Default::default()` returning `Name::DEFAULT`",
 "H21": "`Debug::fmt` written as statements on a local `DebugStruct` instead of one chain",
 "H22": "`builder()` starts from `Self::DEFAULT` / `Self::ZERO`",
 "H23": "multi-range setter: `const MASK` un-negated, negation at the use site, `|` operands swapped",
 "H24": "`ArgumentParser` matches on `(state, char)` tuples, push loop as `map/collect` (internal)",
 "H25": "builder masks through helpers `range_mask` / `ranges_mask`, iterator adaptors (internal)",
 "H26": "array element position as `index * stride + lo`",
 "H27": "setters clear with `raw ^ (raw & M)` (four templates)",
 "H28": "per-range mask of the packed getter as `!0 >> (W - n)`",
 "H29": "`bitenum.rs`: `check_explicit_exhaustive` split into helpers, loop as `try_fold` (internal)",
 "H30": "`parse_field`: five helpers extracted, nested ifs as a `match` (internal)",
 "H31": "fifteen compile-error messages reworded",
 "H32": "doc comments of the generated items reworded",
 "H33": "`#[inline]` on builder steps, `build()`, `builder()` and the bitenum conversions",
 "H34": "all getters first, then the setters; `DEFAULT` group before `ZERO`",
 "H35": "signed getter by arithmetic shift `((raw << a) as iW >> b) as iN`",
 "H36": "masks as `uW::MAX >> (W - n)` / `!(uW::MAX << n)`",
 "H37": "bool getter `((raw >> k) & 1) == 1`, branch-free bool setter",
 "H38": "all non-bool setters clear with `raw ^ (raw & M)`; scalar list setter const renamed and un-negated",
 "H39": "single-range setters insert with the merge idiom `raw ^ ((raw ^ (v << k)) & (M << k))`, `v << k` in a `let`",
 "H40": "multi-range getter as a block with `let raw = self.raw_value`, pieces joined with `+`, single shift per piece",
}
lines = ["| id | rewrite | result of the 19 quick checks |", "|---|---|---|"]
for h in sorted(what, key=lambda x: int(x[1:])):
    log = "/tmp/trial2/trial_%s.log" % h
    if h in ("H24", "H25", "H29", "H30", "H31") and not os.path.exists(log):
        res = "not run through the checks: the expansions of the whole test crate under the patched macro are byte-identical to the unpatched ones (dump comparison), and no check reads the text of an error message"
    elif not os.path.exists(log):
        res = "(not run)"
    else:
        txt = open(log).read()
        done = len(re.findall(r"\] C\d\d: (?:ok|FAIL)", txt))
        v = {}
        for m in re.finditer(r"VIOLATION property=(C\d\d) replay=\S+( no-failing-input-found)?", txt):
            k = "nfi" if m.group(2) else "failing input"
            if v.get(m.group(1)) != "failing input":
                v[m.group(1)] = k
        if done < 19:
            res = "(%d of 19 checks completed) " % done + (", ".join("%s (%s)" % kv for kv in sorted(v.items())) or "silent so far")
        else:
            res = "**silent**" if not v else ", ".join("%s (%s)" % kv for kv in sorted(v.items()))
    lines.append("| %s | %s | %s |" % (h, what[h], res))
harmless = "\n".join(lines)
p = "/verif/DESIGN.md"
s = open(p).read()
def put(s, name, text):
    a, b = "<!-- %s:begin -->" % name, "<!-- %s:end -->" % name
    if a in s:
        i, j = s.index(a), s.index(b)
        return s[:i] + a + "\n" + text + "\n" + s[j:]
    return s.replace(name, a + "\n" + text + "\n" + b, 1)
s = put(s, "SEEDED_TABLE_ROUNDS_8_10", seeded)
s = put(s, "HARMLESS_TABLE", harmless)
open(p, "w").write(s)
print(len(rows), "seeded rows;", sum(1 for l in lines if "silent" in l), "silent harmless")
