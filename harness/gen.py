"""Corpus generator: abstract declarations for `#[bitfield]` / `#[bitenum]`.

Every declaration is a plain dict (JSON-able) that can be rendered to Rust (render.py) and to the
line protocol of the Lean driver (proto.py).  All random choices derive from one `random.Random(seed)`.

Field dict:
  name, ty (Rust type text without the array wrapper), count (None|int), ndocs, attrs [text],
  kind: bool | native | signed | arb | enum | optenum | nested     (how the runner builds values)
  width: number of value bits, custom: name of the custom type (enum / nested bitfield) or None
  access: 'r' | 'w' | 'rw' | ''
  spec: None | {ranges:[(lo,hi)], list:bool, stride:None|int, attr:'bit'|'bits'}   (well-formed fields only)
Bitfield dict:
  kind='bitfield', name, base (ident text), default None|{syntax:'='|':', form:'lit'|'const', value:int},
  debug: bool, docs: bool, fields, classes [..], expect: 'valid' | 'invalid', rule: text, wellformed: bool
Enum dict:
  kind='bitenum', name, bits (path text|None), ident: bool, exh: None|'true'|'false'|'conditional'|other,
  sep: '='|':'|None, order 'be'|'eb', variants [{name, discr: text|None, value:int|None, lit:bool, cfg: None|'on'|'off'}],
  repr: None|'u64'..., classes, expect, rule
"""
import random

NATIVE = [8, 16, 32, 64, 128]
BOUNDARY_BASES = [1, 2, 7, 8, 9, 15, 16, 17, 24, 31, 32, 33, 48, 63, 64, 65, 100, 127, 128]


def storage_of(n):
    for w in NATIVE:
        if n <= w:
            return w
    return 128


def base_ident(n):
    return "u%d" % n


def all_bases(tier):
    if tier == "thorough":
        return list(range(1, 129))
    return BOUNDARY_BASES


class Ctx:
    def __init__(self, seed, tier):
        self.rng = random.Random(seed)
        self.tier = tier
        self.decls = []
        self.counter = 0
        self.enum_cache = {}

    def fresh(self, prefix):
        self.counter += 1
        return "%s%d" % (prefix, self.counter)

    def add(self, d):
        self.decls.append(d)
        return d


# ----------------------------------------------------------------------------------------------
# field constructors
# ----------------------------------------------------------------------------------------------

def ty_for_width(kind, width):
    if kind == "bool":
        return "bool"
    if kind == "native":
        return "u%d" % width
    if kind == "signed":
        return "i%d" % width
    if kind == "arb":
        return "u%d" % width
    raise ValueError(kind)


def int_kind(width):
    return "native" if width in NATIVE else "arb"


def attr_text(ranges, as_list, access, stride=None, stride_sep="=", single_bit_form=True, order="ras"):
    """ranges: [(lo,hi)] inclusive"""
    def one(lo, hi, in_list):
        if lo == hi and (in_list or single_bit_form):
            return "%d" % lo
        return "%d..=%d" % (lo, hi)
    if as_list:
        body = "[" + ", ".join(one(lo, hi, True) for lo, hi in ranges) + "]"
        name = "bits"
    else:
        lo, hi = ranges[0]
        if lo == hi and single_bit_form:
            body = "%d" % lo
            name = "bit"
        else:
            body = "%d..=%d" % (lo, hi)
            name = "bits"
    parts = {"r": body}
    if access:
        parts["a"] = access
    if stride is not None:
        parts["s"] = "stride %s %d" % (stride_sep, stride) if stride_sep == "=" else "stride: %d" % stride
    # `order`: a permutation of r(ange) a(ccess) s(tride)
    return "%s(%s)" % (name, ", ".join(parts[k] for k in order if k in parts))


def mk_field(name, kind, width, ranges, access="rw", count=None, stride=None, as_list=None, custom=None,
             ndocs=0, ty=None, stride_sep="=", single_bit_form=True, order="ras"):
    if as_list is None:
        as_list = len(ranges) > 1
    if ty is None:
        if kind in ("enum", "nested"):
            ty = custom
        elif kind == "optenum":
            ty = "Option<%s>" % custom
        else:
            ty = ty_for_width(kind, width)
    attr = attr_text(ranges, as_list, access, stride, stride_sep, single_bit_form, order)
    name_attr = attr.split("(")[0]
    return {
        "name": name, "ty": ty, "count": count, "ndocs": ndocs, "attrs": [attr],
        "kind": kind, "width": width, "custom": custom, "access": access,
        "spec": {"ranges": [list(r) for r in ranges], "list": as_list, "stride": stride, "attr": name_attr},
    }


def mk_bf(ctx, base, fields, classes, default=None, debug=False, docs=False, expect="valid", rule="",
          wellformed=True, name=None, prefix="D"):
    d = {
        "kind": "bitfield", "name": name or ctx.fresh(prefix), "base": base_ident(base) if isinstance(base, int) else base,
        "default": default, "debug": debug, "docs": docs, "fields": fields, "classes": list(classes),
        "expect": expect, "rule": rule, "wellformed": wellformed,
    }
    if docs:
        for f in fields:
            if f["ndocs"] == 0 and not f.get("docs_after"):
                f["ndocs"] = 1
    return ctx.add(d)


# ----------------------------------------------------------------------------------------------
# enums
# ----------------------------------------------------------------------------------------------

def mk_enum(ctx, bits, discrs, exh, classes, sep="=", ident=True, expect="valid", rule="", order="be",
            cfgs=None, discr_texts=None, name=None, repr_=None, bits_path=None, docs=False):
    variants = []
    for i, dv in enumerate(discrs):
        txt = None
        lit = True
        if discr_texts and discr_texts[i] is not None:
            txt = discr_texts[i]
            lit = txt.replace("_", "").replace("0x", "").isalnum() and txt[0].isdigit()
        elif dv is not None:
            txt = str(dv)
        variants.append({"name": "V%d" % i, "discr": txt, "value": dv, "lit": lit if txt is not None else False,
                         "cfg": (cfgs[i] if cfgs else None)})
    if repr_ is None and any(v["value"] is not None and v["value"] >= 2 ** 31 for v in variants):
        repr_ = "u64"
    d = {
        "kind": "bitenum", "name": name or ctx.fresh("E"), "bits": (bits_path if bits_path is not None else (None if bits is None else "u%d" % bits)),
        "size": bits, "ident": ident, "exh": exh, "sep": sep, "order": order, "variants": variants, "repr": repr_,
        "classes": list(classes), "expect": expect, "rule": rule, "docs": docs,
    }
    return ctx.add(d)


def valid_enum(ctx, bits, exhaustive, classes, count=None, sep="=", conditional=False, docs=False):
    """A valid enum over `bits` bits. exhaustive → all 2^bits values (bits small)."""
    rng = ctx.rng
    if exhaustive:
        discrs = list(range(2 ** bits))
        rng.shuffle(discrs)
        exh = "true"
    else:
        maxc = min(2 ** bits - 1, count if count is not None else 4)
        pool = set([0, 2 ** bits - 1]) if maxc >= 2 else set([2 ** bits - 1] if bits > 0 else [0])
        while len(pool) < maxc:
            pool.add(rng.randrange(2 ** bits))
        discrs = list(pool)[:maxc]
        rng.shuffle(discrs)
        exh = rng.choice(["false", None]) if not conditional else "conditional"
    cfgs = None
    if conditional:
        cfgs = [None] * len(discrs)
        if len(discrs) >= 2:
            cfgs[0] = "on"
            cfgs[-1] = "off"
        exh = "conditional"
    return mk_enum(ctx, bits, discrs, exh, classes, sep=sep, cfgs=cfgs, docs=docs)


def cached_enum(ctx, bits, exhaustive):
    key = (bits, exhaustive)
    if key not in ctx.enum_cache:
        ctx.enum_cache[key] = valid_enum(ctx, bits, exhaustive, ["enums", "custom-types"], count=5)
    return ctx.enum_cache[key]


# ----------------------------------------------------------------------------------------------
# corpus classes
# ----------------------------------------------------------------------------------------------

def positions(N, n):
    """boundary positions for an n-bit field in an N-bit base"""
    if n > N:
        return []
    ps = {0, N - n}
    if N - n >= 2:
        ps.add(1)
        ps.add((N - n) // 2)
    return sorted(ps)


def arb_widths(N, tier):
    cand = [1, 2, 3, 5, 7, 9, 12, 15, 17, 24, 31, 33, 48, 63, 65, 100, 127]
    ws = [w for w in cand if w <= N]
    if N - 1 not in ws and N - 1 >= 1 and (N - 1) not in NATIVE:
        ws.append(N - 1)
    if N not in NATIVE and N not in ws:
        ws.append(N)
    return ws


def chunk(lst, k):
    for i in range(0, len(lst), k):
        yield lst[i:i + k]


def gen_scalar_contiguous(ctx):
    for N in all_bases(ctx.tier):
        fields = []
        # bools
        for p in sorted({0, N // 2, N - 1}):
            fields.append(mk_field("b%d" % p, "bool", 1, [(p, p)]))
        # native widths (incl. full width)
        for n in NATIVE:
            for p in positions(N, n):
                fields.append(mk_field("n%d_%d" % (n, p), "native", n, [(p, p + n - 1)]))
        # arbitrary widths
        for n in arb_widths(N, ctx.tier):
            if n in NATIVE:
                continue
            for p in positions(N, n):
                fields.append(mk_field("a%d_%d" % (n, p), "arb", n, [(p, p + n - 1)], single_bit_form=(ctx.rng.random() < 0.5)))
        for fs in chunk(fields, 10):
            mk_bf(ctx, N, fs, ["scalar-contiguous", "profile"])


def gen_signed(ctx):
    for N in all_bases(ctx.tier):
        fields = []
        for n in NATIVE:
            for p in positions(N, n):
                fields.append(mk_field("s%d_%d" % (n, p), "signed", n, [(p, p + n - 1)]))
            # array of signed
            if 2 * n <= N:
                fields.append(mk_field("sa%d" % n, "signed", n, [(0, n - 1)], count=N // n))
                if 2 * n + 3 <= N:
                    fields.append(mk_field("sb%d" % n, "signed", n, [(1, n)], count=2, stride=n + 2))
            # non-contiguous signed
            if n + 2 <= N:
                h = n // 2
                fields.append(mk_field("sl%d" % n, "signed", n, [(N - h, N - 1), (0, n - h - 1)]))
        for fs in chunk(fields, 8):
            mk_bf(ctx, N, fs, ["signed", "profile"])


def gen_arrays(ctx):
    rng = ctx.rng
    for N in all_bases(ctx.tier):
        if N < 2:
            continue
        fields = []
        # bool arrays
        fields.append(mk_field("ba", "bool", 1, [(0, 0)], count=N))
        if N >= 4:
            fields.append(mk_field("bb", "bool", 1, [(1, 1)], count=2, stride=N - 2))
            fields.append(mk_field("bc", "bool", 1, [(N % 2, N % 2)], count=N // 2, stride=2, stride_sep=":"))
        # integer arrays: default stride, wider stride, max count and count 2
        for n in [1, 2, 3, 4, 7, 8, 9, 16, 17, 32, 33, 64]:
            if 2 * n > N:
                continue
            kind = int_kind(n)
            K = N // n
            fields.append(mk_field("x%d" % n, kind, n, [(0, n - 1)], count=K))
            fields.append(mk_field("y%d" % n, kind, n, [(N - 2 * n, N - n - 1)], count=2))
            if 2 * n + 1 <= N:
                s = n + 1
                K2 = (N - n) // s + 1
                fields.append(mk_field("z%d" % n, kind, n, [(0, n - 1)], count=K2, stride=s))
                lo = N - ((K2 - 1) * s + n)
                fields.append(mk_field("t%d" % n, kind, n, [(lo, lo + n - 1)], count=K2, stride=s))
        for fs in chunk(fields, 8):
            mk_bf(ctx, N, fs, ["arrays", "profile"])


def split_ranges(rng, total, nparts, positions_pool):
    """split `total` bits into nparts lengths"""
    cuts = sorted(rng.sample(range(1, total), nparts - 1)) if nparts > 1 else []
    lens = [b - a for a, b in zip([0] + cuts, cuts + [total])]
    return lens


def place_disjoint(rng, N, lens, order):
    """place ranges of the given lengths disjointly inside N bits; order: 'asc' | 'desc' | 'shuffle'.
    returns ranges in *declaration* order"""
    total = sum(lens)
    slack = N - total
    k = len(lens)
    gaps = [0] * (k + 1)
    for _ in range(slack):
        gaps[rng.randrange(k + 1)] += 1
    # physical order
    phys = list(range(k))
    if order == "desc":
        phys = phys[::-1]
    elif order == "shuffle":
        rng.shuffle(phys)
    pos = 0
    placed = {}
    for slot, idx in enumerate(phys):
        pos += gaps[slot]
        placed[idx] = (pos, pos + lens[idx] - 1)
        pos += lens[idx]
    return [placed[i] for i in range(k)]


def gen_range_lists(ctx):
    rng = ctx.rng
    for N in all_bases(ctx.tier):
        if N < 3:
            continue
        fields = []
        widths = [w for w in [2, 3, 5, 7, 8, 9, 12, 16, 17, 24, 32, 33, 64, 65, 100, 128] if w <= N]
        if N not in widths:
            widths.append(N)
        for n in widths:
            for order in ["asc", "desc", "shuffle"]:
                nparts = min(n, rng.choice([2, 2, 3, 4, 5, 8]))
                if nparts < 2:
                    continue
                lens = split_ranges(rng, n, nparts, None)
                rs = place_disjoint(rng, N, lens, order)
                fields.append(mk_field("l%d%s" % (n, order[0]), int_kind(n), n, rs))
        # bit reversal of the low min(N,8) bits, byte swap
        k = min(N, 8)
        fields.append(mk_field("rev", int_kind(k), k, [(k - 1 - i, k - 1 - i) for i in range(k)]))
        if N >= 16:
            fields.append(mk_field("bswap", "native", 16, [(8, 15), (0, 7)]))
        if N in NATIVE and N >= 16:
            # full-width byte swap (sum of lengths = storage width)
            fields.append(mk_field("fswap", "native", N, [(N - 8 * (i + 1), N - 8 * i - 1) for i in range(N // 8)]))
        # lists of three or more pieces whose first start + total width = last end although the pieces are not simply adjacent
        # in order ("this list is really one range" shortcuts must not be taken: seeded S105)
        if N >= 24:
            o = (N - 24) // 2
            fields.append(mk_field("pm", int_kind(24), 24, [(o, o + 3), (o + 12, o + 19), (o + 4, o + 11), (o + 20, o + 23)]))
            fields.append(mk_field("em", int_kind(12), 12, [(o, o + 3), (o + 16, o + 19), (o + 8, o + 11)]))
            fields.append(mk_field("nb4", int_kind(4), 4, [(o + 4, o + 7)]))
        if N >= 40:
            fields.append(mk_field("pma", int_kind(6), 6, [(0, 1), (4, 5), (2, 3)], count=3, stride=8))
        # single-element list
        fields.append(mk_field("one", int_kind(min(N, 3)), min(N, 3), [(0, min(N, 3) - 1)], as_list=True))
        # lists with a repeated bit (getter statement only; setters are outside the guarantee)
        if N >= 6:
            fields.append(mk_field("rep", "arb", 6, [(0, 3), (2, 3)], access="r"))
            fields.append(mk_field("repw", "arb", 5, [(1, 3), (3, 4)], access="rw"))
            # overlapping pieces that reach the top bit of the base (carry / overflow sensitive)
            fields.append(mk_field("repm", "arb", 6, [(N - 4, N - 1), (N - 2, N - 1)], access="rw"))
            fields.append(mk_field("repl", "arb", 5, [(0, 2), (1, 2)], access="rw"))
        # overlapping lists whose lengths add up to exactly the base width / the storage width ("whole register" shortcuts
        # must not be taken for them: they leave bits uncovered)
        if N >= 6:
            a = (N + 1) // 2 + 1
            fields.append(mk_field("repx", int_kind(N), N, [(0, a - 1), (a - 2, N - 3)], access="rw"))
            fields.append(mk_field("top2", int_kind(2), 2, [(N - 2, N - 1)], access="rw"))
            W = storage_of(N)
            if W != N and W - N <= N and W - N >= 1:
                fields.append(mk_field("repy", "native", W, [(0, N - 1), (0, W - N - 1)], access="rw"))
        # arrays of lists: stride = span, interleaving stride
        if N >= 8:
            fields.append(mk_field("al", "arb", 2, [(0, 0), (2, 2)], count=2, stride=4))
            fields.append(mk_field("il", "arb", 2, [(0, 0), (N // 2, N // 2)], count=N // 2, stride=1))
            fields.append(mk_field("il3", "arb", 3, [(N - 1 - 2 * (N // 4), N - 1 - 2 * (N // 4)), (1, 1), (N // 2, N // 2)], count=2, stride=1, access="r"))
        if N >= 20:
            fields.append(mk_field("an", "native", 8, [(4, 7), (0, 3)], count=2, stride=10))
        for fs in chunk(fields, 8):
            mk_bf(ctx, N, fs, ["range-lists", "profile"])


def gen_custom(ctx):
    rng = ctx.rng
    for N in all_bases(ctx.tier):
        fields = []
        for w in [1, 2, 3, 7, 8, 9, 16, 17, 24, 32, 33, 48, 64]:
            if w > N:
                continue
            exhaustive_opts = [False] + ([True] if w <= 3 else [])
            for exhaustive in exhaustive_opts:
                e = cached_enum(ctx, w, exhaustive)
                kind = "enum" if exhaustive else "optenum"
                for p in positions(N, w)[:2]:
                    fields.append(mk_field("e%d%s_%d" % (w, "x" if exhaustive else "o", p), kind, w, [(p, p + w - 1)], custom=e["name"]))
                if 2 * w <= N:
                    fields.append(mk_field("ea%d%s" % (w, "x" if exhaustive else "o"), kind, w, [(N - 2 * w, N - w - 1)], count=2, custom=e["name"]))
                if w >= 2 and w + 1 <= N:
                    fields.append(mk_field("el%d%s" % (w, "x" if exhaustive else "o"), kind, w, [(N - 1, N - 1), (0, w - 2)], custom=e["name"]))
                # arrays of custom-typed elements with a stride that is neither the width nor a whole number of bytes, three or
                # more elements, starting on and off a byte boundary (seeded S89)
                for (lo, extra) in ((0, 4), (3, 1), (8, 5)):
                    st = w + extra
                    cnt = min(4, (N - lo - w) // st + 1) if N - lo - w >= 0 else 0
                    if cnt >= 3:
                        fields.append(mk_field("es%d%s_%d" % (w, "x" if exhaustive else "o", lo), kind, w, [(lo, lo + w - 1)], count=cnt, stride=st, custom=e["name"]))
        for fs in chunk(fields, 8):
            mk_bf(ctx, N, fs, ["custom-types", "profile"])
    # nested bitfields over native and arbitrary bases
    for inner_n in [8, 5, 16, 12, 32, 64, 72, 100, 128]:
        inner = mk_bf(ctx, inner_n, [mk_field("lo", "arb", 3, [(0, 2)]), mk_field("top", "bool", 1, [(inner_n - 1, inner_n - 1)])],
                      ["custom-types", "nested-inner"], debug=True, prefix="N")
        for N in [b for b in all_bases(ctx.tier) if b >= inner_n][:6]:
            fs = [mk_field("inner", "nested", inner_n, [(N - inner_n, N - 1)], custom=inner["name"])]
            if 2 * inner_n <= N:
                fs.append(mk_field("arr", "nested", inner_n, [(0, inner_n - 1)], count=2, custom=inner["name"]))
            if inner_n >= 2 and inner_n + 1 <= N:
                fs.append(mk_field("spl", "nested", inner_n, [(1, inner_n - 1), (0, 0)], custom=inner["name"]))
            if 3 * (inner_n + 4) <= N:
                fs.append(mk_field("sarr", "nested", inner_n, [(0, inner_n - 1)], count=3, stride=inner_n + 4, custom=inner["name"]))
            mk_bf(ctx, N, fs, ["custom-types", "profile"])


def gen_bases(ctx):
    rng = ctx.rng
    for N in range(1, 129):
        forms = [None, {"syntax": "=", "form": "lit", "value": 0}, {"syntax": "=", "form": "lit", "value": 2 ** N - 1},
                 {"syntax": ":", "form": "lit", "value": rng.randrange(2 ** N)},
                 {"syntax": "=", "form": "const", "value": rng.randrange(2 ** N)},
                 {"syntax": ":", "form": "lit", "value": 2 ** N - 1}, {"syntax": "=", "form": "const", "value": 2 ** N - 1}]
        if ctx.tier != "thorough" and N not in BOUNDARY_BASES:
            forms = [None, forms[rng.randrange(1, 5)]]
        for dflt in forms:
            fs = [mk_field("low", "bool", 1, [(0, 0)])]
            mk_bf(ctx, N, fs, ["bases"], default=dflt)


def gen_enums(ctx):
    rng = ctx.rng
    # valid enums of every size class
    # every size class; whole-byte sizes that are not native integers (24, 40, 48, 56) are their own class
    sizes = list(range(1, 9)) + [9, 15, 16, 17, 24, 31, 32, 33, 40, 48, 56, 63, 64]
    if ctx.tier == "thorough":
        sizes = list(range(1, 65))
    for n in sizes:
        if n <= 6:
            valid_enum(ctx, n, True, ["enums"], sep=rng.choice(["=", ":"]))
        valid_enum(ctx, n, False, ["enums"], count=rng.choice([1, 3, 6]), sep=rng.choice(["=", ":"]))
        if n >= 2:
            valid_enum(ctx, n, False, ["enums"], count=4, conditional=True)
    # exactly one short of exhaustive
    for n in [1, 2, 3, 4]:
        mk_enum(ctx, n, list(range(2 ** n - 1)), "false", ["enums"])
        mk_enum(ctx, n, list(range(1, 2 ** n)), None, ["enums"])
    # conditional with more than 2^N variants (one cfg'd out)
    mk_enum(ctx, 1, [0, 1, 1], "conditional", ["enums"], cfgs=[None, "on", "off"])
    # cfg alternatives sharing one discriminant, the later one being the active one
    mk_enum(ctx, 1, [0, 1, 1], "conditional", ["enums"], cfgs=[None, "off", "on"])
    mk_enum(ctx, 3, [5, 5, 0, 7, 7, 7], "conditional", ["enums"], cfgs=["off", "on", None, "off", "off", "on"])
    mk_enum(ctx, 9, [300, 300, 1], "conditional", ["enums"], cfgs=["off", "on", None], docs=True)
    mk_enum(ctx, 2, [0, 1, 2, 3, 3], "conditional", ["enums"], cfgs=[None, None, None, "on", "off"])
    # exactly 2^N declared variants, but cfg alternatives share a discriminant: a value is left over and must give Err
    mk_enum(ctx, 2, [0, 1, 1, 2], "conditional", ["enums"], cfgs=[None, "on", "off", None])
    mk_enum(ctx, 1, [0, 0], "conditional", ["enums"], cfgs=["on", "off"])
    mk_enum(ctx, 3, [0, 1, 2, 3, 4, 5, 6, 6], "conditional", ["enums"], cfgs=[None, None, None, None, None, None, "off", "on"])
    # hex / underscore literals
    mk_enum(ctx, 8, [16, 255, 1], "false", ["enums"], discr_texts=["0x10", "0xFF", "0b1"])
    # ---------------- invalid stream ----------------
    inv = ["enums-invalid"]
    for n in [1, 2, 3]:
        full = list(range(2 ** n))
        mk_enum(ctx, n, full, "false", inv, expect="invalid", rule="exhaustive=false with all values")
        mk_enum(ctx, n, full, None, inv, expect="invalid", rule="no exhaustive with all values")
        mk_enum(ctx, n, full[:-1], "true", inv, expect="invalid", rule="exhaustive=true but one short")
        mk_enum(ctx, n, full + [0], "false", inv, expect="invalid", rule="more than 2^N variants")
        mk_enum(ctx, n, full + [0], "true", inv, expect="invalid", rule="more than 2^N variants")
        mk_enum(ctx, n, full[:-1] + [2 ** n], "false", inv, expect="invalid", rule="discriminant = 2^N")
        mk_enum(ctx, n, full[:-1] + [2 ** n], "true", inv, expect="invalid", rule="discriminant = 2^N (count = 2^N)")
    # the same claims at every size class, the large ones included (2^N no longer fits 32 / 64 bits: seeded S85)
    for n in [s for s in sizes if s >= 4]:
        sep = ":" if n % 2 else "="
        mk_enum(ctx, n, [0, 1, 2 ** n - 1], "true", inv, expect="invalid", rule="exhaustive=true with three of 2^%d values" % n, sep=sep)
        mk_enum(ctx, n, [0, 2 ** n - 1], "false", ["enums"], sep=sep)
        mk_enum(ctx, n, [2 ** n - 1], None, ["enums"])
        if n < 64:
            mk_enum(ctx, n, [0, 2 ** n], "false", inv, expect="invalid", rule="discriminant = 2^%d" % n)
            mk_enum(ctx, n, [1, 2 ** n + 1], None, inv, expect="invalid", rule="discriminant = 2^%d + 1" % n)
    # cfg-gated variants are variants: their discriminants are bounded like the others, active or not (seeded S103)
    for n in (2, 3, 9):
        mk_enum(ctx, n, [0, 1, 2 ** n], "conditional", inv, expect="invalid", rule="cfg-active variant with discriminant 2^%d" % n, cfgs=[None, None, "on"])
        mk_enum(ctx, n, [0, 2 ** n + 1, 1], "conditional", inv, expect="invalid", rule="cfg-inactive variant with discriminant 2^%d + 1" % n, cfgs=[None, "off", None])
        mk_enum(ctx, n, [0, 1, 2 ** n - 1], "conditional", ["enums"], cfgs=[None, "off", "on"])
    mk_enum(ctx, 3, [0, 1, 7], "false", ["enums"])  # max discriminant 2^N - 1 is fine
    mk_enum(ctx, 3, [0, None, 2], "false", inv, expect="invalid", rule="missing discriminant")
    mk_enum(ctx, 3, [0, 1, 2], "false", inv, expect="invalid", rule="non-literal discriminant", discr_texts=["0", "1 + 1", "4"])
    mk_enum(ctx, 3, [0, 1, 2], "false", inv, expect="invalid", rule="float discriminant", discr_texts=["0", "1.5", "4"])
    mk_enum(ctx, 3, [0, 1, 2], "false", inv, expect="invalid", rule="string discriminant", discr_texts=["0", '"one"', "4"])
    mk_enum(ctx, 2, [0, 1], "false", inv, expect="invalid", rule="cfg variant without conditional", cfgs=[None, "on"])
    mk_enum(ctx, 2, [0, 1], None, inv, expect="invalid", rule="cfg variant without conditional", cfgs=["off", None])
    mk_enum(ctx, 2, [0, 1, 2, 3], "true", inv, expect="invalid", rule="cfg variant with exhaustive=true", cfgs=[None, None, None, "on"])
    # a documented cfg-gated variant (the doc attribute comes before the cfg attribute)
    mk_enum(ctx, 1, [0, 1], "true", inv, expect="invalid", rule="documented cfg variant with exhaustive=true", cfgs=[None, "off"], docs=True)
    mk_enum(ctx, 2, [0, 1, 2, 3], "true", inv, expect="invalid", rule="documented cfg variant with exhaustive=true", cfgs=["on", None, None, "off"], docs=True)
    mk_enum(ctx, 2, [0, 1], "false", inv, expect="invalid", rule="documented cfg variant with exhaustive=false", cfgs=[None, "off"], docs=True)
    mk_enum(ctx, 0, [0], "true", inv, expect="invalid", rule="size 0")
    mk_enum(ctx, 65, [0, 1], "false", inv, expect="invalid", rule="size 65")
    mk_enum(ctx, 128, [0, 1], "false", inv, expect="invalid", rule="size 128")
    mk_enum(ctx, None, [0, 1], "false", inv, expect="invalid", rule="missing storage type")
    mk_enum(ctx, 2, [0, 1], "maybe", inv, expect="invalid", rule="invalid exhaustive value")
    mk_enum(ctx, 2, [0, 1], "false", inv, expect="invalid", rule="exhaustive without = or :", sep=None)
    mk_enum(ctx, 2, [0, 1], "false", inv, expect="invalid", rule="storage not uN", bits_path="i2")
    mk_enum(ctx, 2, [0, 5], "false", inv, expect="invalid", rule="discriminant too large")
    mk_enum(ctx, 64, [0, 1], "false", ["enums"])


def gen_multi(ctx):
    """whole structs with several fields, overlapping and non-overlapping (histories, C12)"""
    rng = ctx.rng
    reps = 3 if ctx.tier == "thorough" else 1
    for N in all_bases(ctx.tier):
        if N < 4:
            continue
        for rep in range(reps):
            fields = []
            nf = rng.randrange(3, 9)
            for i in range(nf):
                choice = rng.random()
                if choice < 0.2:
                    p = rng.randrange(N)
                    fields.append(mk_field("f%d" % i, "bool", 1, [(p, p)]))
                elif choice < 0.55:
                    n = rng.choice([w for w in [1, 2, 3, 4, 5, 7, 8, 9, 12, 16, 24, 32, 33, 64] if w <= N])
                    p = rng.randrange(N - n + 1)
                    kind = int_kind(n)
                    if kind == "native" and rng.random() < 0.4:
                        kind = "signed"
                    fields.append(mk_field("f%d" % i, kind, n, [(p, p + n - 1)]))
                elif choice < 0.75:
                    n = rng.choice([w for w in [1, 2, 3, 4, 8] if 2 * w <= N])
                    K = rng.randrange(2, N // n + 1)
                    smax = (N - n) // (K - 1)
                    s = rng.randrange(n, smax + 1)
                    lo = rng.randrange(N - ((K - 1) * s + n) + 1)
                    fields.append(mk_field("f%d" % i, int_kind(n) if n > 1 or rng.random() < 0.5 else "bool", n, [(lo, lo + n - 1)], count=K, stride=(s if s != n or rng.random() < 0.5 else None)))
                else:
                    n = rng.choice([w for w in [2, 3, 5, 8, 9, 16] if w <= N])
                    nparts = min(n, rng.choice([2, 3, 4]))
                    lens = split_ranges(rng, n, nparts, None)
                    rs = place_disjoint(rng, N, lens, rng.choice(["asc", "desc", "shuffle"]))
                    fields.append(mk_field("f%d" % i, int_kind(n), n, rs))
            mk_bf(ctx, N, fields, ["multi", "profile"])


def gen_mixed(ctx):
    """every ordered pair of field kinds adjacent in some struct (state carried over from one field to the next inside the
    generator loop would show as a difference in the second field's accessors)"""
    rng = ctx.rng
    e2 = cached_enum(ctx, 2, True)
    e9 = cached_enum(ctx, 9, False)
    inner = mk_bf(ctx, 12, [mk_field("lo", "arb", 3, [(0, 2)]), mk_field("top", "bool", 1, [(11, 11)])],
                  ["custom-types", "nested-inner"], debug=True, prefix="N")
    makers = {
        "bool": lambda nm, p: mk_field(nm, "bool", 1, [(p, p)]),
        "u8": lambda nm, p: mk_field(nm, "native", 8, [(p, p + 7)]),
        "u16": lambda nm, p: mk_field(nm, "native", 16, [(p, p + 15)]),
        "u32": lambda nm, p: mk_field(nm, "native", 32, [(p, p + 31)]),
        "u64": lambda nm, p: mk_field(nm, "native", 64, [(p, p + 63)]),
        "i8": lambda nm, p: mk_field(nm, "signed", 8, [(p, p + 7)]),
        "i16": lambda nm, p: mk_field(nm, "signed", 16, [(p, p + 15)]),
        "i32": lambda nm, p: mk_field(nm, "signed", 32, [(p, p + 31)]),
        "i64": lambda nm, p: mk_field(nm, "signed", 64, [(p, p + 63)]),
        "a3": lambda nm, p: mk_field(nm, "arb", 3, [(p, p + 2)]),
        "a12": lambda nm, p: mk_field(nm, "arb", 12, [(p, p + 11)]),
        "a33": lambda nm, p: mk_field(nm, "arb", 33, [(p, p + 32)]),
        "xu4": lambda nm, p: mk_field(nm, "arb", 4, [(p, p + 3)], count=3),
        "xi8": lambda nm, p: mk_field(nm, "signed", 8, [(p, p + 7)], count=2, stride=9),
        "lu8": lambda nm, p: mk_field(nm, "native", 8, [(p, p + 2), (p + 10, p + 14)]),
        "la5": lambda nm, p: mk_field(nm, "arb", 5, [(p + 6, p + 7), (p, p + 2)]),
        "li16": lambda nm, p: mk_field(nm, "signed", 16, [(p, p + 7), (p + 20, p + 27)]),
        "en": lambda nm, p: mk_field(nm, "enum", 2, [(p, p + 1)], custom=e2["name"]),
        "oe": lambda nm, p: mk_field(nm, "optenum", 9, [(p, p + 8)], custom=e9["name"]),
        "ne": lambda nm, p: mk_field(nm, "nested", 12, [(p, p + 11)], custom=inner["name"]),
    }
    kinds = list(makers)
    todo = [(a, b) for a in kinds for b in kinds]
    rng.shuffle(todo)
    todo_set = set(todo)
    chains = []
    while todo_set:
        a, b = next(x for x in todo if x in todo_set)
        chain = [a, b]
        todo_set.discard((a, b))
        while len(chain) < 9:
            cur = chain[-1]
            nxt = next((y for (x, y) in todo if x == cur and (x, y) in todo_set), None)
            if nxt is None:
                break
            chain.append(nxt)
            todo_set.discard((cur, nxt))
        chains.append(chain)
    idx = 0
    for ci, chain in enumerate(chains):
        N = 128 if ci % 2 == 0 else 100
        fields = []
        for k in chain:
            p = (5 * idx + 3 * ci) % (N - 64 + 1)
            fields.append(makers[k]("m%d_%s" % (len(fields), k), p))
            idx += 1
        mk_bf(ctx, N, fields, ["mixed", "multi", "profile"])


def gen_args(ctx):
    """the argument list of #[bitfield(…)]: separators, literal forms, unknown and repeated arguments, leftovers"""
    def fields():
        return [mk_field("low", "bool", 1, [(0, 0)]), mk_field("x", "native", 8, [(8, 15)])]

    def valid(base, text, default=None, debug=False, extra_consts=None):
        d = mk_bf(ctx, base, fields(), ["args", "bases"], default=default, debug=debug)
        d["args_text"] = text.replace("@C", "C_%s" % d["name"].upper())
        if extra_consts:
            d["extra_consts"] = extra_consts
        return d

    def invalid(base, text, rule, item="struct"):
        d = mk_bf(ctx, base, fields(), ["args", "args-invalid"], expect="invalid", rule=rule, wellformed=False)
        d["args_text"] = text
        d["item"] = item
        return d

    lit = lambda v: {"syntax": "=", "form": "lit", "value": v}
    valid(32, "u32, frobnicate")
    valid(32, "u32, some::path")
    valid(32, "u32, debug,", debug=True)
    valid(32, "u32, debug, debug", debug=True)
    valid(32, "u32, default = 3, default: 7", default=lit(7))
    valid(32, "u32, debug, default = 1", default=lit(1), debug=True)
    valid(32, "u32, default = 0xDEAD_BEEF", default=lit(0xDEADBEEF))
    valid(16, "u16, default = 0b1010_0101", default=lit(0xA5))
    valid(16, "u16, default: 0o17", default=lit(15))
    valid(32, "u32, default = 7u32", default=lit(7))
    valid(24, "u24, default = 0xAB_CDEF", default=lit(0xABCDEF))
    valid(100, "u100, default = 0xF_FFFF_FFFF_FFFF_FFFF_FFFF_FFFF", default=lit(2 ** 100 - 1))
    valid(128, "u128, default: 340282366920938463463374607431768211455", default=lit(2 ** 128 - 1))
    # a literal that is not an integer is swallowed by the failed attempt to read one: no default is declared
    valid(32, 'u32, default = "seven"')
    valid(32, "u32, default = 1.5")
    valid(32, "u32, default = true, debug", debug=True)
    # … and an identifier right behind it is then taken as the default
    valid(32, 'u32, default = "x" @C', default={"syntax": "=", "form": "const", "value": 0x1234})
    valid(64, "u64, default = @C, unknown_flag", default={"syntax": "=", "form": "const", "value": 2 ** 63 + 5})
    # a user constant whose name collides with a generated item (associated constants live in the impl, not the module)
    d = mk_bf(ctx, 24, fields(), ["args", "bases"], default={"syntax": "=", "form": "lit", "value": 0xC0FFEE})
    d["args_text"] = "u24, default = DEFAULT_RAW_VALUE"
    d["default"] = {"syntax": "=", "form": "const", "value": 0xC0FFEE, "const_name": "DEFAULT_RAW_VALUE"}
    d = mk_bf(ctx, 16, fields(), ["args", "bases"], default={"syntax": ":", "form": "lit", "value": 0xBEEF})
    d["args_text"] = "u16, default: ZERO"
    d["default"] = {"syntax": ":", "form": "const", "value": 0xBEEF, "const_name": "ZERO"}
    invalid(32, "", "no arguments")
    invalid(32, None, "no argument list")
    invalid(32, "u32 = 5", "tokens after the base type")
    invalid(32, "core::u32", "base type is not a single identifier")
    invalid(32, "u32, default 5", "default without separator")
    invalid(32, "u32, default", "default without separator")
    invalid(32, "u32, default = -1", "negative default")
    invalid(32, "u32, default = -0", "negative default")
    invalid(32, "u32, debug = true", "tokens after debug")
    invalid(32, "u32, default = 5 6", "tokens after the default")
    invalid(32, "u32, default = (5)", "default is neither literal nor identifier")
    invalid(32, "u32, default = NO_SUCH_CONSTANT", "unresolved constant")
    invalid(32, "default = 5, u32", "base type is not first")
    invalid(32, "debug", "base type missing")
    invalid(32, "u32,, debug", "empty argument")
    invalid(32, "u32, frobnicate = 1", "tokens after an unknown argument")
    invalid(32, "u32, default = 0x1_0000_0000", "default does not fit the base")
    invalid(24, "u24, default = 0x100_0000", "default does not fit the base")
    invalid(32, "u32", "not a struct", item="enum")
    invalid(32, "u32, debug", "not a struct", item="union")


def cover_fields(ctx, N, prefix="c"):
    """writable fields that exactly tile N bits"""
    rng = ctx.rng
    fields = []
    pos = 0
    i = 0
    while pos < N:
        remaining = N - pos
        opts = [w for w in [1, 1, 2, 3, 4, 5, 8, 8, 16, 32] if w <= remaining]
        n = rng.choice(opts)
        if n == 1 and rng.random() < 0.6:
            fields.append(mk_field("%s%d" % (prefix, i), "bool", 1, [(pos, pos)]))
        else:
            kind = int_kind(n)
            if kind == "native" and rng.random() < 0.3:
                kind = "signed"
            # sometimes an array
            if remaining >= 2 * n and rng.random() < 0.3:
                K = rng.randrange(2, min(4, remaining // n) + 1)
                fields.append(mk_field("%s%d" % (prefix, i), kind, n, [(pos, pos + n - 1)], count=K))
                pos += K * n
                i += 1
                continue
            fields.append(mk_field("%s%d" % (prefix, i), kind, n, [(pos, pos + n - 1)]))
        pos += n
        i += 1
    return fields


def gen_builder(ctx):
    rng = ctx.rng
    bases = all_bases(ctx.tier)
    for N in bases:
        # complete, no default
        mk_bf(ctx, N, cover_fields(ctx, N), ["builder", "builder-complete"])
        # complete with default
        mk_bf(ctx, N, cover_fields(ctx, N), ["builder"], default={"syntax": "=", "form": "lit", "value": rng.randrange(2 ** N)})
        if N >= 2:
            # one bit short: without default no builder, with default builder
            fs = cover_fields(ctx, N - 1)
            mk_bf(ctx, N, fs, ["builder", "builder-incomplete"])
            fs = cover_fields(ctx, N - 1)
            mk_bf(ctx, N, fs, ["builder"], default={"syntax": ":", "form": "lit", "value": rng.randrange(2 ** N)})
            # read-only field covering part: writable fields do not cover everything
            fs = cover_fields(ctx, N - 1)
            fs.append(mk_field("ro", "bool", 1, [(N - 1, N - 1)], access="r"))
            mk_bf(ctx, N, fs, ["builder", "builder-incomplete"])
            mk_bf(ctx, N, [dict(f) for f in fs], ["builder"], default={"syntax": "=", "form": "const", "value": rng.randrange(2 ** N)})
        if N >= 4:
            # two writable fields sharing one bit / adjacent
            a = mk_field("a", int_kind(2), 2, [(0, 1)])
            b = mk_field("b", int_kind(2), 2, [(1, 2)])
            mk_bf(ctx, N, [a, b], ["builder", "builder-overlap"], default={"syntax": "=", "form": "lit", "value": 0})
            a = mk_field("a", int_kind(2), 2, [(0, 1)])
            b = mk_field("b", int_kind(2), 2, [(2, 3)])
            mk_bf(ctx, N, [a, b], ["builder"], default={"syntax": "=", "form": "lit", "value": 1})
            # self-overlapping list (D2), scalar
            so = mk_field("so", "arb", 4, [(0, 1), (1, 2)])
            mk_bf(ctx, N, [so], ["builder", "builder-overlap", "self-overlap"], default={"syntax": "=", "form": "lit", "value": 0})
            # array whose elements overlap through a small stride (list with stride 1)
            ao = mk_field("ao", "arb", 2, [(0, 0), (1, 1)], count=2, stride=1)
            mk_bf(ctx, N, [ao], ["builder", "builder-overlap", "self-overlap"], default={"syntax": "=", "form": "lit", "value": 0})
            # interleaved array elements that do not overlap
            il = mk_field("il", "arb", 2, [(0, 0), (2, 2)], count=2, stride=1)
            mk_bf(ctx, N, [il], ["builder"], default={"syntax": "=", "form": "lit", "value": 2 ** N - 1})
            # writable field overlapping a read-only one is fine
            a = mk_field("a", int_kind(3), 3, [(0, 2)], access="w")
            r = mk_field("r", int_kind(2), 2, [(1, 2)], access="r")
            mk_bf(ctx, N, [a, r], ["builder"], default={"syntax": "=", "form": "lit", "value": 0})
    # long arrays through the builder (more than 8 elements)
    for N in [b for b in bases if b >= 9]:
        mk_bf(ctx, N, [mk_field("ba", "bool", 1, [(0, 0)], count=N)], ["builder", "builder-complete"])
        if N >= 40:
            mk_bf(ctx, N, [mk_field("na", "arb", 4, [(0, 3)], count=N // 4), mk_field("top", "bool", 1, [(N - 1, N - 1)], access="r")],
                  ["builder"], default={"syntax": "=", "form": "lit", "value": 2 ** N - 1})
    # list arrays whose stride is at least the element width but whose element span exceeds the stride
    for N in [b for b in bases if b >= 16]:
        so = mk_field("sp", "arb", 4, [(0, 1), (4, 5)], count=2, stride=4)
        mk_bf(ctx, N, [so], ["builder", "builder-overlap", "self-overlap"], default={"syntax": "=", "form": "lit", "value": 0})
        ok = mk_field("sq", "arb", 4, [(0, 1), (8, 9)], count=2, stride=4)
        mk_bf(ctx, N, [ok], ["builder"], default={"syntax": "=", "form": "lit", "value": 0})
    # list arrays in which element i collides only with element i+d, d >= 2 (never with its neighbour): the overlap decision
    # has to compare every pair of elements, not only adjacent ones (seeded S80)
    some = [b for b in bases if b >= 20] if ctx.tier == "thorough" else [b for b in bases if b in (24, 32, 33, 64, 100, 128)]
    for N in some:
        for (d, s) in ((2, 4), (3, 3), (2, 1)):
            hi = d * s
            if hi + d * s >= N:
                continue
            rs = [(0, 0), (hi, hi)]
            far = mk_field("fr", "arb", 2, list(rs), count=d + 1, stride=s)
            mk_bf(ctx, N, [far], ["builder", "builder-overlap", "self-overlap", "far-overlap"], default={"syntax": "=", "form": "lit", "value": 0})
            near = mk_field("nr", "arb", 2, list(rs), count=d, stride=s)
            mk_bf(ctx, N, [near], ["builder", "far-overlap"], default={"syntax": "=", "form": "lit", "value": 1})
        il3 = mk_field("il", "arb", 4, [(0, 0), (2, 2), (4, 4), (6, 6)], count=3, stride=1)
        mk_bf(ctx, N, [il3], ["builder", "builder-overlap", "self-overlap", "far-overlap"], default={"syntax": "=", "form": "lit", "value": 0})
        # random list arrays (any stride / count that fits): the expectation comes from the set-level condition
        for _ in range(2):
            k = rng.randrange(2, 4)
            bits = sorted(rng.sample(range(0, min(N, 24) // 2), k))
            s = rng.randrange(1, 6)
            cnt = rng.randrange(2, 6)
            if bits[-1] + (cnt - 1) * s >= N:
                continue
            ra = mk_field("ra", "arb", k, [(b, b) for b in bits], count=cnt, stride=s)
            mk_bf(ctx, N, [ra], ["builder", "far-overlap"], default={"syntax": "=", "form": "lit", "value": 0})
    # fields that are NOT writable never matter for the builder decision: a read-only / unspecified list naming a bit twice,
    # a read-only list array whose elements collide (seeded S102)
    for N in ([b for b in bases if b >= 16] if ctx.tier == "thorough" else [b for b in bases if b in (16, 24, 64, 127, 128)]):
        for acc in ("r", ""):
            cmd = mk_field("cmd", int_kind(4), 4, [(0, 3)], access="w")
            view = mk_field("view", "arb", 6, [(8, 11), (11, 11), (11, 11)], access=acc)
            mk_bf(ctx, N, [cmd, view], ["builder", "builder-nonwritable"], default={"syntax": "=", "form": "lit", "value": 0x5A0})
        cmd = mk_field("cmd", int_kind(4), 4, [(0, 3)], access="rw")
        win = mk_field("win", "arb", 2, [(8, 8), (10, 10)], access="r", count=4, stride=1)
        mk_bf(ctx, N, [cmd, win], ["builder", "builder-nonwritable"], default={"syntax": "=", "form": "lit", "value": 0xF00})
    # a field as wide as a 128-bit base declared after / before another writable field (the 1 << 128 special case: seeded S100)
    if 128 in bases:
        for first in (True, False):
            low = mk_field("low", "native", 8, [(0, 7)])
            allf = mk_field("all", "native", 128, [(0, 127)])
            mk_bf(ctx, 128, [low, allf] if first else [allf, low], ["builder", "builder-overlap"], default={"syntax": "=", "form": "lit", "value": 0})
        mk_bf(ctx, 128, [mk_field("flag", "bool", 1, [(127, 127)], access="w"), mk_field("all", "native", 128, [(0, 127)])], ["builder", "builder-overlap"])
        mk_bf(ctx, 128, [mk_field("ro", "native", 8, [(0, 7)], access="r"), mk_field("all", "signed", 128, [(0, 127)])], ["builder", "builder-complete"])
        # a 128-bit base whose default has bits under a gap and under a read-only field (builder start value: seeded S101)
        mk_bf(ctx, 128, [mk_field("b", "native", 8, [(0, 7)]), mk_field("arr", "arb", 4, [(16, 19)], count=4, stride=8),
                         mk_field("w32", "native", 32, [(64, 95)]), mk_field("ready", "bool", 1, [(127, 127)], access="r")],
              ["builder"], default={"syntax": "=", "form": "lit", "value": 0x8000_0000_0000_000F_0000_0000_0000_0100})
    # declared (read-only) fields cover the base but the default's bits under them must survive
    for N in [b for b in bases if b >= 8]:
        fs = [mk_field("lvl", int_kind(N // 2), N // 2, [(0, N // 2 - 1)]), mk_field("rev", int_kind(N - N // 2), N - N // 2, [(N // 2, N - 1)], access="r")]
        mk_bf(ctx, N, fs, ["builder"], default={"syntax": "=", "form": "lit", "value": (2 ** N - 1) ^ 0x5})
    # arrays with gaps between the elements (stride > width) whose count × stride is exactly the base width: the default's
    # bits in the gaps must survive; with and without a second field, scalar bool included
    for N in [b for b in bases if b >= 8 and b % 8 == 0]:
        ga = mk_field("ga", "arb", 4, [(0, 3)], count=N // 8, stride=8) if N >= 16 else mk_field("ga", "arb", 2, [(0, 1)], count=2, stride=4)
        mk_bf(ctx, N, [ga], ["builder"], default={"syntax": "=", "form": "lit", "value": (2 ** N - 1) ^ 0x3})
    for N in [b for b in bases if b >= 12]:
        gb = mk_field("gb", "arb", 3, [(1, 3)], count=2, stride=(N - 2) // 2)
        fl = mk_field("fl", "bool", 1, [(0, 0)])
        mk_bf(ctx, N, [fl, gb], ["builder"], default={"syntax": ":", "form": "lit", "value": 2 ** N - 1})
    # a writable array overlapping a field declared before it / after it (declaration order must not matter)
    for N in [b for b in bases if b >= 8]:
        sc = mk_field("sc", int_kind(3), 3, [(2, 4)])
        ar = mk_field("ar", "arb", 2, [(0, 1)], count=3)
        mk_bf(ctx, N, [sc, ar], ["builder", "builder-overlap"], default={"syntax": "=", "form": "lit", "value": 0})
        sc = mk_field("sc", int_kind(3), 3, [(2, 4)])
        ar = mk_field("ar", "arb", 2, [(0, 1)], count=3)
        mk_bf(ctx, N, [ar, sc], ["builder", "builder-overlap"], default={"syntax": "=", "form": "lit", "value": 0})
        # … and a bool in the middle of a chain
        mk_bf(ctx, N, [mk_field("a", int_kind(2), 2, [(0, 1)]), mk_field("b", "bool", 1, [(2, 2)]), mk_field("c", int_kind(2), 2, [(3, 4)])],
              ["builder"], default={"syntax": "=", "form": "lit", "value": 1 << (N - 1)})
    # u128 base with a single 128-bit field
    mk_bf(ctx, 128, [mk_field("all", "native", 128, [(0, 127)])], ["builder", "builder-complete"])
    mk_bf(ctx, 128, [mk_field("all", "signed", 128, [(0, 127)])], ["builder", "builder-complete"])
    # enum fields in builders
    e = cached_enum(ctx, 2, True)
    mk_bf(ctx, 8, [mk_field("e", "enum", 2, [(0, 1)], custom=e["name"]), mk_field("rest", "arb", 6, [(2, 7)])], ["builder", "builder-complete"])
    e2 = cached_enum(ctx, 3, False)
    mk_bf(ctx, 16, [mk_field("e", "optenum", 3, [(4, 6)], custom=e2["name"]), mk_field("arr", "arb", 2, [(8, 9)], count=3)], ["builder"],
          default={"syntax": "=", "form": "lit", "value": 0x1234})


def gen_access(ctx):
    rng = ctx.rng
    for N in [8, 9, 32, 63, 128] if ctx.tier != "thorough" else all_bases(ctx.tier):
        if N < 8:
            continue
        fields = []
        i = 0
        e = cached_enum(ctx, 2, True)
        for access in ["r", "w", "rw", ""]:
            fields.append(mk_field("b_%s" % (access or "n"), "bool", 1, [(i, i)], access=access)); i += 1
        for access in ["r", "w", "rw", ""]:
            fields.append(mk_field("u_%s" % (access or "n"), "arb", 2, [(0, 1)], access=access))
            fields.append(mk_field("n_%s" % (access or "n"), "native", 8, [(0, 7)], access=access))
            fields.append(mk_field("a_%s" % (access or "n"), "arb", 2, [(0, 1)], count=2, access=access))
            fields.append(mk_field("l_%s" % (access or "n"), "arb", 2, [(7, 7), (0, 0)], access=access))
            fields.append(mk_field("s_%s" % (access or "n"), "arb", 2, [(0, 1)], count=2, stride=3, access=access))
            fields.append(mk_field("ls_%s" % (access or "n"), "arb", 2, [(0, 0), (2, 2)], count=2, stride=4, access=access))
            fields.append(mk_field("e_%s" % (access or "n"), "enum", 2, [(2, 3)], custom=e["name"], access=access))
        mk_bf(ctx, N, fields, ["access"])
        # with a builder: only writable fields get steps
        fs = [mk_field("ro", "bool", 1, [(0, 0)], access="r"), mk_field("wo", "bool", 1, [(1, 1)], access="w"),
              mk_field("rw", "arb", 2, [(2, 3)], access="rw"), mk_field("no", "bool", 1, [(4, 4)], access="")]
        mk_bf(ctx, N, fs, ["access", "builder"], default={"syntax": "=", "form": "lit", "value": 0})
    # reserved identifiers (r#) and doc comments
    fs = [mk_field("r#type", "bool", 1, [(0, 0)]), mk_field("r#fn", "arb", 3, [(1, 3)], access="w")]
    mk_bf(ctx, 8, fs, ["access"])


def gen_debug(ctx):
    rng = ctx.rng
    e_x = cached_enum(ctx, 2, True)
    e_o = cached_enum(ctx, 3, False)
    inner = mk_bf(ctx, 8, [mk_field("lo", "arb", 3, [(0, 2)]), mk_field("flag", "bool", 1, [(7, 7)]),
                           mk_field("e", "optenum", 3, [(3, 5)], custom=e_o["name"])],
                  ["debug", "nested-inner"], debug=True, prefix="N")
    for N in [16, 24, 32, 64, 100, 128] if ctx.tier != "thorough" else [b for b in all_bases(ctx.tier) if b >= 16]:
        fs = [mk_field("flag", "bool", 1, [(0, 0)], access="r"),
              mk_field("small", "arb", 3, [(1, 3)]),
              mk_field("byte", "native", 8, [(4, 11)]),
              mk_field("sbyte", "signed", 8, [(N - 8, N - 1)]),
              mk_field("en", "enum", 2, [(2, 3)], custom=e_x["name"]),
              mk_field("opt", "optenum", 3, [(5, 7)], custom=e_o["name"]),
              mk_field("inner", "nested", 8, [(8, 15)], custom=inner["name"]),
              mk_field("split", "arb", 4, [(N - 2, N - 1), (0, 1)]),
              mk_field("_rsv", "arb", 2, [(12, 13)], access="r"),
              mk_field("r#type", "bool", 1, [(14, 14)])]
        mk_bf(ctx, N, fs, ["debug"], debug=True)
    mk_bf(ctx, 8, [], ["debug"], debug=True)   # no fields
    mk_bf(ctx, 8, [mk_field("only", "native", 8, [(0, 7)])], ["debug"], debug=True)
    # must not compile with debug
    mk_bf(ctx, 8, [mk_field("arr", "arb", 2, [(0, 1)], count=2)], ["debug-invalid"], debug=True, expect="invalid", rule="debug with array field")
    mk_bf(ctx, 8, [mk_field("wo", "bool", 1, [(0, 0)], access="w")], ["debug-invalid"], debug=True, expect="invalid", rule="debug with write-only field")
    mk_bf(ctx, 8, [mk_field("no", "bool", 1, [(0, 0)], access="")], ["debug-invalid"], debug=True, expect="invalid", rule="debug with inaccessible field")


def gen_docs(ctx):
    """documented declarations for the #![no_std] #![deny(missing_docs)] crate"""
    rng = ctx.rng
    e_x = mk_enum(ctx, 2, [0, 1, 2, 3], "true", ["docs"], docs=True)
    e_o = mk_enum(ctx, 5, [0, 7, 31], "false", ["docs"], docs=True)
    e_c = mk_enum(ctx, 8, [0, 1, 200], "conditional", ["docs"], cfgs=[None, "on", "off"], docs=True)
    for N, dflt, dbg in [(8, None, False), (12, {"syntax": "=", "form": "lit", "value": 5}, True), (32, None, True),
                         (64, {"syntax": ":", "form": "lit", "value": 0}, False), (100, None, False), (128, {"syntax": "=", "form": "lit", "value": 1}, True)]:
        fs = [mk_field("flag", "bool", 1, [(0, 0)], ndocs=1),
              mk_field("small", "arb", 3, [(1, 3)], ndocs=2),
              mk_field("en", "enum", 2, [(4, 5)], custom=e_x["name"], ndocs=1),
              mk_field("opt", "optenum", 5, [(3, 7)], custom=e_o["name"], ndocs=1)]
        if not dbg:
            fs.append(mk_field("arr", "arb", 2, [(0, 1)], count=N // 2, ndocs=1))
            fs.append(mk_field("wo", "bool", 1, [(N - 1, N - 1)], access="w", ndocs=1))
        if N >= 16:
            fs.append(mk_field("byte", "signed", 8, [(N - 8, N - 1)], ndocs=1))
            fs.append(mk_field("split", "native", 8, [(N - 4, N - 1), (0, 3)], ndocs=1))
        # the doc comment written *after* the bit attribute (as `#[doc = …]`), and on both sides of it
        after = mk_field("after", "arb", 2, [(1, 2)])
        after["attrs"].append('doc = "documented after the attribute"')
        after["docs_after"] = 1
        fs.append(after)
        both = mk_field("both", "bool", 1, [(2, 2)], ndocs=1)
        both["attrs"].append('doc = "second half of the documentation"')
        both["docs_after"] = 1
        fs.append(both)
        if not dbg:
            aa = mk_field("arr_after", "arb", 2, [(0, 1)], count=2)
            aa["attrs"].append('doc = "array documented after the attribute"')
            aa["docs_after"] = 1
            fs.append(aa)
        mk_bf(ctx, N, fs, ["docs"], default=dflt, debug=dbg, docs=True)
    # complete → builder without default
    mk_bf(ctx, 8, [mk_field("lo", "arb", 4, [(0, 3)], ndocs=1), mk_field("hi", "arb", 4, [(4, 7)], ndocs=1)], ["docs", "builder", "builder-complete"], docs=True)
    mk_bf(ctx, 9, [mk_field("lo", "arb", 4, [(0, 3)], ndocs=1), mk_field("hi", "arb", 5, [(4, 8)], ndocs=1)], ["docs", "builder", "builder-complete"], docs=True)


# ---------------------------------------------------------------------------------------------
# invalid stream for C09
# ---------------------------------------------------------------------------------------------

def gen_invalid(ctx):
    rng = ctx.rng
    inv = ["invalid"]

    def bad(N, f, rule, wellformed=True, **kw):
        mk_bf(ctx, N, [f], inv, expect="invalid", rule=rule, wellformed=wellformed, **kw)

    def good(N, f, rule):
        mk_bf(ctx, N, [f], ["valid-boundary"], rule=rule)

    bases = [8, 9, 16, 24, 32, 33, 63, 64, 100, 127, 128] if ctx.tier != "thorough" else list(range(2, 129))
    for N in bases:
        W = storage_of(N)
        # bit index = N-1 (ok) and N (bad); arbitrary base: a field in the storage padding
        good(N, mk_field("top", "bool", 1, [(N - 1, N - 1)]), "bit N-1")
        bad(N, mk_field("over", "bool", 1, [(N, N)]), "bit index = N")
        if W != N:
            bad(N, mk_field("pad", "bool", 1, [(W - 1, W - 1)]), "bit in the storage padding")
            n = 2
            bad(N, mk_field("padr", "arb", n, [(N - 1, N)]), "range reaching into the storage padding")
            bad(N, mk_field("pada", "bool", 1, [(0, 0)], count=N + 1), "array reaching into the storage padding")
            if N >= 3:
                bad(N, mk_field("padl", "arb", 2, [(0, 0), (N, N)]), "list reaching into the storage padding")
        bad(N, mk_field("far", "bool", 1, [(W + 8, W + 8)]), "bit beyond the storage")
        # width +-1
        for n in [w for w in [3, 8, 16] if w + 1 <= N]:
            kind = int_kind(n)
            bad(N, mk_field("wide", kind, n, [(0, n)]), "type narrower than range")
            if n >= 2:
                bad(N, mk_field("narrow", kind, n, [(0, n - 2)]), "type wider than range")
            # the same with a write-only / read-only field: rustc's type check of the generated getter must not be what
            # rejects a wrong width (a setter alone type-checks: seeded S104)
            for acc in ("w", "r"):
                bad(N, mk_field("wide" + acc, kind, n, [(0, n)], access=acc), "type narrower than range (%s)" % acc)
                if n >= 2:
                    bad(N, mk_field("narrow" + acc, kind, n, [(0, n - 2)], access=acc), "type wider than range (%s)" % acc)
        if N >= 16:
            bad(N, mk_field("aw", "arb", 12, [(0, 7)], access="w"), "u12 over eight bits, write-only")
            bad(N, mk_field("al", "arb", 5, [(0, 1), (4, 4)], access="w"), "u5 over a three-bit list, write-only")
            bad(N, mk_field("aa", "arb", 3, [(0, 1)], access="w", count=2, stride=4), "[u3; 2] over two-bit elements, write-only")
        # bool over two bits / over a list
        if N >= 2:
            bad(N, mk_field("b2", "bool", 1, [(0, 1)]), "bool over two bits")
            bad(N, mk_field("bl", "bool", 1, [(0, 0), (1, 1)]), "bool over a list")
            good(N, mk_field("bl1", "bool", 1, [(0, 0)], as_list=True), "bool over a one-element list")
        # reversed range (hi = lo - 1), alone and inside a list
        if N >= 4:
            bad(N, mk_field("rev", "arb", 2, [(2, 1)]), "reversed range")
            bad(N, mk_field("revl", "arb", 3, [(0, 2), (3, 2)]), "reversed range in a list")
            bad(N, mk_field("revl2", "native", 8, [(N - 1, 2), (0, min(N - 1, 12))]), "reversed range compensated by a long one")
        # a list whose out-of-base range is not the last one; descending lists that fit
        if N >= 12:
            bad(N, mk_field("lof", "native", 16, [(N - 4, N + 3), (0, 7)]), "first range of a list beyond the base")
            bad(N, mk_field("lom", "native", 16, [(0, 3), (N - 2, N + 5), (4, 7)]), "middle range of a list beyond the base")
            good(N, mk_field("ldf", "native", 8, [(N - 4, N - 1), (0, 3)]), "descending list that fits")
        # stride 0 on a bool array / explicit stride below the width
        if N >= 4:
            bad(N, mk_field("bs0", "bool", 1, [(2, 2)], count=4, stride=0), "bool array with stride 0")
            bad(N, mk_field("us0", "arb", 1, [(2, 2)], count=4, stride=0), "u1 array with stride 0")
            good(N, mk_field("bs1", "bool", 1, [(0, 0)], count=4, stride=1), "bool array with stride 1")
        # arrays: count 0, 1, 2
        bad(N, mk_field("c0", "bool", 1, [(0, 0)], count=0), "array count 0")
        bad(N, mk_field("c1", "bool", 1, [(0, 0)], count=1), "array count 1")
        if N >= 2:
            good(N, mk_field("c2", "bool", 1, [(0, 0)], count=2), "array count 2")
        # stride n-1, n, n+1
        if N >= 8:
            n = 3
            bad(N, mk_field("s2", "arb", n, [(0, n - 1)], count=2, stride=n - 1), "stride < width")
            good(N, mk_field("s3", "arb", n, [(0, n - 1)], count=2, stride=n), "stride = width")
            good(N, mk_field("s4", "arb", n, [(0, n - 1)], count=2, stride=n + 1), "stride = width + 1")
            # array bounds: exact fit and one over
            K = N // n
            lo = N - K * n
            good(N, mk_field("fit", "arb", n, [(lo, lo + n - 1)], count=K), "array exact fit")
            bad(N, mk_field("ovr", "arb", n, [(lo + 1, lo + n)], count=K), "array one bit over")
            # stride on a scalar
            bad(N, mk_field("ss", "arb", n, [(0, n - 1)], stride=4), "stride on a scalar")
            # missing stride on a multi-range array
            bad(N, mk_field("ms", "arb", 2, [(0, 0), (2, 2)], count=2), "missing stride on a list array")
            good(N, mk_field("ms1", "arb", 2, [(0, 0), (2, 2)], count=2, stride=4), "stride on a list array")
            good(N, mk_field("ms0", "arb", 2, [(0, 0), (2, 2)], count=2, stride=0 + 1), "interleaving stride on a list array")
    # the three arguments in every order: the checks must not depend on where `stride` / the access specifier is written
    for k, order in enumerate(["ras", "rsa", "ars", "asr", "sra", "sar"]):
        good(16, mk_field("og%d" % k, "arb", 4, [(0, 3)], count=4, stride=4, order=order), "argument order " + order)
        good(16, mk_field("oh%d" % k, "arb", 3, [(1, 3)], count=3, stride=5, order=order, access="r"), "argument order " + order)
        bad(16, mk_field("ob%d" % k, "arb", 4, [(0, 3)], count=4, stride=2, order=order), "stride below width, argument order " + order)
        bad(16, mk_field("oc%d" % k, "arb", 4, [(0, 3)], count=4, stride=5, order=order), "array exceeds base, argument order " + order)
        good(16, mk_field("ol%d" % k, "arb", 2, [(0, 0), (2, 2)], count=2, stride=4, order=order), "list array, argument order " + order)
        bad(16, mk_field("om%d" % k, "arb", 4, [(0, 1), (4, 5)], count=3, stride=6, order=order), "list array exceeds base, argument order " + order)
    # literals written with leading zeros are decimal (`str::parse::<usize>`), not octal
    def lz(f, old_new):
        for a, b in old_new:
            f["attrs"][0] = f["attrs"][0].replace(a, b)
        return f
    good(16, lz(mk_field("z1", "arb", 4, [(10, 13)]), [("10..=13", "010..=013")]), "leading zeros in a range")
    good(16, lz(mk_field("z2", "bool", 1, [(9, 9)]), [("bit(9", "bit(009")]), "leading zeros in a bit index")
    good(32, lz(mk_field("z3", "arb", 2, [(8, 9)], count=2, stride=10), [("8..=9", "08..=09"), ("stride = 10", "stride = 010")]), "leading zeros in range and stride")
    good(32, lz(mk_field("z4", "arb", 3, [(10, 11), (20, 20)]), [("10..=11", "010..=011"), ("20", "020")]), "leading zeros in a list")
    bad(16, lz(mk_field("z5", "arb", 4, [(13, 16)]), [("13..=16", "013..=016")]), "leading zeros, range exceeds the base")
    # arrays of fewer than two elements: single range and range list alike
    for cnt in [0, 1]:
        bad(16, mk_field("c%d" % cnt, "arb", 4, [(0, 3)], count=cnt), "array of %d elements" % cnt)
        bad(16, mk_field("cs%d" % cnt, "arb", 4, [(0, 3)], count=cnt, stride=8), "array of %d elements with stride" % cnt)
        bad(16, mk_field("cl%d" % cnt, "arb", 4, [(0, 1), (4, 5)], count=cnt, stride=8), "list array of %d elements" % cnt)
        bad(16, mk_field("cb%d" % cnt, "bool", 1, [(3, 3)], count=cnt), "bool array of %d elements" % cnt)
    # huge stride (macro usize arithmetic): must be rejected
    bad(32, mk_field("hs", "arb", 8, [(0, 7)], count=2, stride=2 ** 64 - 8), "stride wraps usize")
    bad(32, mk_field("hs2", "arb", 8, [(0, 7)], count=2, stride=2 ** 63), "huge stride")
    bad(64, mk_field("hs3", "native", 8, [(0, 7)], count=3, stride=2 ** 63 + 4), "stride * index wraps")
    bad(32, mk_field("hb", "bool", 1, [(2 ** 64 - 1, 2 ** 64 - 1)]), "bit index usize::MAX")
    # custom type width mismatch (decided by rustc's type check)
    e2 = cached_enum(ctx, 2, True)
    e8 = cached_enum(ctx, 8, False)
    bad(32, mk_field("em", "enum", 3, [(0, 2)], custom=e2["name"]), "enum narrower than range")
    bad(32, mk_field("em2", "enum", 1, [(0, 0)], custom=e2["name"]), "enum wider than range")
    bad(32, mk_field("em3", "optenum", 9, [(0, 8)], custom=e8["name"]), "native enum in 9 bits")
    bad(32, mk_field("em4", "optenum", 2, [(0, 1)], custom=e2["name"]), "Option on exhaustive enum")
    bad(32, mk_field("em5", "enum", 8, [(0, 7)], custom=e8["name"]), "non-exhaustive enum without Option")
    # unsupported base types
    for b in ["u0", "u129", "i32", "usize", "u256", "bool"]:
        mk_bf(ctx, b, [mk_field("x", "bool", 1, [(0, 0)])], inv, expect="invalid", rule="unsupported base " + b, wellformed=True)
    # default that does not fit
    mk_bf(ctx, 8, [mk_field("x", "bool", 1, [(0, 0)])], inv, default={"syntax": "=", "form": "lit", "value": 256}, expect="invalid", rule="default too large (native)")
    mk_bf(ctx, 9, [mk_field("x", "bool", 1, [(0, 0)])], inv, default={"syntax": "=", "form": "lit", "value": 512}, expect="invalid", rule="default too large (arbitrary)")
    mk_bf(ctx, 9, [mk_field("x", "bool", 1, [(0, 0)])], ["valid-boundary"], default={"syntax": "=", "form": "lit", "value": 511}, rule="default max")
    # ---------------- malformed attribute streams (not well-formed: model vs rustc only) ----------------
    def raw(N, ty, attrs, rule, kind="arb", width=3, count=None):
        f = {"name": "m", "ty": ty, "count": count, "ndocs": 0, "attrs": attrs, "kind": kind, "width": width,
             "custom": None, "access": "rw", "spec": None}
        mk_bf(ctx, N, [f], ["malformed"], expect="invalid", rule=rule, wellformed=False)
    raw(32, "u3", ["bits(0..=2, rw)", "bits(4..=6, rw)"], "two range attributes")
    raw(32, "u3", ["bits(0..=2, 4..=6, rw)"], "two ranges in one attribute")
    raw(32, "u3", ["bits([0..=2], [4..=6], rw)"], "two range arrays")
    raw(32, "u3", ["bit(0..=2, rw)"], "bit with a range")
    raw(32, "u1", ["bits(0, rw)"], "bits with a single bit", width=1)
    raw(32, "u3", ["bits(0..2, rw)"], "exclusive range syntax")
    raw(32, "u3", ["bits(0..=2, x)"], "unknown access ident")
    raw(32, "u3", ["bits(0..=2, rw, stride)"], "stride without value", count=2)
    raw(32, "u3", ["bits(0..=2, rw, stride = )"], "stride without number", count=2)
    raw(32, "u3", ["bits(rw)"], "no range at all")
    raw(32, "bool", ["bit(rw)"], "bool without a bit", kind="bool", width=1)
    raw(32, "u3", ["bits(0x0..=2, rw)"], "hex literal in range")
    raw(32, "u3", ["bits(0..=2usize, rw)"], "suffixed literal in range")
    raw(32, "u3", ["foo(0..=2, rw)"], "unknown attribute")
    raw(32, "u3", ["bits[0..=2, rw]"], "square bracket attribute")
    raw(32, "u3", ["bits(0..=2, rw,)"], "trailing comma (accepted)", )
    raw(32, "u3", ["bits((0..=2), rw)"], "parenthesised range")
    raw(32, "u3", ["bits([0..=2,], rw)"], "trailing comma in list (accepted)")
    raw(32, "u3", ["bits(0..=2 rw)"], "missing comma")
    raw(32, "u3", ["bits(0..=2, r, w)"], "r and w separately (accepted)")
    # field types that are not paths, malformed Option types (found uncovered by harness/coverage.py)
    raw(32, "(u8, u8)", ["bits(0..=15, rw)"], "tuple type", width=16)
    raw(32, "&'static u8", ["bits(0..=7, rw)"], "reference type", width=8)
    raw(32, "[u8]", ["bits(0..=7, rw)"], "slice type", width=8)
    raw(32, "[u4; 2]", ["bits(0..=3, rw)"], "nested array type", width=4, count=2)
    raw(32, "Option", ["bits(0..=1, rw)"], "Option without generic arguments")
    raw(32, "Option<%s, %s>" % (e2["name"], e2["name"]), ["bits(0..=1, rw)"], "Option with two generic arguments")
    raw(32, "Option<'static>", ["bits(0..=1, rw)"], "Option with a lifetime argument")
    raw(32, "Option<3>", ["bits(0..=1, rw)"], "Option with a const argument")
    raw(32, "u3", ["bits(0..=18446744073709551615, rw)"], "upper limit usize::MAX")
    raw(32, "u3", ["bits(0..+2, rw)"], "invalid punctuation in a range")
    raw(32, "u3", ["bits(0.=2, rw)"], "single period in a range")
    raw(32, "u3", ["bits(0;2, rw)"], "semicolon in a range")
    raw(128, e2["name"], ["bits([0..=127, 0], rw)"], "custom type over 129 bits")
    raw(32, "u3", ["bits(0..=2, rw, stride = 4)"], "stride on a scalar")
    raw(32, "u3", ["bits(2..=0, rw)"], "reversed range")
    # the ones marked 'accepted' are in fact valid; fix their expectation
    for d in ctx.decls[-30:]:
        if d["rule"].endswith("(accepted)"):
            d["expect"] = "valid"
            d["classes"] = ["malformed-valid"]


def gen_kf1(ctx):
    """known finding KF1: range lists naming bits twice whose total width exceeds the storage width are accepted,
    their getter always panics"""
    mk_bf(ctx, 8, [mk_field("kf1_x", "arb", 9, [(0, 6), (0, 1)], access="r")], ["kf1"], rule="KF1 u9 over u8")
    mk_bf(ctx, 32, [mk_field("kf1_y", "native", 64, [(0, 31), (0, 31)], access="r")], ["kf1"], rule="KF1 u64 over u32")


def gen_random(ctx):
    """structs whose fields are drawn at random from the whole space of valid shapes: kind (bool / native / signed /
    arbitrary / enum / Option<enum> / nested), position, contiguous or a list of 2..4 pieces in random order, scalar or
    array (count 2..5, stride = span .. span + 5, or an interleaving stride for single-bit lists), access.  Fields may
    overlap each other.  The enumerated classes above take each branch of the generator at its boundary; this class adds
    combinations nobody thought of (each seed gives other ones)."""
    rng = ctx.rng
    enums = {w: cached_enum(ctx, w, w <= 2) for w in (1, 2, 3, 8, 9, 16)}
    inner = mk_bf(ctx, 8, [mk_field("lo", "arb", 3, [(0, 2)]), mk_field("hi", "signed", 8, [(0, 7)], access="r")],
                  ["custom-types", "nested-inner", "random"], prefix="N")
    bases = all_bases(ctx.tier)
    bases = [b for b in bases if b >= 6]
    ndecl = 60 if ctx.tier != "thorough" else 500
    for _ in range(ndecl):
        N = rng.choice(bases + [128, 64, 32, 24, 100])
        fields = []
        for fi in range(rng.randrange(2, 7)):
            r = rng.random()
            if r < 0.12:
                kind, w, custom = "bool", 1, None
            elif r < 0.30:
                w = rng.choice([x for x in (8, 16, 32, 64, 128) if x <= N] or [1])
                kind, custom = ("native" if rng.random() < 0.6 else "signed"), None
                if w == 1:
                    kind = "arb"
            elif r < 0.62:
                w = rng.randrange(1, min(N, 70) + 1)
                kind, custom = int_kind(w), None
            elif r < 0.82:
                w = rng.choice([x for x in enums if x <= N])
                e = enums[w]
                kind, custom = ("enum" if e["exh"] == "true" else "optenum"), e["name"]
            else:
                if N < 8:
                    continue
                kind, w, custom = "nested", 8, inner["name"]
            # pieces
            nparts = 1
            if kind != "bool" and w >= 2 and rng.random() < 0.4:
                nparts = rng.randrange(2, min(w, 4) + 1)
            lens = split_ranges(rng, w, nparts, None)
            # array?
            count = None
            stride = None
            span_room = N
            if rng.random() < 0.35 and 2 * w <= N:
                count = rng.randrange(2, 6)
            if count is None:
                rs = place_disjoint(rng, N, lens, rng.choice(["asc", "desc", "shuffle"]))
            else:
                if nparts > 1 and all(l == 1 for l in lens) and rng.random() < 0.5 and w * count <= N:
                    # interleaved single bits: element i at bits i, i + count, i + 2*count, …
                    rs = [(k * count, k * count) for k in range(w)]
                    rng.shuffle(rs)
                    stride = 1
                else:
                    extra = rng.randrange(0, 6)
                    room = N // count - extra
                    if room < w:
                        extra = 0
                        room = N // count
                    if room < w:
                        count = None
                        rs = place_disjoint(rng, N, lens, "shuffle")
                    else:
                        span = rng.randrange(w, room + 1)
                        rs = place_disjoint(rng, span, lens, rng.choice(["asc", "desc", "shuffle"]))
                        stride = span + extra
                        hi = max(b for _, b in rs) + (count - 1) * stride
                        off = rng.randrange(0, N - hi)
                        rs = [(a + off, b + off) for a, b in rs]
                        if nparts == 1 and stride == w and rng.random() < 0.5:
                            stride = None       # default stride
            access = rng.choice(["rw", "rw", "rw", "r", "w"])
            fields.append(mk_field("f%d" % fi, kind, w, rs, access=access, count=count, stride=stride, custom=custom,
                                   order=rng.choice(["ras", "ras", "ars", "rsa", "sra"])))
        if fields:
            dflt = None
            if rng.random() < 0.4:
                dflt = {"syntax": rng.choice(["=", ":"]), "form": "lit", "value": rng.randrange(2 ** N)}
            mk_bf(ctx, N, fields, ["random", "profile"] + (["builder"] if dflt else []), default=dflt)


def rule_valid(N, f):
    """Property C09's rule set, evaluated on a generated field (independent of the macro and of the Lean model): every range
    has lo <= hi; the type width equals the number of selected bits (bool: exactly one bit, one range); a stride only on
    arrays; arrays have >= 2 elements, a stride >= the element width when the element is one range, a mandatory stride when
    it is a list; every addressed bit lies below the base width."""
    sp = f["spec"]
    rs = sp["ranges"]
    if not rs or any(lo > hi for lo, hi in rs):
        return False
    nbits = sum(hi - lo + 1 for lo, hi in rs)
    if f["kind"] == "bool":
        if nbits != 1 or len(rs) != 1 or sp["list"]:
            return False
    elif nbits != f["width"]:
        return False
    top = max(hi for _, hi in rs)
    if f["count"] is None:
        if sp["stride"] is not None:
            return False
    else:
        if f["count"] < 2:
            return False
        if len(rs) > 1 and sp["stride"] is None:      # a list of one range is a contiguous element
            return False
        st = sp["stride"] if sp["stride"] is not None else nbits
        if len(rs) == 1 and st < nbits:
            return False
        top += (f["count"] - 1) * st
    return top < N


def gen_random_verdicts(ctx):
    """single-field declarations and enums drawn at random and then perturbed in one parameter (position, type width, count,
    stride, direction of a range, exhaustiveness claim, a discriminant); the expectation is computed from the property's
    rule text (`rule_valid` / the C10 sentence), not from the macro or the model.  The boundary cases of every rule are in
    the classes `invalid` / `enums-invalid`; this class looks for accept / reject decisions that go wrong away from them."""
    rng = ctx.rng
    n_bf = 150 if ctx.tier != "thorough" else 1500
    for _ in range(n_bf):
        N = rng.choice([8, 9, 16, 24, 32, 33, 63, 64, 65, 100, 127, 128, rng.randrange(2, 129)])
        if rng.random() < 0.2:
            kind, w = "bool", 1
        else:
            w = rng.choice([x for x in (1, 2, 3, 4, 5, 7, 8, 9, 12, 16, 17, 24, 32, 33, 64) if x <= N] + [rng.randrange(1, N + 1)])
            kind = int_kind(w)
            if kind == "native" and rng.random() < 0.3:
                kind = "signed"
        nparts = 1 if (kind == "bool" or w < 2 or rng.random() < 0.6) else rng.randrange(2, min(w, 4) + 1)
        lens = split_ranges(rng, w, nparts, None)
        count = stride = None
        if rng.random() < 0.5 and 2 * w <= N:
            count = rng.randrange(2, max(3, min(6, N // w + 1)))
            room = N // count
            span = rng.randrange(w, max(w, room) + 1)
            if span > N:
                span = w
            rs = place_disjoint(rng, max(span, w), lens, rng.choice(["asc", "desc", "shuffle"]))
            stride = max(span, w) + rng.randrange(0, 3)
            if nparts == 1 and rng.random() < 0.4:
                stride = None
        else:
            rs = place_disjoint(rng, N, lens, rng.choice(["asc", "desc", "shuffle"]))
        rs = [tuple(r) for r in rs]
        tw = w
        mut = rng.choice(["none", "none", "top", "top", "width", "count", "stride", "reverse", "scalar-stride", "shift"])
        hi = max(b for _, b in rs)
        if mut == "top":
            # move the field so that its highest addressed bit is N-2 .. N+1
            st = stride if stride is not None else w
            reach = hi + (count - 1) * st if count else hi
            delta = (N - 1 + rng.choice([-1, 0, 0, 1, 2])) - reach
            if all(a + delta >= 0 for a, _ in rs):
                rs = [(a + delta, b + delta) for a, b in rs]
        elif mut == "width" and kind != "bool":
            tw = max(1, w + rng.choice([-1, 1]))
            kind = int_kind(tw) if kind != "signed" else ("signed" if tw in NATIVE else int_kind(tw))
        elif mut == "count":
            count = rng.choice([0, 1, (count or 2) + rng.randrange(1, 4)])
            if stride is None and nparts > 1:
                stride = w
        elif mut == "stride" and count:
            stride = rng.choice([0, max(0, w - 1), w, None, w + 1])
        elif mut == "reverse" and any(a < b for a, b in rs):
            k = rng.choice([i for i, (a, b) in enumerate(rs) if a < b])
            rs[k] = (rs[k][1], rs[k][0])
        elif mut == "scalar-stride" and not count:
            stride = rng.choice([w, w + 1, 1])
        elif mut == "shift":
            d = rng.randrange(-3, 4)
            if all(a + d >= 0 for a, _ in rs):
                rs = [(a + d, b + d) for a, b in rs]
        f = mk_field("v", kind, tw, rs, access=rng.choice(["rw", "rw", "r", "w"]), count=count, stride=stride,
                     as_list=(len(rs) > 1) or (kind != "bool" and rng.random() < 0.1), single_bit_form=rng.random() < 0.7,
                     order=rng.choice(["ras", "ras", "ars", "rsa", "sra", "sar", "asr"]))
        ok = rule_valid(N, f)
        mk_bf(ctx, N, [f], ["random-verdict"] + (["valid-boundary"] if ok else ["invalid"]),
              expect="valid" if ok else "invalid", rule="random (%s)" % mut)
    n_en = 80 if ctx.tier != "thorough" else 600
    for _ in range(n_en):
        n = rng.choice([1, 2, 3, 4, 5, 8, 9, 16, 31, 32, 33, 63, 64, rng.randrange(1, 65)])
        full = 2 ** n
        r = rng.random()
        if n <= 5 and r < 0.35:
            k = full
        elif n <= 5 and r < 0.5:
            k = full - 1
        else:
            k = rng.randrange(1, min(full, 9))
        if k >= full:
            discrs = list(range(full))
        else:
            pool = set()
            while len(pool) < k:
                pool.add(rng.choice([0, 1, full - 1, full - 2 if full > 2 else 0, rng.randrange(full)]))
            discrs = list(pool)
        rng.shuffle(discrs)
        too_big = False
        if n < 64 and rng.random() < 0.15:
            discrs[rng.randrange(len(discrs))] = full + rng.choice([0, 1, full])
            too_big = True
            if len(set(discrs)) != len(discrs):
                continue
        exh = rng.choice(["true", "false", None, "conditional"])
        complete = (len(discrs) == full and not too_big)
        ok = (not too_big) and ((exh == "true" and complete) or (exh in ("false", None) and not complete) or exh == "conditional")
        mk_enum(ctx, n, discrs, exh, ["random-verdict"] + (["enums"] if ok else ["enums-invalid"]), sep=rng.choice(["=", ":"]),
                expect="valid" if ok else "invalid", rule="random enum (%s, %d of 2^%d%s)" % (exh, len(discrs), n, ", discriminant >= 2^N" if too_big else ""))


def generate(seed, tier):
    ctx = Ctx(seed, tier)
    gen_kf1(ctx)
    gen_scalar_contiguous(ctx)
    gen_signed(ctx)
    gen_arrays(ctx)
    gen_range_lists(ctx)
    gen_custom(ctx)
    gen_bases(ctx)
    gen_enums(ctx)
    gen_multi(ctx)
    gen_mixed(ctx)
    gen_random(ctx)
    gen_random_verdicts(ctx)
    gen_args(ctx)
    gen_builder(ctx)
    gen_access(ctx)
    gen_debug(ctx)
    gen_docs(ctx)
    gen_invalid(ctx)
    # order: enums and nested inner bitfields first (they are referenced by later declarations)
    def key(d):
        if d["kind"] == "bitenum":
            return 0
        if "nested-inner" in d["classes"]:
            return 1
        return 2
    decls = sorted(ctx.decls, key=key)
    return decls


if __name__ == "__main__":
    import sys, json, collections
    ds = generate(int(sys.argv[1]) if len(sys.argv) > 1 else 1, sys.argv[2] if len(sys.argv) > 2 else "quick")
    c = collections.Counter()
    nf = 0
    for d in ds:
        for cl in d["classes"]:
            c[cl] += 1
        nf += len(d.get("fields", []))
    print(len(ds), "decls", nf, "fields")
    for k, v in sorted(c.items()):
        print("  ", k, v)
