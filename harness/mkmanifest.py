#!/usr/bin/env python3
"""Writes /verif/MANIFEST.json from the table below; a property is claimed when its Props/Cxx.lean exists and
it is listed in CLAIMED."""
import json, os, sys

CLAIMED = sys.argv[1:] if len(sys.argv) > 1 else []

COMMON_NOTE = ("Trusted: Lean 4.33 kernel; axioms propext, Classical.choice, Quot.sound only (printed per theorem by Audit.lean); "
               "the hand-written Lean model of the macro (parsing.rs, codegen.rs, mod.rs, bitenum.rs, bit_size.rs), of Rust integer "
               "operators in both build profiles and of arbitrary-int's new/value/extract_uN — these are modelled, not verified, and are "
               "tied to /repo's current source on every run by executing the real macro output and the model's executable definitions on "
               "the same generated corpus and operations (differences are reported, with the failing input when the real code also "
               "disagrees with the reference semantics); rustc itself for accept/reject, typing, const evaluation, layout and lints. "
               "Every emitted accessor body is compared with the model's body: syntactically, and by the verified normaliser Nf.bodiesEquiv "
               "(Bb.Nf.bodiesEquiv_sound: equal normal forms => equal results for every raw value, written value, index and both profiles; "
               "Bb.TV.*_validated: the accessor theorems then hold for the emitted body); the S-expression reader that feeds it is trusted and "
               "validated by evaluating the read-back bodies on the probe operations; the model's integer semantics (eval) are validated "
               "against rustc on a random expression corpus in both profiles on every run. ")
TV_NOTE = {
 "C01": " TV.getter_validated(_plain) / TV.accepted_getter_validated: the same result for ANY emitted getter body the normaliser finds equivalent to the model's (translation validation of the real macro output, all inputs).",
 "C02": " TV.setter_validated / TV.accepted_setter_validated: the same for any emitted with_/set_ body the normaliser accepts.",
 "C03": " TV.getter_validated, setter_validated and their _oob forms: in-range and out-of-range behaviour of any emitted array accessor body the normaliser accepts (bodiesEquiv checks every index < K and the assert head).",
 "C04": " TV.getter_validated / setter_validated carry the gather / scatter statements over to any emitted body the normaliser accepts.",
 "C05": " TV.getter_validated / setter_validated: likewise for emitted bodies of signed fields (sign extension and truncation of `as` are part of the normaliser).",
 "C06": " Nf.bodiesEquiv_sound also validates the emitted raw_value / new_with_raw_value bodies against the model's.",
 "C08": " TV.getter_validated (result through T::new_with_raw_value as a symbolic call) / setter_validated (value.raw_value() as a symbolic input) for emitted bodies of custom-typed fields.",
 "C11": " TV.setter_validated: an emitted setter body the normaliser accepts keeps the register below 2^N.",
 "C12": " TV.setter_validated: every step of a history may use any emitted body the normaliser accepts. C12.readback_after_history / Prog.accepted_history_readback: after any legal history the field written last reads back the written value (the run executes exactly that after every random history). Prog.accepted_history_order_independent: permuted histories of pairwise disjoint writes against an accepted declaration both run and end in the same register, also across profiles.",
 "C13": " TV.setter_validated: the with_ calls of the chain may use any emitted body the normaliser accepts. C13.builder_order_irrelevant: any permutation of the chain's with_ calls (pairwise disjoint, which is what C14 makes the condition for offering a builder) run from the same start value ends in the register build() returns.",
 "C16": " TV.validated_profile_independent / *_validated_oob: a validated emitted body gives the same result with overflow checks on and off and panics exactly on an out-of-range index.",
}

T = {
 "C01": ("Bb.C01.getter_contiguous: for every well-formed base (u8..u128, u1..u127), every accepted contiguous scalar field, every raw value and both profiles the generated getter evaluates to `field raw lo n` presented as the field type; getter_bits / getter_ignores_other_bits give the bit-level reading (bit k weighs 2^k, nothing outside the range matters). Unbounded in widths, positions and values. Prog.accepted_getter: the same for every field of every accepted declaration (hypotheses: accepted, in-range index, no bit named twice).", "§6 C01"),
 "C02": ("Bb.C02.with_contiguous / with_bits / read_back / set_eq_with: with_ (and set_, the same expression) yields the register whose field positions hold v and whose other positions hold the receiver's bits; reading back gives v; full-width fields included (eval_setterNewRawValue covers all seven setter templates). Prog.accepted_setter: declaration-level form; Prog.accepted_history_readback: read-back holds for every reachable receiver, not only a freshly wrapped raw value.", "§6 C02"),
 "C03": ("Bb.C03.array_get / array_with / array_isolation / array_get_oob / array_with_oob: element i is read and written at offset i*stride, a write leaves every position outside element i alone (so other elements and fields), and an index >= K panics in getter, with_ and set_ under both profiles before anything else is evaluated.", "§6 C03"),
 "C04": ("Bb.C04.list_get (any list, Σlen ≤ W), gather_bits, list_with / scatter_inside / scatter_outside / scatter_gather (pairwise disjoint lists, as the property states): declaration-order concatenation on read, exact scatter on write, round trip; arrays of lists with explicit stride through the element offset.", "§6 C04"),
 "C05": ("Bb.C05.signed_get / signed_with / no_sign_leak / signed_read_back / toInt_injective: an iN field reads as the iN with the field's N-bit pattern, writing any pattern (negative values included) stores exactly it and changes no other bit of the W-bit storage; plain, array and non-contiguous alike.", "§6 C05"),
 "C06": ("Bb.C06.raw_roundtrip / raw_value_of_storage / zero_raw / default_raw / default_too_large / storage_least: new_with_raw_value(r).raw_value() = r for native and arbitrary bases, ZERO is 0, DEFAULT_RAW_VALUE is the declared value (all bits), storage is the least native width. Copy/size/align are compiler-checked in the correspondence crates, not modelled. The argument list of #[bitfield(…)] is modelled (Macro/Args.lean) and the default forms are theorems: args_default_lit / args_default_const for `=` and `:`, args_no_default, args_last_default_wins, args_unknown_ignored, args_default_errors; Prog.accepted_default: for every accepted declaration the declared default is the program's default, fits the base and DEFAULT_RAW_VALUE evaluates to it.", "§6 C06"),
 "C07": ("Bb.C07: new_with_raw_value(x) returns the variant whose discriminant is x, Err(x) when there is none, never panics for accepted non-exhaustive enums; exhaustive enums are total by pigeonhole over the accepted declaration; raw_value() is the discriminant; the two conversions are mutually inverse.", "§6 C07"),
 "C08": ("Bb.C08.custom_get / custom_with, parametric in the user type's two conversion functions: the getter is T::new_with_raw_value(presented field bits) (Option<E>: the Result passed through), the setter writes value.raw_value() into exactly the field's bits; 1-bit, arbitrary and native widths, arrays and lists through the general accessor theorems.", "§6 C08"),
 "C09": ("Bb.C09.field_accept_iff / accept_iff_rules / accepted_fieldOk: parseField accepts a field declared with a well-formed bit/bits attribute (rendered to tokens and read back by the ArgumentParser model) iff the rule set RuleValid holds (ranges lo ≤ hi, type width = Σ range lengths, bool exactly one bit, arrays ≥ 2 elements with stride ≥ width / mandatory for lists, every addressed bit below the exposed base width), and acceptance implies FieldOk, the premise of all accessor theorems. field_accept_iff_any_order: the same equivalence for all six orders of range / access specifier / stride; range_tokens_from_text: decimal literal text ↦ token value; expand_fields_ok: every field of every accepted declaration satisfies FieldOk.", "§6 C09"),
 "C10": ("Bb.C10: bitenumCheck accepts iff EnumValid (size 1..=64, explicit literal discriminants < 2^N, exhaustive=true iff all 2^N present, false/omitted iff fewer, more than 2^N or cfg-gated variants only under conditional). config_parse_bits: the storage argument `u<n>` is read as size n.", "§6 C10"),
 "C11": ("Bb.C11.inv_new / inv_step / inv_reachable / raw_value_total / rewrap_id / getter_reads_below: the storage stays below 2^N through every history of accepted writes (all accepted fields, lists with repeated bits included), raw_value() never panics, and new_with_raw_value(x.raw_value()) has the same storage as x.", "§6 C11"),
 "C12": ("Bb.C12.history / history_runs / disjoint_commute / overlap_alias: every legal history of with_/set_ calls runs under both profiles and each bit of the final register is the bit of the last write covering it, else the initial bit (induction over the operation list, unbounded length). write_keeps_uncovered: a write through any accepted list, also one naming a bit twice, leaves uncovered positions alone; Prog.accepted_history: the same for histories against an accepted declaration with only user-visible hypotheses. disjoint_perm / history_order_independent: any two histories (any length) that are permutations of each other, the writes pairwise on disjoint position sets, end in the same register; overwrite / write_idempotent: a write whose positions the next write covers again leaves no trace. rewrite_same_field / second_write_wins: the second write to the same field and element wins entirely. apart_elements: different elements of a contiguous array with stride >= width share no position.", "§6 C12"),
 "C13": ("Bb.C13: evaluating the generated builder chain equals folding with_ over the writable fields in declaration order from DEFAULT (or zero), arrays unrolled in index order; bits covered by no writable field keep the start value. Prog.accepted_builder: for an accepted declaration that offers a builder, every well-typed argument tuple runs from DEFAULT/zero to the last-write-wins register of its calls.", "§6 C13"),
 "C14": ("Bb.C14: the macro's mask arithmetic computes the covered positions, the self-overlap loop finds exactly double coverage, builder() is offered iff no position is writable twice and (default or full coverage); the emitted impl blocks form a strictly increasing mask chain with build only on the last. Prog.accepted_builder derives the legality of every builder call from builder_offered_iff.", "§6 C14"),
 "C15": ("Bb.C15 (partial): every listed item of the model program is emitted const and its body uses only const-evaluable constructs; that rustc's const evaluator accepts them and agrees with run time is compiler-checked on const items in the correspondence crates.", "§6 C15"),
 "C16": ("Bb.C16.getter_total_partial / setter_total_partial / checked_implies_unchecked / oob_both / history_profile_independent / wide_of_disjoint (+ kf1_witness): under Σlen ≤ W (always true without repeated bits) no generated accessor panics for any raw value, value or in-range index and both profiles give the same result; the only panic is the index assertion. KF1 (lists wider than the storage) is a recorded known finding.", "§6 C16"),
 "C17": ("Bb.C17: the accessor items the model emits for a field are exactly those its access specifier allows (r: getter; w: with_/set_ + builder step; rw: both; none: neither); read-only positions are changed by no emitted mutator, write-only positions are read by no emitted getter.", "§6 C17"),
 "C18": ("Bb.C18 (partial): every pub item of the model program is documented when the user documented type and fields; all paths are rooted in core / arbitrary_int / Self / user types; the Expr/Item datatypes cannot express unsafe. Acceptance under #![no_std] + #![deny(missing_docs)] is compiler-checked on the documented corpus.", "§6 C18"),
 "C19": ("Bb.C19: the Debug impl is debug_struct(name) over every field's getter in declaration order, so the text is render(name, [(field, show(getter raw))]) — a function of raw alone; core::fmt's DebugStruct rendering ({:?} and {:#?}) is modelled and validated by the differential.", "§6 C19"),
}


def main():
    props = [json.loads(l) for l in open("/verif/properties.jsonl")]
    checks = []
    na = []
    claimed = []
    for p in props:
        pid = p["id"]
        have = os.path.exists("/verif/lean/BitbybitModel/Props/%s.lean" % pid)
        if pid in CLAIMED and have:
            claimed.append(pid)
            text, ref = T[pid]
            checks.append({
                "property_id": pid,
                "quick_cmd": "./check %s --tier quick" % pid,
                "thorough_cmd": "./check %s --tier thorough" % pid,
                "evidence_file": "/verif/evidence/%s.json" % pid,
                "replay_cmd_template": "./check replay {path}",
                "engine": "lean-model+correspondence",
                "level_claimed": {"category": "proof", "text": "Machine-checked Lean 4 theorems about a model of the macro: " + text + TV_NOTE.get(pid, ""), "design_ref": ref},
                "level_note": COMMON_NOTE + "FieldOk (the hypothesis of the accessor theorems) is discharged for every field definition the model's parse_field returns, for arbitrary attribute tokens, by Bb.parseField_ok (C09.accepted_fieldOk).",
                "technique": "Lean 4 proof (kernel-checked theorems over a model of the proc macro; verified normaliser for translation validation of the emitted bodies) + differential correspondence run against /repo",
            })
        else:
            na.append({"property_id": pid, "reason": "not claimed yet: the Lean theorems / correspondence for this property are still under construction in this session (planned, see DESIGN.md §6); no other technique is substituted"})
    m = {
        "version": 1,
        "setup_cmd": "cd /verif/lean && lake build BitbybitModel BitbybitModel.All bbdriver",
        "hooks": {"guard": "cargo feature verif_hooks (bitbybit/Cargo.toml)",
                  "enable": "harness crates depend on bitbybit with features=[\"verif_hooks\"]; BITBYBIT_VERIF_DUMP_DIR selects the dump directory",
                  "baseline_off_cmd": "cd /repo && cargo test --workspace --no-fail-fast --offline",
                  "source_commits": ["e0d5a5a"], "add_only": True},
        "engines": [{"name": "lean-model+correspondence", "path": "/verif/lean, /verif/harness", "serves_properties": claimed,
                     "kind_free_text": "Lean 4 model of the proc macro with theorems per property; Python/Rust harness that builds a generated corpus against /repo's working tree (hook on) and compares real executions with the model (M) and the reference semantics (S)"}],
        "checks": checks,
        "not_applicable": na,
        "notes": "See DESIGN.md. Repairs of genuine defects in /repo: e0a3911 (D1 bounds), ad0602b (D2 builder self-overlap), 441536c (D3 reversed range), dc30ad4 (D4 checked arithmetic for huge literals); known finding KF1 in known_findings.json.",
    }
    json.dump(m, open("/verif/MANIFEST.json", "w"), indent=1)
    print("claimed:", claimed)


main()
