#!/bin/sh
# usage: mutation_trial.sh <name> <patch.diff> <prop>...   — runs the checks against a patched COPY of /repo (not /repo itself)
name="$1"; patch="$2"; shift 2
T=/tmp/trial/$name
rm -rf "$T"; mkdir -p "$T"
git -C /repo worktree add -q --detach "$T/repo" HEAD || exit 2
git -C "$T/repo" apply "$patch" || { echo "patch does not apply"; git -C /repo worktree remove --force "$T/repo"; exit 2; }
cp /repo/Cargo.lock "$T/repo/Cargo.lock" 2>/dev/null
export VERIF_REPO="$T/repo" VERIF_WORK="$T/work" VERIF_OUT="$T/out"
# run from a private copy of the framework (so that edits to /verif while the trial runs do not disturb it)
if [ -z "$VERIF_SNAP" ]; then
  VERIF_SNAP="$T/snap"; mkdir -p "$VERIF_SNAP"
  # the committed state (never a half-edited working tree), plus the Lean build products so that little has to be rebuilt
  git -C /verif archive HEAD -- . ':!seeded' ':!evidence' | tar -x -C "$VERIF_SNAP"
  mkdir -p "$VERIF_SNAP/lean/.lake"; rsync -a /verif/lean/.lake/ "$VERIF_SNAP/lean/.lake/"
fi
ROOT=$VERIF_SNAP
cd $ROOT
for p in "$@"; do
  python3 $ROOT/harness/check.py "$p" 2>/dev/null | grep -E "VIOLATION|KNOWN|: ok|: FAIL" | sed "s/^/[$name] /"
done > "$T/result.txt"
cat "$T/result.txt"
git -C /repo worktree remove --force "$T/repo"
rm -rf "$T/work" "$T/snap"
