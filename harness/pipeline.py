"""Builds the corpus against /repo's working tree, runs the real code and the Lean driver, collects results."""
import hashlib
import zlib, json, os, re, shutil, subprocess, sys, time, fcntl, collections

import gen, render, dumpparse, rustexpr, structure, semgen

VERIF = os.environ.get("VERIF_ROOT") or os.path.dirname(os.path.dirname(os.path.abspath(__file__)))
REPO = os.environ.get("VERIF_REPO", "/repo")
LEAN_DIR = os.path.join(VERIF, "lean")
WORK_ROOT = os.environ.get("VERIF_WORK", os.path.join(VERIF, "work"))
DRIVER = os.path.join(LEAN_DIR, ".lake", "build", "bin", "bbdriver")

CARGO_ENV = dict(os.environ, CARGO_NET_OFFLINE="true", RUSTFLAGS=os.environ.get("VERIF_RUSTFLAGS", ""))
CARGO_ENV.pop("RUSTFLAGS") if not CARGO_ENV["RUSTFLAGS"] else None

HEADER = [
    "#![allow(dead_code, unused, deprecated, non_camel_case_types, non_snake_case, non_upper_case_globals, clippy::all)]",
    "use bitbybit::{bitenum, bitfield};",
    "use arbitrary_int::*;",
]


def log(*a):
    print("[pipeline]", *a, file=sys.stderr, flush=True)


def tree_hash(paths):
    h = hashlib.sha256()
    for root in paths:
        if os.path.isfile(root):
            files = [root]
        else:
            files = []
            for dp, dn, fn in os.walk(root):
                dn[:] = sorted(x for x in dn if x not in ("target", ".lake", "__pycache__", "work", ".git"))
                for f in sorted(fn):
                    files.append(os.path.join(dp, f))
        for f in files:
            h.update(f.encode())
            try:
                with open(f, "rb") as fh:
                    h.update(fh.read())
            except OSError:
                pass
    return h.hexdigest()[:16]


def repo_key():
    return tree_hash([os.path.join(REPO, "bitbybit"), os.path.join(REPO, "Cargo.toml")])


def framework_key():
    return tree_hash([os.path.join(VERIF, "harness"), os.path.join(LEAN_DIR, "BitbybitModel"), os.path.join(LEAN_DIR, "Main.lean"),
                      os.path.join(LEAN_DIR, "lakefile.toml")])


# ---------------------------------------------------------------------------------------------
# cargo helpers
# ---------------------------------------------------------------------------------------------

def write(path, text):
    os.makedirs(os.path.dirname(path), exist_ok=True)
    with open(path, "w") as f:
        f.write(text)


def setup_workspace(ws, members):
    write(os.path.join(ws, "Cargo.toml"), "[workspace]\nresolver = \"2\"\nmembers = [%s]\n\n[profile.dev]\ndebug = false\nincremental = false\n\n[profile.release]\ndebug = false\nincremental = false\n" %
          ", ".join('"%s"' % m for m in members))
    write(os.path.join(ws, ".cargo", "config.toml"), "[net]\noffline = true\n")
    if not os.path.exists(os.path.join(ws, "Cargo.lock")):
        shutil.copy(os.path.join(REPO, "Cargo.lock"), os.path.join(ws, "Cargo.lock"))


def crate_toml(name, lib=True, no_std_dep=False):
    return ("[package]\nname = \"%s\"\nversion = \"0.1.0\"\nedition = \"2021\"\n\n[dependencies]\n"
            "bitbybit = { path = \"%s/bitbybit\", features = [\"verif_hooks\"] }\narbitrary-int = { version = \"1.3.0\", default-features = false }\n" % (name, REPO))


def cargo(ws, args, env_extra=None, timeout=3600):
    env = dict(CARGO_ENV)
    if env_extra:
        env.update(env_extra)
    t0 = time.time()
    p = subprocess.run(["cargo"] + args, cwd=ws, env=env, stdout=subprocess.PIPE, stderr=subprocess.PIPE, text=True, timeout=timeout)
    log("cargo", " ".join(args[:4]), "rc=%d" % p.returncode, "%.1fs" % (time.time() - t0))
    return p


def parse_messages(stdout):
    msgs = []
    for line in stdout.splitlines():
        if not line.startswith("{"):
            continue
        try:
            j = json.loads(line)
        except ValueError:
            continue
        if j.get("reason") == "compiler-message":
            msgs.append(j["message"])
    return msgs


def span_locs(span):
    """all (file, line_start, line_end) of this span and its macro expansion chain"""
    out = []
    s = span
    depth = 0
    while s is not None and depth < 20:
        out.append((s.get("file_name", ""), s["line_start"], s["line_end"]))
        exp = s.get("expansion")
        s = exp.get("span") if exp else None
        depth += 1
    return out


def attribute(msg, ranges_by_file):
    """names of the items (by file and line range) this diagnostic belongs to.
    ranges_by_file: {file suffix: {name: (lo, hi)}}"""
    names = set()
    spans = list(msg.get("spans", []))
    prim = [s for s in spans if s.get("is_primary")]
    if not prim:
        for ch in msg.get("children", []):
            spans.extend(ch.get("spans", []))
    for s in (prim or spans):
        for (fn, a, b) in span_locs(s):
            for suffix, ranges in ranges_by_file.items():
                if fn.endswith(suffix):
                    for name, (lo, hi) in ranges.items():
                        if a <= hi and b >= lo:
                            names.add(name)
    return names


# ---------------------------------------------------------------------------------------------
# the run
# ---------------------------------------------------------------------------------------------

def run_driver(lines, out_path=None):
    t0 = time.time()
    p = subprocess.run([DRIVER], input="\n".join(lines) + "\n", stdout=subprocess.PIPE, stderr=subprocess.PIPE, text=True)
    log("driver rc=%d %.1fs lines=%d" % (p.returncode, time.time() - t0, len(lines)))
    if p.returncode != 0:
        raise RuntimeError("driver failed: " + p.stderr[-2000:])
    return p.stdout.splitlines()


def run_driver_sharded(proto, chk, op_lines, shards=None):
    """Runs the operations through several driver processes, sharded by declaration name (operations on one declaration
    stay in order in one shard; declarations are independent of one another).  Returns (output lines without the
    per-shard stats, merged stats line)."""
    n = shards or int(os.environ.get("VERIF_DRIVER_SHARDS", "0")) or max(1, min(12, (os.cpu_count() or 2) - 2))
    if len(op_lines) < 200000:
        n = 1
    t0 = time.time()
    buckets = [[] for _ in range(n)]
    if n == 1:
        buckets[0] = op_lines
    else:
        idx = {}
        for l in op_lines:
            sp = l.find(" ", 3)
            name = l[3:sp]
            b = idx.get(name)
            if b is None:
                b = idx[name] = zlib.crc32(name.encode()) % n
            buckets[b].append(l)
    head = "\n".join(proto + ["profile chk=%d" % chk]) + "\n"
    procs = []
    for b in buckets:
        pr = subprocess.Popen([DRIVER], stdin=subprocess.PIPE, stdout=subprocess.PIPE, stderr=subprocess.PIPE, text=True)
        procs.append(pr)
    import threading
    outs = [None] * n

    def feed(i):
        o, e = procs[i].communicate(head + "\n".join(buckets[i]) + "\nstats\n")
        outs[i] = (o, e)
    ths = [threading.Thread(target=feed, args=(i,)) for i in range(n)]
    for t in ths:
        t.start()
    for t in ths:
        t.join()
    out = []
    tot = {"ops": 0, "misM": 0, "misS": 0, "skipS": 0, "opsA": 0, "misA": 0}
    for i in range(n):
        if procs[i].returncode != 0:
            raise RuntimeError("driver failed: " + outs[i][1][-2000:])
        for l in outs[i][0].splitlines():
            if l.startswith("stats "):
                for kv in l.split()[1:]:
                    k, v = kv.split("=")
                    tot[k] = tot.get(k, 0) + int(v)
            else:
                out.append(l)
    # (the declaration lines are answered by every shard; callers only look at mismatch / bad-op lines)
    log("driver x%d %.1fs ops=%d" % (n, time.time() - t0, len(op_lines)))
    return out, "stats ops=%d misM=%d misS=%d skipS=%d opsA=%d misA=%d" % (tot["ops"], tot["misM"], tot["misS"], tot["skipS"], tot["opsA"], tot["misA"])


def pick_mismatches(out, cap):
    """disagreements with the reference semantics (concrete failing inputs) first, then disagreements with the model and
    uninterpretable operations; each group capped, spread over the declarations, duplicates removed"""
    groups = {"S": {}, "M": {}, "B": {}, "A": {}}
    for l in out:
        if l.startswith("mismatch S "):
            g = "S"
        elif l.startswith("mismatch A "):
            g = "A"
        elif l.startswith("mismatch M "):
            g = "M"
        elif l.startswith("bad-op"):
            g = "B"
        else:
            continue
        # one bucket per (declaration, operation kind): every kind of operation of every affected declaration is
        # represented before the cap is reached (a flood of `with` mismatches must not hide the `hist` ones)
        m = re.search(r"(?::: |bad-op )op (\S+) (\S+)", l)
        groups[g].setdefault((m.group(1), m.group(2)) if m else ("", ""), {})[l] = None
    res = []
    for g, share in (("S", cap // 2), ("M", cap // 3), ("B", cap - cap // 2 - cap // 3), ("A", max(50, cap // 20))):
        per = [list(v) for v in groups[g].values()]
        # round-robin over the declarations so that every affected declaration is represented
        k = 0
        taken = 0
        while taken < share and any(k < len(x) for x in per):
            for x in per:
                if k < len(x) and taken < share:
                    res.append(x[k])
                    taken += 1
            k += 1
    return res


def ensure_driver():
    p = subprocess.run(["lake", "build", "bbdriver"], cwd=LEAN_DIR, stdout=subprocess.PIPE, stderr=subprocess.STDOUT, text=True)
    if p.returncode != 0:
        raise RuntimeError("lake build bbdriver failed:\n" + p.stdout[-3000:])


def build_and_run(tier, seed, profiles=("dev",), decls_override=None):
    """returns the results dict (also cached on disk)"""
    os.makedirs(WORK_ROOT, exist_ok=True)
    if decls_override is not None:
        res = _build_and_run(tier, seed, profiles, decls_override)
        res["key"] = "replay"
        return res
    key = "%s-%s-%s-%d-%s" % (repo_key(), framework_key(), tier, seed, "+".join(profiles))
    cache = os.path.join(WORK_ROOT, "results-%s.json" % key)
    lock = open(os.path.join(WORK_ROOT, "lock"), "w")
    fcntl.flock(lock, fcntl.LOCK_EX)
    try:
        if os.path.exists(cache):
            with open(cache) as f:
                return json.load(f)
        # drop stale caches of the same tier (keep the cargo target dir, and the other tier's cache)
        for f in os.listdir(WORK_ROOT):
            if f.startswith("results-") and f != os.path.basename(cache) and ("-%s-" % tier) in f:
                os.remove(os.path.join(WORK_ROOT, f))
        res = _build_and_run(tier, seed, profiles)
        res["key"] = key
        with open(cache + ".tmp", "w") as f:
            json.dump(res, f)
        os.rename(cache + ".tmp", cache)
        return res
    finally:
        fcntl.flock(lock, fcntl.LOCK_UN)
        lock.close()


NCHUNK = 15

RUNNER_MAIN = HEADER[0] + """
fn main() {
    let args: Vec<String> = std::env::args().collect();
    let out = std::fs::File::create(&args[1]).expect("output file");
    let seed: u64 = args[2].parse().expect("seed");
    let thorough = args.len() > 3 && args[3] == "thorough";
    // focus mode: runner <out> <seed> <tier> <file with declaration names> <boost>
    let mut only = std::collections::HashSet::new();
    let mut boost = 0usize;
    if args.len() > 5 {
        for l in std::fs::read_to_string(&args[4]).expect("focus list").lines() { if !l.trim().is_empty() { only.insert(l.trim().to_string()); } }
        boost = args[5].parse().expect("boost");
    }
    // … [<file with lines `raw <hex>` / `val <hex>`: explicit inputs added to every probe set]
    let mut extra_raws = Vec::new();
    let mut extra_vals = Vec::new();
    if args.len() > 6 {
        for l in std::fs::read_to_string(&args[6]).expect("extra inputs").lines() {
            let w: Vec<&str> = l.split_whitespace().collect();
            if w.len() == 2 {
                if let Ok(x) = u128::from_str_radix(w[1].trim_start_matches("0x"), 16) {
                    if w[0] == "raw" { extra_raws.push(x); } else if w[0] == "val" { extra_vals.push(x); }
                }
            }
        }
    }
    std::panic::set_hook(Box::new(|_| {}));
    let mut o = support::Out { w: std::io::BufWriter::new(out), seed, tier_thorough: thorough, lines: 0, only, boost, extra_raws, extra_vals };
%s
    use std::io::Write;
    o.w.flush().unwrap();
    println!("lines={}", o.lines);
}
"""


def chunk_decls(decls):
    """c0: types other declarations refer to (all enums, nested inner bitfields); the rest round-robin by weight"""
    chunks = [[] for _ in range(NCHUNK + 1)]
    weights = [0] * (NCHUNK + 1)
    for d in decls:
        if d["kind"] == "bitenum" or "nested-inner" in d["classes"]:
            chunks[0].append(d)
        else:
            k = 1 + min(range(NCHUNK), key=lambda i: weights[1 + i])
            chunks[k].append(d)
            weights[k] += 3 + len(d["fields"])
    return chunks


def chunk_toml(i):
    t = crate_toml("c%d" % i)
    t += "support = { path = \"../support\" }\n"
    if i != 0:
        t += "c0 = { path = \"../c0\" }\n"
    return t


def decl_header(i):
    h = list(HEADER[1:])
    if i != 0:
        h.append("use c0::decls::*;")
    return h


def cargo_iterate(ws, cargo_args, sources, alive, what, max_iter=8, env=None, downgrade=None):
    """Runs cargo with `cargo_args`; on errors drops the declarations they belong to and retries.
    sources(alive) writes all files and returns ranges_by_file. Returns (alive, dropped{name:[msgs]}, unattributed, ok)"""
    dropped = {}
    unattributed = []
    retried_infra = False
    for it in range(max_iter):
        ranges_by_file = sources(alive)
        p = cargo(ws, cargo_args + ["--message-format=json", "--offline", "--keep-going"], env)
        if p.returncode == 0:
            return alive, dropped, [], True
        msgs = [m for m in parse_messages(p.stdout) if m.get("level") == "error"]
        bad = set()
        unattributed = []
        for m in msgs:
            who = attribute(m, ranges_by_file)
            if who:
                for n in who:
                    n0 = n.split("\x00")[0]
                    dropped.setdefault(n0, []).append(m.get("message", "")[:300])
                    bad.add(n0)
            elif not m.get("message", "").startswith("aborting due to"):
                unattributed.append([m.get("message", "")[:300], (m.get("rendered") or "")[:800]])
        if not bad:
            # no compiler error at all: cargo itself failed – typically a rustc killed for lack of memory while other jobs
            # were running. Retry (cargo resumes where it stopped) with fewer parallel rustc processes.
            if not unattributed and not retried_infra:
                retried_infra = True
                log(what, "failed without any compiler error; retrying with -j 4:", p.stderr[-300:].replace("\n", " "))
                p2 = cargo(ws, cargo_args + ["--message-format=json", "--offline", "--keep-going", "-j", "4"], env)
                if p2.returncode == 0:
                    return alive, dropped, [], True
                p = p2
            log(what, "failed without attributable errors", p.stderr[-1500:])
            return alive, dropped, unattributed or [["cargo failed", p.stderr[-1500:]]], False
        if downgrade is not None:
            # first give the declaration a second chance with a reduced run function (e.g. without const items)
            kept = set(n for n in bad if downgrade(n, dropped.get(n, [])))
            for n in kept:
                dropped.pop(n, None)
            bad = bad - kept
        alive = alive - bad
        log("%s iteration %d: dropped %d declarations, %d remain" % (what, it, len(bad), len(alive)))
    return alive, dropped, unattributed, False


def _build_and_run(tier, seed, profiles, decls_override=None):
    t_start = time.time()
    timing = {}
    ensure_driver()
    decls = decls_override if decls_override is not None else gen.generate(seed, tier)
    table = {d["name"]: d for d in decls}
    chunks = chunk_decls(decls)
    ws = os.path.join(WORK_ROOT, "ws")
    dump_dir = os.path.join(WORK_ROOT, "dumps")
    shutil.rmtree(dump_dir, ignore_errors=True)
    os.makedirs(dump_dir)
    members = ["support", "runner", "probes", "nostd", "sem"] + ["c%d" % i for i in range(NCHUNK + 1)]
    setup_workspace(ws, members)
    write(os.path.join(ws, "support", "Cargo.toml"),
          "[package]\nname = \"support\"\nversion = \"0.1.0\"\nedition = \"2021\"\n\n[dependencies]\narbitrary-int = { version = \"1.3.0\", default-features = false }\n")
    shutil.copy(os.path.join(VERIF, "harness", "static", "support.rs"), os.path.join(ws, "support", "src", "lib.rs")) if os.path.isdir(os.path.join(ws, "support", "src")) else None
    os.makedirs(os.path.join(ws, "support", "src"), exist_ok=True)
    shutil.copy(os.path.join(VERIF, "harness", "static", "support.rs"), os.path.join(ws, "support", "src", "lib.rs"))
    for i in range(NCHUNK + 1):
        write(os.path.join(ws, "c%d" % i, "Cargo.toml"), chunk_toml(i))
        write(os.path.join(ws, "c%d" % i, "src", "lib.rs"), HEADER[0] + "\npub mod decls;\npub mod gen;\n")
    write(os.path.join(ws, "runner", "Cargo.toml"),
          "[package]\nname = \"runner\"\nversion = \"0.1.0\"\nedition = \"2021\"\n\n[dependencies]\nsupport = { path = \"../support\" }\n" +
          "".join("c%d = { path = \"../c%d\" }\n" % (i, i) for i in range(NCHUNK + 1)))
    write(os.path.join(ws, "runner", "src", "main.rs"),
          RUNNER_MAIN % "\n".join("    c%d::gen::run_all(&mut o);" % i for i in range(NCHUNK + 1)))

    write(os.path.join(ws, "probes", "Cargo.toml"),
          "[package]\nname = \"probes\"\nversion = \"0.1.0\"\nedition = \"2021\"\n\n[dependencies]\narbitrary-int = { version = \"1.3.0\", default-features = false }\nsupport = { path = \"../support\" }\n" +
          "".join("c%d = { path = \"../c%d\" }\n" % (i, i) for i in range(NCHUNK + 1)))
    if not os.path.exists(os.path.join(ws, "probes", "src", "lib.rs")):
        write(os.path.join(ws, "probes", "src", "lib.rs"), "\n")
    write(os.path.join(ws, "nostd", "Cargo.toml"), crate_toml("nostd"))
    # semantics corpus (random expressions of the modelled operator fragment, see semgen.py)
    sem_exprs = semgen.generate(seed, int(os.environ.get("VERIF_SEM_EXPRS", "3000" if tier == "thorough" else "400")))
    write(os.path.join(ws, "sem", "Cargo.toml"),
          "[package]\nname = \"sem\"\nversion = \"0.1.0\"\nedition = \"2021\"\n\n[dependencies]\narbitrary-int = { version = \"1.3.0\", default-features = false }\n")
    write(os.path.join(ws, "sem", "src", "main.rs"), semgen.render_rust(sem_exprs))
    if not os.path.exists(os.path.join(ws, "nostd", "src", "lib.rs")):
        write(os.path.join(ws, "nostd", "src", "lib.rs"), "#![no_std]\n")

    surfaces = {}
    const_failed = {}

    def downgrade_const(name, errs):
        if name in const_failed:
            return False
        const_failed[name] = errs[:4]
        return True

    def write_sources(alive, with_gen):
        ranges_by_file = {}
        for i, ch in enumerate(chunks):
            ds = [d for d in ch if d["name"] in alive]
            text, ranges = render.render_decls(ds, decl_header(i))
            write(os.path.join(ws, "c%d" % i, "src", "decls.rs"), text)
            ranges_by_file["c%d/src/decls.rs" % i] = ranges
            lines = ["use crate::decls::*;", "use support;", "use arbitrary_int::*;"]
            if i != 0:
                lines += ["use c0::decls::*;", "use c0::gen::*;"]
            fn_ranges = {}
            if with_gen:
                lines.extend(render.render_support_impls(ds))
                for d in ds:
                    surf = set(x[1] for x in surfaces.get(d["name"], []))
                    start = len(lines) + 1
                    lines.extend(render.render_run_fn(d, table, surf, with_const=(d["name"] not in const_failed)))
                    fn_ranges[d["name"] + "\x00fn"] = (start, len(lines))
            lines.append("pub fn run_all(o: &mut support::Out) {")
            if with_gen:
                for d in ds:
                    lines.append("    if o.wants(\"%s\") && support::catch(|| run_%s(o)).is_none() { o.line(\"RUN-PANIC %s\"); }" % (d["name"], d["name"], d["name"]))
            lines.append("}")
            write(os.path.join(ws, "c%d" % i, "src", "gen.rs"), "\n".join(lines) + "\n")
            ranges_by_file["c%d/src/gen.rs" % i] = fn_ranges
        return ranges_by_file

    # ---- phase A: rustc's verdict per declaration (shared types first, then all chunks in parallel) --------
    t0 = time.time()
    env = {"BITBYBIT_VERIF_DUMP_DIR": dump_dir}
    alive = set(d["name"] for d in decls)
    alive, rej0, unattr0, ok0 = cargo_iterate(ws, ["check", "-p", "c0"], lambda a: write_sources(a, False), alive, "classify-c0", env=env)
    # declarations that use a rejected shared type cannot compile either; rustc will say so
    alive, rej1, unattr1, ok1 = cargo_iterate(ws, ["check"] + sum([["-p", "c%d" % i] for i in range(1, NCHUNK + 1)], []),
                                              lambda a: write_sources(a, False), alive, "classify", env=env)
    rejected = dict(rej0)
    rejected.update(rej1)
    accepted_set = set(alive) if (ok0 and ok1) else set()
    unattr = unattr0 + unattr1
    timing["classify_s"] = time.time() - t0
    log("rustc accepts %d of %d declarations" % (len(accepted_set), len(decls)))

    # ---- the same classification with the proc macro built by the release profile (no overflow checks in the macro) ----
    t0 = time.time()
    alive_r = set(d["name"] for d in decls)
    alive_r, _, _, okr0 = cargo_iterate(ws, ["check", "--release", "-p", "c0"], lambda a: write_sources(a, False), alive_r, "classify-release-c0", env=env)
    alive_r, _, _, okr1 = cargo_iterate(ws, ["check", "--release"] + sum([["-p", "c%d" % i] for i in range(1, NCHUNK + 1)], []),
                                        lambda a: write_sources(a, False), alive_r, "classify-release", env=env)
    accepted_release = set(alive_r) if (okr0 and okr1) else None
    # restore the sources of the dev classification
    write_sources(accepted_set, False)
    timing["classify_release_s"] = time.time() - t0

    # ---- surfaces from the dumps ---------------------------------------------------------------
    dump_texts = {}
    for d in decls:
        kind = "bitfield" if d["kind"] == "bitfield" else "bitenum"
        p = os.path.join(dump_dir, "%s.%s.rs" % (kind, d["name"]))
        if d["name"] in accepted_set and os.path.exists(p):
            with open(p) as f:
                dump_texts[d["name"]] = f.read()
            try:
                surfaces[d["name"]] = dumpparse.surface(dump_texts[d["name"]])
            except Exception as e:  # noqa
                surfaces[d["name"]] = []
    # builder type-state chain of the real expansion: (method, mask of the impl block, mask of the returned type)
    chains = {}
    for name, text in dump_texts.items():
        if table[name]["kind"] != "bitfield":
            continue
        try:
            ch = []
            for it in dumpparse.parse_dump(text):
                h = it.impl_header or []
                if len(h) >= 4 and h[0] == "Partial" + name and h[1] == "<":
                    prev = int(h[2], 0)
                    nxt = None
                    sig = it.sig
                    if "-" in sig:
                        k = len(sig) - 1 - sig[::-1].index("-")
                        tail = sig[k:]
                        if "<" in tail:
                            nxt = int(tail[tail.index("<") + 1], 0)
                    ch.append([it.name, prev, nxt])
            if ch:
                chains[name] = ch
        except Exception as e:  # noqa
            chains[name] = [["<parse failed: %s>" % e, 0, 0]]
    # token scan of the expansions: `unsafe`, and paths rooted outside core / arbitrary_int / the declaration itself
    token_scan = {}
    for name, text in dump_texts.items():
        d = table[name]
        # user-supplied identifiers (the base type as written, custom field types) are the user's own names
        allowed = {"core", "arbitrary_int", "Self", name, "Partial" + name, "Result", "Option", "Default", d.get("base", "")}
        # the primitive integer types are language items whose associated constants and functions live in core (`u8::MAX`,
        # `u32::BITS`): available under #![no_std], nothing outside core (a harmless rewrite of a mask used them: H36)
        allowed |= {"u8", "u16", "u32", "u64", "u128", "usize", "i8", "i16", "i32", "i64", "i128", "isize", "bool"}
        for f in d.get("fields", []):
            if f.get("custom"):
                allowed.add(f["custom"])
        bad = []
        try:
            for pth in dumpparse.paths(text):
                root = pth[1] if pth[0] == "" else pth[0]
                if root not in allowed:
                    bad.append("::".join(pth))
            token_scan[name] = {"unsafe": dumpparse.has_unsafe(text), "bad_paths": sorted(set(bad))[:10]}
        except Exception as e:  # noqa
            token_scan[name] = {"unsafe": False, "bad_paths": ["<scan failed: %s>" % e]}

    # ---- model verdicts ---------------------------------------------------------------------------
    proto = render.proto_decls(decls)
    out1 = run_driver(proto)
    model = {}
    for line in out1:
        ws_ = line.split(" ")
        if ws_[0] == "verdict":
            model.setdefault(ws_[1], {})["verdict"] = " ".join(ws_[2:])
        elif ws_[0] == "specverdict":
            model.setdefault(ws_[1], {})["spec"] = " ".join(ws_[2:])
        elif ws_[0] == "surface":
            model.setdefault(ws_[1], {})["surface"] = [x.split(":") for x in ws_[2:] if x]
        elif ws_[0] == "builder":
            model.setdefault(ws_[1], {})["builder"] = " ".join(ws_[2:])
        elif ws_[0] == "debugimpl":
            model.setdefault(ws_[1], {})["debugimpl"] = ws_[2:]
        elif ws_[0] == "enumarms":
            model.setdefault(ws_[1], {})["enumarms"] = ws_[2:]
        elif ws_[0] == "body":
            model.setdefault(ws_[1], {}).setdefault("bodies", {})[ws_[2]] = " ".join(ws_[3:])
        elif ws_[0].startswith("bad-"):
            model.setdefault("_bad", {}).setdefault("lines", []).append(line)

    # ---- AST comparison: the bodies of the real expansion, translated, against the bodies the model generates ----------
    ast = {"equal": 0, "differ": [], "untranslatable": [], "compared_decls": 0}
    nf_all = os.environ.get("VERIF_NF_ALL", "1") == "1"
    nf_todo = []          # (declaration, item, full S-expression of the emitted body, was AST-equal)
    for name, text in dump_texts.items():
        d = table[name]
        mb = model.get(name, {}).get("bodies")
        if d["kind"] != "bitfield" or not mb:
            continue
        ast["compared_decls"] += 1
        try:
            items = dumpparse.parse_dump(text)
        except Exception as e:  # noqa
            ast["untranslatable"].append([name, "*", "dump parse failed: %s" % e])
            continue
        real = {}
        for it in items:
            if it.kind == "fn" and it.impl_header == [name]:
                try:
                    real[it.name] = rustexpr.body_sexpr(it.body)
                except Exception as e:  # noqa
                    real[it.name] = "(opaque parse-error %s)" % str(e).replace("(", "[").replace(")", "]")
        # a `set_x` that forwards to `with_x` with its own parameters has `with_x`'s body
        for k2 in list(real):
            mfw = re.match(r"^\(forward (with_\S+)\)$", real[k2])
            if mfw:
                real[k2] = real.get(mfw.group(1), "(opaque forward to a missing method)") if k2 == "set_" + mfw.group(1)[5:] else "(opaque forward to another field)"
        for item, msx in mb.items():
            key = item[2:] if item.startswith("r#") else item
            rsx = real.get(key)
            if rsx is None:
                ast["differ"].append([name, item, "<missing in the expansion>", msx[:300]])
            elif "(opaque" in rsx:
                ast["untranslatable"].append([name, item, rsx[:300]])
            elif rustexpr.compare(rsx, msx):
                ast["equal"] += 1
                if nf_all:
                    nf_todo.append((name, item, rsx, True))
            else:
                ast["differ"].append([name, item, rsx[:600], msx[:600]])
                nf_todo.append((name, item, rsx, False))

    # ---- translation validation by normal form (Lean: Nf.bodiesEquiv, proved sound in Symbolic/NfSound.lean) ----------
    # Bodies that are not syntactically the model's are normalised together with the model's body; `equal` means they
    # evaluate alike for every raw value, written value, index and both profiles (theorem bodiesEquiv_sound), so the
    # accessor theorems hold for the emitted body (Props/TV.lean). Such a body is taken out of the `differ` list; it is
    # additionally evaluated on every probe operation (`A` results, compared with the real results by the driver).
    nf = {"asked": len(nf_todo), "equal": 0, "differ": [], "unknown": [], "untranslatable": [], "equal_items": [],
          "all_bodies": nf_all, "ast_equal_but_not_nf_equal": []}
    nf_lines = []
    if nf_todo:
        def flat(sx):
            return " ".join(rustexpr.normalise(sx).split())
        nf_lines = ["%s %s %s %s" % ("nfcmp" if eq else "nfcmpx", n, it, flat(sx)) for (n, it, sx, eq) in nf_todo]
        was_equal = {(n, it): eq for (n, it, _, eq) in nf_todo}
        nf_terms = {}
        # a few normal forms written out for the evidence (getter and setter of range-list / array fields)
        show_lines = []
        for (n, it, _, _) in nf_todo:
            dd = table.get(n)
            if dd and it not in ("raw_value", "new_with_raw_value") and dd["base"] in ("u16", "u24", "u32") and \
                    any(c in dd["classes"] for c in ("range-lists", "arrays", "signed")) and len(show_lines) < 6 and \
                    sum(1 for l in show_lines if l.startswith("nfshow %s " % n)) < 2:
                show_lines.append("nfshow %s %s %s" % (n, it, "1" if any(f.get("count") for f in dd["fields"] if f["name"] == it or it.endswith("_" + f["name"])) else "-"))
        nf["samples"] = []
        for line in run_driver(proto + nf_lines + show_lines):
            w = line.split(" ")
            if w[0] == "nfshown":
                nf["samples"].append(line[len("nfshown "):][:1200])
                continue
            if w[0] == "nfterm":
                nf_terms.setdefault(" ".join(w[3:]), (w[1], w[2]))
                continue
            if w[0] == "nfwitness":
                nf.setdefault("witnesses", []).append(w[1:])
                continue
            if w[0] != "nfres":
                continue
            key = (w[1], w[2])
            verdict = w[3]
            if verdict == "equal":
                nf["equal"] += 1
                if not was_equal.get(key):
                    nf["equal_items"].append([w[1], w[2]])
            else:
                nf.setdefault(verdict, []).append([w[1], w[2]])
                if was_equal.get(key) and verdict in ("differ", "untranslatable", "noitem", "nodecl"):
                    nf["ast_equal_but_not_nf_equal"].append([w[1], w[2], verdict])
        validated = {(a, b) for a, b in nf["equal_items"]}
        ast["nf_validated"] = [x for x in ast["differ"] if (x[0], x[1]) in validated][:300]
        ast["differ"] = [x for x in ast["differ"] if (x[0], x[1]) not in validated]
        # only the bodies that differ syntactically are registered for the `A` evaluation of the operations
        nf_lines = ["nfcmp" + l[len("nfcmpx"):] for l, (n, it, _, eq) in zip(nf_lines, nf_todo) if not eq]
        # the kernel re-checks the compiled driver's `equal` answers (distinct claims, capped): `decide +kernel`
        cap = int(os.environ.get("VERIF_NF_KERNEL", "400" if tier == "thorough" else "48"))
        claims = list(nf_terms.items())
        # spread the sample over the declarations
        claims.sort(key=lambda kv: zlib.crc32(kv[0].encode()))
        claims = claims[:cap]
        nf["kernel_claims_total"] = len(nf_terms)
        nf["kernel_checked"] = 0
        nf["kernel_failed"] = []
        if claims:
            t0 = time.time()
            src = ["import BitbybitModel.Symbolic.Nf", "open Bb Bb.Nf", "set_option maxRecDepth 100000"]
            for i, (claim, (dn, it)) in enumerate(claims):
                src.append("-- %s %s" % (dn, it))
                src.append("theorem claim_%d : %s := by decide +kernel" % (i, claim))
            kpath = os.path.join(WORK_ROOT, "NfKernel.lean")
            write(kpath, "\n".join(src) + "\n")
            kp = subprocess.run(["lake", "env", "lean", kpath], cwd=LEAN_DIR, stdout=subprocess.PIPE, stderr=subprocess.STDOUT, text=True)
            log("kernel re-check of %d validated bodies rc=%d %.1fs" % (len(claims), kp.returncode, time.time() - t0))
            if kp.returncode == 0:
                nf["kernel_checked"] = len(claims)
            else:
                bad = sorted({int(m) for m in re.findall(r"NfKernel\.lean:(\d+):", kp.stdout)})
                nf["kernel_failed"] = [[claims[(ln - 4) // 2][1][0], claims[(ln - 4) // 2][1][1]] for ln in bad if 0 <= (ln - 4) // 2 < len(claims)][:20] or [["?", kp.stdout[-300:]]]
    ast["nf"] = {k: (v if not isinstance(v, list) else v[:300]) for k, v in nf.items()}
    ast["nf"]["validated_count"] = len(nf["equal_items"])
    ast["differ_count"] = len(ast["differ"])
    ast["untranslatable_count"] = len(ast["untranslatable"])
    ast["differ"] = ast["differ"][:300]
    ast["untranslatable"] = ast["untranslatable"][:100]

    # ---- structural comparison of the non-expression parts: Debug impl, builder, enum conversions ----------------------
    struct_cmp = {"equal": 0, "differ": []}
    for name, text in dump_texts.items():
        d = table[name]
        m = model.get(name, {})
        try:
            items = dumpparse.parse_dump(text)
        except Exception as e:  # noqa
            struct_cmp["differ"].append([name, "dump", "parse failed: %s" % e, ""])
            continue
        def cmp(what, real_fn, want):
            try:
                real = real_fn()
            except ValueError as e:
                struct_cmp["differ"].append([name, what, "unexpected shape: %s" % e, json.dumps(want)[:300]])
                return
            if json.loads(json.dumps(real)) == json.loads(json.dumps(want)):
                struct_cmp["equal"] += 1
            else:
                struct_cmp["differ"].append([name, what, json.dumps(real)[:500], json.dumps(want)[:500]])
        if d["kind"] == "bitfield" and "debugimpl" in m:
            di = m["debugimpl"]
            want = None if di == ["-"] else [di[0], [render.ident_noraw(x) for x in di[1:] if x]]
            cmp("debug", lambda: (lambda r: None if r is None else [r[0], [render.ident_noraw(x) for x in r[1]]])(structure.debug_impl(items, name)), want)
            mb = m.get("builder", "none")
            if mb == "none":
                want_b = None
            else:
                steps = []
                for w in mb.split(" ")[1:]:
                    if w and not w.startswith("final="):
                        fn = w.rsplit(":", 2)[0]
                        fdef = next((x for x in d["fields"] if x["name"] == fn), None)
                        steps.append(["with_" + render.ident_noraw(fn), fdef["count"] if fdef else None])
                want_b = {"start": "DEFAULT" if d["default"] else "zero", "steps": steps, "build": True}
            cmp("builder", lambda: structure.builder_desc(items, name), want_b)
            N = render.base_width(d)
            dflt = d["default"]
            want_c = {"zero": 0, "default": None if not dflt else (["lit", dflt["value"]] if dflt["form"] == "lit" else ["const", dflt.get("const_name") or "C_%s" % name.upper()])}
            cmp("consts", lambda: structure.consts_desc(items, name, d["base"], N not in gen.NATIVE), want_c)
        if d["kind"] == "bitenum" and "enumarms" in m:
            ea = m["enumarms"]
            kvs = dict(x.split("=") for x in ea if "=" in x)
            arms = []
            for x in ea:
                if "=" not in x and x.count(":") == 2:
                    vn, dv, cf = x.split(":")
                    arms.append([int(dv), vn, cf == "1"])
            raw = ["uint", kvs["base"], int(kvs["size"])] if kvs["arb"] == "1" else ["native", kvs["base"]]
            want_e = {"raw": raw, "reader": kvs["arb"] == "1", "nonexh": kvs["nonexh"] == "1", "arms": arms}
            cmp("enum", lambda: structure.enum_desc(items, name), want_e)
    struct_cmp["differ_count"] = len(struct_cmp["differ"])
    struct_cmp["differ"] = struct_cmp["differ"][:200]

    # ---- phase C: runner ----------------------------------------------------------------------------
    t0 = time.time()
    ops = {}
    runner_fail = None
    run_alive = set(accepted_set)
    run_dropped = {}
    run_unattr = []
    for prof in profiles:
        args = ["build", "-p", "runner"] + (["--release"] if prof == "release" else [])
        run_alive, dropped, run_unattr, ok = cargo_iterate(ws, args, lambda a: write_sources(a, True), run_alive, "runner-" + prof,
                                                           downgrade=downgrade_const)
        run_dropped.update(dropped)
        if not ok:
            runner_fail = "runner build failed (%s)" % prof
            break
        exe = os.path.join(ws, "target", "release" if prof == "release" else "debug", "runner")
        out_path = os.path.join(WORK_ROOT, "ops-%s.txt" % prof)
        t1 = time.time()
        rp = subprocess.run([exe, out_path, str(seed), tier], stdout=subprocess.PIPE, stderr=subprocess.PIPE, text=True)
        log("runner %s rc=%d %.1fs %s" % (prof, rp.returncode, time.time() - t1, rp.stdout.strip()))
        if rp.returncode != 0:
            runner_fail = "runner exited with %d: %s" % (rp.returncode, rp.stderr[-2000:])
            break
        ops[prof] = out_path
    timing["runner_s"] = time.time() - t0

    # ---- semantics corpus: `eval` (both profiles) against rustc on random expressions ----------------------------------
    t0 = time.time()
    sem_res = {"exprs": len(sem_exprs), "ops": {}, "mismatches": [], "bad": [], "fail": None, "panics": {}}
    for prof in profiles:
        p = cargo(ws, ["build", "-p", "sem", "--offline"] + (["--release"] if prof == "release" else []))
        if p.returncode != 0:
            sem_res["fail"] = "sem build failed (%s): %s" % (prof, p.stderr[-1500:])
            break
        exe = os.path.join(ws, "target", "release" if prof == "release" else "debug", "sem")
        sem_out = os.path.join(WORK_ROOT, "sem-%s.txt" % prof)
        rp = subprocess.run([exe, sem_out], stdout=subprocess.PIPE, stderr=subprocess.PIPE, text=True)
        if rp.returncode != 0:
            sem_res["fail"] = "sem runner exited with %d: %s" % (rp.returncode, rp.stderr[-800:])
            break
        with open(sem_out) as f:
            sem_ops = f.read().splitlines()
        out = run_driver(semgen.proto_lines(sem_exprs) + ["profile chk=%d" % (1 if prof == "dev" else 0)] + sem_ops + ["stats"])
        sem_res["ops"][prof] = len(sem_ops)
        sem_res["panics"][prof] = sum(1 for l in sem_ops if l.endswith("= panic"))
        sem_res["mismatches"] += [prof + " " + l for l in out if l.startswith("mismatch X")][:40]
        sem_res["bad"] += [l[:300] for l in out if l.startswith("bad-sem")][:20]
        m = re.search(r"sem=(\d+) misSem=(\d+)", out[-1] if out else "")
        sem_res.setdefault("evaluated", {})[prof] = int(m.group(1)) if m else 0
    timing["sem_s"] = time.time() - t0
    log("semantics corpus: %s" % json.dumps({k: v for k, v in sem_res.items() if k not in ("mismatches", "bad")}))

    # ---- compile-time probes: access surface (C17), builder type-state (C14) ----------------------------------------
    t0 = time.time()
    probes_res = {"list": [], "fail": None}
    if runner_fail is None:
        plines, probes = render.render_probes([table[n] for n in sorted(run_alive, key=lambda x: [d["name"] for d in decls].index(x))], table, surfaces)
        head = plines[:2] + sum([["use c%d::decls::*;" % i, "use c%d::gen::*;" % i] for i in range(NCHUNK + 1)], [])
        shift = len(head) - 2
        write(os.path.join(ws, "probes", "src", "lib.rs"), "\n".join(head + plines[2:]) + "\n")
        p = cargo(ws, ["check", "-p", "probes", "--message-format=json", "--offline"])
        msgs = [m for m in parse_messages(p.stdout) if m.get("level") == "error"]
        by_line = {}
        stray = []
        for m in msgs:
            hit = False
            for sp in m.get("spans", []):
                for (fn, a, b) in span_locs(sp):
                    if fn.endswith("probes/src/lib.rs"):
                        by_line.setdefault(a, []).append(m.get("message", "")[:200])
                        hit = True
            if not hit and not m.get("message", "").startswith("aborting"):
                stray.append(m.get("message", "")[:300])
        for pr in probes:
            lo = pr["lines"][0] + shift
            errs = by_line.get(lo, [])
            probes_res["list"].append({"decl": pr["decl"], "what": pr["what"], "expect": pr["expect"], "got": "err" if errs else "ok", "errors": errs[:2]})
        if stray:
            probes_res["fail"] = stray[:3]
        if p.returncode != 0 and not msgs:
            probes_res["fail"] = [p.stderr[-800:]]
    timing["probes_s"] = time.time() - t0

    # ---- #![no_std] #![deny(missing_docs)] crate with the documented declarations (C18) --------------------------------
    t0 = time.time()
    doc_decls = [d for d in decls if "docs" in d["classes"] and d["name"] in accepted_set]
    nostd_res = {"decls": len(doc_decls), "rejected": {}, "fail": None}
    if doc_decls:
        def nostd_sources(alive_names):
            ds = [d for d in doc_decls if d["name"] in alive_names]
            text, ranges = render.render_decls(ds, ["#![no_std]", "#![deny(missing_docs)]", "//! documented declarations compiled without std",
                                                    "#![allow(dead_code, unused_imports)]", "use bitbybit::{bitenum, bitfield};", "use arbitrary_int::*;"])
            write(os.path.join(ws, "nostd", "src", "lib.rs"), text)
            return {"nostd/src/lib.rs": ranges}
        alive_doc, rej_doc, unattr_doc, ok_doc = cargo_iterate(ws, ["check", "-p", "nostd"], nostd_sources, set(d["name"] for d in doc_decls), "nostd")
        nostd_res["rejected"] = rej_doc
        if not ok_doc:
            nostd_res["fail"] = unattr_doc[:3] or ["cargo check -p nostd failed"]
    timing["nostd_s"] = time.time() - t0

    # ---- phase D: driver on the operations -----------------------------------------------------------
    t0 = time.time()
    mismatches = {}
    stats = {}
    flags = {}
    op_counts = {}
    const_ok = 0
    first_text = None
    first_prof = None
    for prof, path in ops.items():
        with open(path) as f:
            text = f.read()
        if first_text is not None and text == first_text:
            # identical trace: the driver's verdict on the first profile applies verbatim
            mismatches[prof] = mismatches[first_prof]
            stats[prof] = stats[first_prof] + " (trace identical to %s)" % first_prof
            flags[prof] = flags[first_prof]
            op_counts[prof] = op_counts[first_prof]
            continue
        if first_text is None:
            first_text, first_prof = text, prof
        op_lines = text.splitlines()
        # flag lines (everything that is not an operation): at most 200 per kind, so that one kind cannot crowd out another
        per_tag = collections.Counter()
        flags[prof] = []
        for l in op_lines:
            if l.startswith("op ") or l.startswith("CONST-OK"):
                continue
            tg = l.split(" ", 1)[0]
            per_tag[tg] += 1
            if per_tag[tg] <= 200:
                flags[prof].append(l)
        const_ok = sum(1 for l in op_lines if l.startswith("CONST-OK"))
        out, stat_line = run_driver_sharded(proto + nf_lines, 1 if prof == "dev" else 0, [l for l in op_lines if l.startswith("op ")])
        mismatches[prof] = pick_mismatches(out, 5000)
        stats[prof] = stat_line
        cnt = {}
        for l in op_lines:
            if l.startswith("op "):
                w = l.split(" ", 3)
                c = cnt.setdefault(w[1], {})
                c[w[2]] = c.get(w[2], 0) + 1
        op_counts[prof] = cnt
    timing["driver_s"] = time.time() - t0

    # ---- focus pass: search for a failing input where the correspondence is broken ----------------------------------
    # Declarations whose emitted bodies / structure differ from the model's, or on which the model disagreed with the real
    # code, are re-run with many more random inputs (same binary, no rebuild); the driver then compares the real results
    # with the reference semantics. A disagreement found here is a concrete failing input on the real code.
    t0 = time.time()
    focus = {"declarations": [], "ops": 0, "mismatches": []}
    suspects = []
    for x in ast.get("differ", []) + ast.get("untranslatable", []) + struct_cmp.get("differ", []):
        if x[0] not in suspects:
            suspects.append(x[0])
    for prof in mismatches:
        for l in mismatches[prof]:
            m = re.search(r":: op (\S+) ", l)
            if m and m.group(1) not in suspects:
                suspects.append(m.group(1))
    suspects = [n for n in suspects if n in run_alive][:24]
    if suspects and "dev" in ops:
        exe = os.path.join(ws, "target", "debug", "runner")
        lst = os.path.join(WORK_ROOT, "focus.txt")
        write(lst, "\n".join(suspects) + "\n")
        out_path = os.path.join(WORK_ROOT, "ops-focus.txt")
        boost = 4000 if tier == "thorough" else 600
        # distinguishing inputs proposed by the normaliser for bodies whose normal form differs from the model's
        extra = os.path.join(WORK_ROOT, "focus-extra.txt")
        ex_lines = []
        for wt in ast.get("nf", {}).get("witnesses", []):
            if wt[0] in suspects:
                for kv in wt[2:]:
                    if kv.startswith("raw="):
                        ex_lines.append("raw " + kv[4:])
                    elif kv.startswith("val="):
                        ex_lines.append("val " + kv[4:])
        ex_lines = sorted(set(ex_lines))[:400]
        write(extra, "\n".join(ex_lines) + "\n")
        focus["proposed_inputs"] = len(ex_lines)
        rp = subprocess.run([exe, out_path, str(seed + 1), tier, lst, str(boost), extra], stdout=subprocess.PIPE, stderr=subprocess.PIPE, text=True)
        log("focus runner rc=%d %s on %d declarations" % (rp.returncode, rp.stdout.strip(), len(suspects)))
        if rp.returncode == 0:
            with open(out_path) as f:
                op_lines = [l for l in f.read().splitlines() if l.startswith("op ")]
            out = run_driver(proto + nf_lines + ["profile chk=1"] + op_lines + ["stats"])
            focus = {"declarations": suspects, "ops": len(op_lines), "proposed_inputs": focus.get("proposed_inputs", 0),
                     "mismatches": pick_mismatches(out, 1000)}
    timing["focus_s"] = time.time() - t0

    return {
        "tier": tier, "seed": seed, "profiles": list(profiles),
        "decls": decls,
        "rustc_accepted": sorted(accepted_set),
        "rustc_rejected": rejected,
        "rustc_accepted_release": None if accepted_release is None else sorted(accepted_release),
        "unattributed": unattr,
        "surfaces": {k: [list(x) for x in v] for k, v in surfaces.items()},
        "token_scan": token_scan,
        "chains": chains,
        "ast": ast,
        "struct_cmp": struct_cmp,
        "focus": focus,
        "const_failed": const_failed,
        "probes": probes_res,
        "semantics": sem_res,
        "const_ok": const_ok,
        "nostd": nostd_res,
        "model": model,
        "runner_dropped": run_dropped,
        "runner_unattributed": run_unattr,
        "runner_fail": runner_fail,
        "ops_files": ops,
        "mismatches": mismatches,
        "stats": stats,
        "flags": flags,
        "op_counts": op_counts,
        "timing": timing,
        "wall_s": time.time() - t_start,
    }


if __name__ == "__main__":
    tier = sys.argv[1] if len(sys.argv) > 1 else "quick"
    seed = int(sys.argv[2]) if len(sys.argv) > 2 else 1
    profs = tuple(sys.argv[3].split("+")) if len(sys.argv) > 3 else ("dev",)
    r = build_and_run(tier, seed, profs)
    print(json.dumps({k: v for k, v in r.items() if k in ("stats", "runner_fail", "unattributed", "runner_unattributed", "wall_s", "timing", "runner_dropped")}, indent=1))
    t = {d["name"]: d for d in r["decls"]}
    acc = set(r["rustc_accepted"])
    print("valid but rejected:", [(n, r["rustc_rejected"][n][:1]) for n in r["rustc_rejected"] if t[n]["expect"] == "valid"][:10])
    print("invalid but accepted:", [(n, t[n]["rule"]) for n in acc if t[n]["expect"] == "invalid"])
    dis = [n for n in t if (n in acc) != (r["model"].get(n, {}).get("verdict", "") == "accept")]
    print("model vs rustc disagreements:", [(n, t[n]["rule"], r["model"].get(n, {}).get("verdict")) for n in dis][:20])
    for prof, mm in r["mismatches"].items():
        print(prof, "mismatches:", len(mm))
        for l in mm[:20]:
            print("   ", l[:300])
    for prof, fl in r["flags"].items():
        print(prof, "flags:", fl[:10])
