"""Rendering of corpus declarations: Rust source, runner functions, Lean-driver protocol lines."""
from gen import storage_of, NATIVE

# ---------------------------------------------------------------------------------------------
# Rust source of declarations
# ---------------------------------------------------------------------------------------------


def base_width(d):
    b = d["base"]
    if b.startswith("u") and b[1:].isdigit():
        return int(b[1:])
    return None


def is_native(n):
    return n in NATIVE


def lit_for(value, width):
    """a Rust expression of type u{width} (native or arbitrary) with the given value"""
    if is_native(width):
        return "%d" % value
    return "arbitrary_int::u%d::new(%d)" % (width, value)


def render_enum(d):
    lines = []
    if d.get("docs"):
        lines.append("/// documented enum")
    args = []
    bits_arg = d["bits"]
    exh_arg = None
    if d["exh"] is not None:
        if d["sep"] is None:
            exh_arg = "exhaustive %s" % d["exh"]
        elif d["sep"] == "=":
            exh_arg = "exhaustive = %s" % d["exh"]
        else:
            exh_arg = "exhaustive: %s" % d["exh"]
    parts = [bits_arg, exh_arg] if d["order"] == "be" else [exh_arg, bits_arg]
    parts = [p for p in parts if p is not None]
    lines.append("#[bitenum(%s)]" % ", ".join(parts))
    lines.append("#[derive(Debug, PartialEq, Eq)]")
    if d["repr"]:
        lines.append("#[repr(%s)]" % d["repr"])
    lines.append("pub enum %s {" % d["name"])
    for v in d["variants"]:
        if d.get("docs"):
            lines.append("    /// documented variant")
        if v["cfg"] == "on":
            lines.append("    #[cfg(all())]")
        elif v["cfg"] == "off":
            lines.append("    #[cfg(any())]")
        if v["discr"] is None:
            lines.append("    %s," % v["name"])
        else:
            lines.append("    %s = %s," % (v["name"], v["discr"]))
    lines.append("}")
    return lines


def field_ty_text(f):
    if f["count"] is not None:
        return "[%s; %d]" % (f["ty"], f["count"])
    return f["ty"]


def decl_args_text(d):
    """the argument list of #[bitfield(…)] as written (None: the attribute has no parentheses at all)"""
    if "args_text" in d:
        return d["args_text"]
    dflt = d["default"]
    args = [d["base"]]
    if dflt:
        val = ("C_%s" % d["name"].upper()) if dflt["form"] == "const" else ("%d" % dflt["value"])
        args.append("default %s %s" % ("=", val) if dflt["syntax"] == "=" else "default: %s" % val)
    if d["debug"]:
        args.append("debug")
    return ", ".join(args)


def decl_consts(d):
    """named constants a declaration's argument list refers to: [(name, value)]"""
    out = []
    dflt = d["default"]
    if dflt and dflt["form"] == "const":
        out.append((dflt.get("const_name") or "C_%s" % d["name"].upper(), dflt["value"]))
    out.extend(d.get("extra_consts", []))
    return out


def render_bitfield(d):
    lines = []
    N = base_width(d)
    for cname, cval in decl_consts(d):
        # for an arbitrary-int base the macro wraps the constant in `uN::new(…)`: it has the storage type
        if d.get("docs"):
            lines.append("/// default value")
        lines.append("pub const %s: u%d = %d;" % (cname, storage_of(N) if N else 8, cval))
    if d.get("docs"):
        lines.append("/// documented bitfield")
    at = decl_args_text(d)
    lines.append("#[bitfield]" if at is None else "#[bitfield(%s)]" % at)
    lines.append("pub %s %s {" % (d.get("item", "struct"), d["name"]))
    for f in d["fields"]:
        for k in range(f["ndocs"]):
            lines.append("    /// documented field %s (%d)" % (f["name"].replace("#", ""), k))
        for a in f["attrs"]:
            lines.append("    #[%s]" % a)
        if d.get("item", "struct") == "enum":
            lines.append("    %s," % f["name"])
        else:
            lines.append("    %s: %s," % (f["name"], field_ty_text(f)))
    lines.append("}")
    return lines


def render_decls(decls, header):
    """returns (text, {name: (first_line, last_line)}) with 1-based line numbers"""
    out = list(header)
    ranges = {}
    for d in decls:
        start = len(out) + 1
        out.extend(render_enum(d) if d["kind"] == "bitenum" else render_bitfield(d))
        ranges[d["name"]] = (start, len(out))
        out.append("")
    return "\n".join(out) + "\n", ranges


# ---------------------------------------------------------------------------------------------
# Lean driver protocol
# ---------------------------------------------------------------------------------------------

def proto_enum(d):
    lines = []
    bits = d["bits"] if d["bits"] is not None else "none"
    exh = d["exh"] if d["exh"] is not None else "none"
    lines.append("enum %s bits=%s ident=%d exh=%s sep=%d order=%s" % (
        d["name"], bits, 1 if d["ident"] else 0, exh, 0 if d["sep"] is None else 1, d["order"]))
    for v in d["variants"]:
        if v["discr"] is None:
            dv = "missing"
        elif not v["lit"]:
            dv = "nonlit"
        else:
            dv = "lit:%d" % v["value"]
        lines.append("var %s %s %s" % (v["name"], dv, v["cfg"] or "none"))
    lines.append("endenum")
    return lines


def proto_bitfield(d):
    lines = []
    at = decl_args_text(d)
    consts = ",".join("%s:%d" % cv for cv in decl_consts(d))
    lines.append("decl %s struct=%d consts=%s :: %s" % (d["name"], 0 if d.get("item", "struct") != "struct" else 1, consts or "-", at or ""))
    for f in d["fields"]:
        lines.append("field %s %s %s %d %s" % (f["name"], f["ty"].replace(" ", ""), "-" if f["count"] is None else str(f["count"]),
                                               f["ndocs"], " ## ".join(f["attrs"])))
        if f.get("spec") is not None and d.get("wellformed", True):
            sp = f["spec"]
            lines.append("fspec %s kind=%s width=%d count=%s ranges=%s list=%d stride=%s access=%s attr=%s" % (
                f["name"], f["kind"], f["width"], "-" if f["count"] is None else str(f["count"]),
                ",".join("%d:%d" % (lo, hi) for lo, hi in sp["ranges"]), 1 if sp["list"] else 0,
                "-" if sp["stride"] is None else str(sp["stride"]), f["access"] or "none", sp["attr"]))
    lines.append("enddecl")
    return lines


def proto_decls(decls):
    out = []
    for d in decls:
        out.extend(proto_enum(d) if d["kind"] == "bitenum" else proto_bitfield(d))
    return out


# ---------------------------------------------------------------------------------------------
# runner
# ---------------------------------------------------------------------------------------------

def native_of(n):
    return "u%d" % storage_of(n)


def mk_expr(width, var):
    """Rust expression building a value of type u{width} from the u128 pattern in `var`"""
    if is_native(width):
        return "(%s as u%d)" % (var, width)
    return "arbitrary_int::u%d::new(%s as %s)" % (width, var, native_of(width))


def unmk_expr(width, expr):
    """u128 from a value of type u{width}"""
    if is_native(width):
        return "(%s as u128)" % expr
    return "(%s.value() as u128)" % expr


def active_variants(e):
    return [v for v in e["variants"] if v["cfg"] != "off"]


def conv_expr(f, table, var="v"):
    """Rust expression of the field's value type built from the u128 pattern `var`"""
    k = f["kind"]
    w = f["width"]
    if k == "bool":
        return "(%s & 1 != 0)" % var
    if k == "native":
        return "(%s as u%d)" % (var, w)
    if k == "signed":
        return "(%s as i%d)" % (var, w)
    if k == "arb":
        return "arbitrary_int::u%d::new(%s as %s)" % (w, var, native_of(w))
    if k in ("enum", "optenum"):
        return "ALL_%s[(%s as usize) %% ALL_%s.len()]" % (f["custom"].upper(), var, f["custom"].upper())
    if k == "nested":
        inner = table[f["custom"]]
        return "%s::new_with_raw_value(%s)" % (f["custom"], mk_expr(base_width(inner), var))
    raise ValueError(k)


def vals_call(f, table):
    k = f["kind"]
    if k in ("enum", "optenum"):
        n = len(active_variants(table[f["custom"]]))
        return "support::small_range(%d)" % n
    if k == "bool":
        return "support::small_range(2)"
    return "support::vals(%d, o)" % f["width"]


def ident_noraw(name):
    return name[2:] if name.startswith("r#") else name


def render_support_impls(decls):
    """Show impls and variant tables for the custom types"""
    out = []
    for d in decls:
        if d["kind"] == "bitenum":
            av = active_variants(d)
            out.append("impl support::Show for %s { fn show(&self) -> String { match self { %s }.to_string() } }" % (
                d["name"], ", ".join("%s::%s => \"%s\"" % (d["name"], v["name"], v["name"]) for v in av)))
            out.append("impl Clone for %s { fn clone(&self) -> Self { *self } }" % d["name"] if False else "")
            out.append("pub const ALL_%s: &[%s] = &[%s];" % (d["name"].upper(), d["name"], ", ".join("%s::%s" % (d["name"], v["name"]) for v in av)))
        else:
            N = base_width(d)
            out.append("impl support::Show for %s { fn show(&self) -> String { format!(\"{:#x}\", %s) } }" % (
                d["name"], unmk_expr(N, "self.raw_value()")))
    return [l for l in out if l]


def render_run_fn(d, table, surface, with_const=True):
    """The runner function of one accepted declaration. `surface`: set of method names the real expansion
    contains (from the dump); only those are called."""
    name = d["name"]
    L = []
    L.append("pub fn run_%s(o: &mut support::Out) {" % name)
    if d["kind"] == "bitenum":
        size = d["size"]
        av = active_variants(d)
        L.append("    let xs = support::enum_inputs(%d, o.seed, &[%s]);" % (size, ", ".join("%du128" % v["value"] for v in av)))
        L.append("    for &x in xs.iter() {")
        L.append("        let r = support::catch(|| %s::new_with_raw_value(%s));" % (name, mk_expr(size, "x")))
        L.append("        o.line(&format!(\"op %s enew {:#x} = {}\", x, support::res(r)));" % name)
        L.append("    }")
        L.append("    for &v in ALL_%s.iter() {" % name.upper())
        L.append("        let r = support::catch(|| %s);" % unmk_expr(size, "v.raw_value()"))
        L.append("        o.line(&format!(\"op %s eraw {} = {}\", support::Show::show(&v), support::res(r)));" % name)
        L.append("    }")
        if with_const:
            L.extend(render_const_items(d, table, surface))
        L.append("}")
        return L
    N = base_width(d)
    L.append("    let mk = |r: u128| %s::new_with_raw_value(%s);" % (name, mk_expr(N, "r")))
    L.append("    let rawof = |s: &%s| -> u128 { %s };" % (name, unmk_expr(N, "s.raw_value()")))
    L.append("    let stor = |s: &%s| -> u128 { support::storage::<%s, %s>(s) };" % (name, name, native_of(N)))
    # layout and Copy (C06): compiler-checked
    L.append("    const _: () = assert!(core::mem::size_of::<%s>() == core::mem::size_of::<%s>() && core::mem::align_of::<%s>() == core::mem::align_of::<%s>());" % (name, native_of(N), name, native_of(N)))
    L.append("    fn _is_copy<T: Copy>() {} _is_copy::<%s>();" % name)
    L.append("    let raws = support::raws(%d, o);" % N)
    L.append("    let wraws = support::wraws(%d, o);" % N)
    # raw round trip and constants
    L.append("    support::op_rt(o, \"%s\", &raws, &mk, &rawof);" % name)
    L.append("    o.line(&format!(\"op %s zero = {}\", support::res(support::catch(|| rawof(&%s::ZERO)))));" % (name, name))
    if d["default"]:
        L.append("    o.line(&format!(\"op %s default = {}\", support::res(support::catch(|| rawof(&%s::DEFAULT)))));" % (name, name))
        L.append("    o.line(&format!(\"op %s defaulttrait = {}\", support::res(support::catch(|| rawof(&<%s as Default>::default())))));" % (name, name))
        L.append("    #[allow(deprecated)] { o.line(&format!(\"op %s new = {}\", support::res(support::catch(|| rawof(&%s::new()))))); }" % (name, name))
    fields_for_hist = []
    for fi, f in enumerate(d["fields"]):
        fname = f["name"]
        nr = ident_noraw(fname)
        has_get = fname in surface or nr in surface
        has_with = ("with_" + nr) in surface
        has_set = ("set_" + nr) in surface
        K = f["count"]
        if has_get:
            if K is None:
                L.append("    support::op_get(o, \"%s\", \"%s\", None, &raws, &mk, &|s: &%s, _i: usize| s.%s());" % (name, fname, name, fname))
            else:
                L.append("    support::op_get(o, \"%s\", \"%s\", Some(%d), &raws, &mk, &|s: &%s, i: usize| s.%s(i));" % (name, fname, K, name, fname))
        if has_with and has_set:
            conv = conv_expr(f, table)
            L.append("    let vals_%d = %s;" % (fi, vals_call(f, table)))
            if K is None:
                L.append("    support::op_write(o, \"%s\", \"%s\", None, &wraws, &vals_%d, &mk, &rawof, &stor, &|v: u128| %s, &|s: &%s, _i: usize, v| s.with_%s(v), &|s: &mut %s, _i: usize, v| s.set_%s(v));" % (
                    name, fname, fi, conv, name, nr, name, nr))
            else:
                L.append("    support::op_write(o, \"%s\", \"%s\", Some(%d), &wraws, &vals_%d, &mk, &rawof, &stor, &|v: u128| %s, &|s: &%s, i: usize, v| s.with_%s(i, v), &|s: &mut %s, i: usize, v| s.set_%s(i, v));" % (
                    name, fname, K, fi, conv, name, nr, name, nr))
            fields_for_hist.append((fi, f))
    # histories
    if fields_for_hist:
        L.append("    let apply = |s: &mut %s, fi: usize, i: usize, v: u128, use_set: bool| -> String {" % name)
        L.append("        match fi {")
        for j, (fi, f) in enumerate(fields_for_hist):
            nr = ident_noraw(f["name"])
            conv = conv_expr(f, table)
            if f["count"] is None:
                L.append("            %d => { let x = %s; if use_set { s.set_%s(x) } else { *s = s.with_%s(x) }; support::Show::show(&x) }" % (j, conv, nr, nr))
            else:
                L.append("            %d => { let x = %s; if use_set { s.set_%s(i, x) } else { *s = s.with_%s(i, x) }; support::Show::show(&x) }" % (j, conv, nr, nr))
        L.append("            _ => unreachable!(),")
        L.append("        }")
        L.append("    };")
        L.append("    let getters = |s: &%s| -> Vec<String> {" % name)
        L.append("        let mut g: Vec<String> = Vec::new();")
        for f in d["fields"]:
            fname = f["name"]
            if fname in surface or ident_noraw(fname) in surface:
                if f["count"] is None:
                    L.append("        g.push(support::res(support::catch(|| s.%s())));" % fname)
                else:
                    L.append("        for i in 0..%d { g.push(support::res(support::catch(|| s.%s(i)))); }" % (f["count"], fname))
        L.append("        g")
        L.append("    };")
        infos = []
        for j, (fi, f) in enumerate(fields_for_hist):
            if f["kind"] in ("enum", "optenum"):
                vk = "support::VK::Small(%d)" % len(active_variants(table[f["custom"]]))
            elif f["kind"] == "bool":
                vk = "support::VK::Small(2)"
            else:
                vk = "support::VK::Bits(%d)" % f["width"]
            # read-back after a history: only fields with a getter whose range list names no bit twice
            sp = f.get("spec") or {}
            bits = [b for (lo, hi) in (sp.get("ranges") or []) for b in range(lo, hi + 1)]
            has_get = f["name"] in surface or ident_noraw(f["name"]) in surface
            rbk = "true" if (has_get and bits and len(bits) == len(set(bits))) else "false"
            infos.append("support::FI { name: \"%s\", count: %s, vk: %s, rb: %s }" % (f["name"], "None" if f["count"] is None else "Some(%d)" % f["count"], vk, rbk))
        L.append("    let readback = |s: &%s, fi: usize, i: usize| -> Option<String> {" % name)
        L.append("        let _ = i;")
        L.append("        match fi {")
        for j, (fi, f) in enumerate(fields_for_hist):
            fname = f["name"]
            if fname in surface or ident_noraw(fname) in surface:
                if f["count"] is None:
                    L.append("            %d => Some(support::res(support::catch(|| s.%s())))," % (j, fname))
                else:
                    L.append("            %d => Some(support::res(support::catch(|| s.%s(i))))," % (j, fname))
        L.append("            _ => None,")
        L.append("        }")
        L.append("    };")
        L.append("    support::op_hist(o, \"%s\", %d, &[%s], &mk, &rawof, &stor, &apply, &getters, &|s: &%s| mk(rawof(s)), &readback);" % (name, N, ", ".join(infos), name))
    # builder
    writable = [f for f in d["fields"] if ("with_" + ident_noraw(f["name"])) in surface]
    if "builder" in surface and "build" in surface and d.get("builder_ok", True):
        L.append("    for t in 0..support::build_trials(o) {")
        args_show = []
        chain = "%s::builder()" % name
        for j, f in enumerate(writable):
            conv_name = "c%d" % j
            if f["count"] is None:
                L.append("        let v%d = support::pick(%s.as_slice(), o.seed, %d, t); let %s = %s;" % (j, vals_call(f, table), j, conv_name, conv_expr(f, table, "v%d" % j)))
                args_show.append("support::Show::show(&%s)" % conv_name)
                chain += ".with_%s(%s)" % (ident_noraw(f["name"]), conv_name)
            else:
                K = f["count"]
                L.append("        let %s: [_; %d] = core::array::from_fn(|i| { let v = support::pick(%s.as_slice(), o.seed, %d * 1000 + i, t); %s });" % (
                    conv_name, K, vals_call(f, table), j, conv_expr(f, table, "v")))
                args_show.append("format!(\"[{}]\", %s.iter().map(|x| support::Show::show(x)).collect::<Vec<_>>().join(\";\"))" % conv_name)
                chain += ".with_%s(%s)" % (ident_noraw(f["name"]), conv_name)
        chain += ".build()"
        L.append("        let r = support::catch(|| rawof(&%s));" % chain)
        L.append("        let args: Vec<String> = vec![%s];" % ", ".join(args_show))
        L.append("        o.line(&format!(\"op %s build{}{} = {}\", if args.is_empty() { \"\" } else { \" \" }, args.join(\" \"), support::res(r)));" % name)
        L.append("    }")
    # const context (C15)
    if with_const:
        L.extend(render_const_items(d, table, surface))
    # debug
    if d["debug"]:
        L.append("    for &raw in support::dbg_raws(%d, o.seed).iter() {" % N)
        L.append("        o.line(&format!(\"op %s dbg 0 {:#x} = {:?}\", raw, format!(\"{:?}\", mk(raw))));" % name)
        L.append("        o.line(&format!(\"op %s dbg 1 {:#x} = {:?}\", raw, format!(\"{:#?}\", mk(raw))));" % name)
        L.append("    }")
    L.append("}")
    return L


# ---------------------------------------------------------------------------------------------
# compile-time probes (C14 type-state, C17 absence / presence) and const items (C15)
# ---------------------------------------------------------------------------------------------

def sample_value_expr(f, table, k=0):
    """a const-evaluable Rust expression of the field's value type"""
    w = f["width"]
    pat = {0: (1 << w) - 1, 1: 0, 2: (0x5555555555555555_5555555555555555 & ((1 << w) - 1))}[k % 3]
    if f["kind"] in ("enum", "optenum"):
        return "ALL_%s[%d %% ALL_%s.len()]" % (f["custom"].upper(), k + 1, f["custom"].upper())
    if f["kind"] == "bool":
        return "true" if k % 2 == 0 else "false"
    return conv_expr(f, table, "%du128" % pat)


def builder_writable(d):
    return [f for f in d["fields"] if "w" in f["access"]]


def builder_arg(f, table, k=0):
    v = sample_value_expr(f, table, k)
    if f["count"] is not None:
        return "[%s; %d]" % (v, f["count"])
    return v


def render_probes(decls, table, surfaces):
    """returns (lines, probes) – probes: list of dict(id, decl, what, expect ('ok'|'err'), lines (lo, hi))"""
    lines = ["#![allow(dead_code, unused, deprecated, non_snake_case, path_statements)]", "use arbitrary_int::*;"]
    probes = []

    def add(decl, what, expect, body):
        pid = len(probes)
        start = len(lines) + 1
        lines.append("pub fn probe_%d() { %s }" % (pid, body))
        probes.append({"id": pid, "decl": decl, "what": what, "expect": expect, "lines": (start, len(lines))})

    for d in decls:
        if d["kind"] != "bitfield":
            continue
        name = d["name"]
        surf = set(x[1] for x in surfaces.get(name, []))
        if "access" in d["classes"] or "builder" in d["classes"]:
            for f in d["fields"]:
                nr = ident_noraw(f["name"])
                acc = f["access"]
                add(name, "getter of %s (%s)" % (f["name"], acc or "none"), "ok" if "r" in acc else "err", "let _ = %s::%s;" % (name, f["name"]))
                add(name, "with_ of %s (%s)" % (f["name"], acc or "none"), "ok" if "w" in acc else "err", "let _ = %s::with_%s;" % (name, nr))
                add(name, "set_ of %s (%s)" % (f["name"], acc or "none"), "ok" if "w" in acc else "err", "let _ = %s::set_%s;" % (name, nr))
        if "builder" in d["classes"] and "builder" in surf:
            ws = builder_writable(d)
            chain = ["with_%s(%s)" % (ident_noraw(f["name"]), builder_arg(f, table, j)) for j, f in enumerate(ws)]
            # the full chain must type-check
            add(name, "full builder chain", "ok", "let _ = %s::builder()%s.build();" % (name, "".join("." + c for c in chain)))
            # every proper prefix followed by build() must not
            for k in range(len(chain)):
                add(name, "build() after %d of %d fields" % (k, len(chain)), "err",
                    "let _ = %s::builder()%s.build();" % (name, "".join("." + c for c in chain[:k])))
            # skipping the first field / starting with the second
            if len(chain) >= 2:
                add(name, "second field first", "err", "let _ = %s::builder().%s;" % (name, chain[1]))
                add(name, "first field twice", "err", "let _ = %s::builder().%s.%s;" % (name, chain[0], chain[0]))
    return lines, probes


def render_const_items(d, table, surface):
    """statements for the runner function of `d`: const-evaluated operations compared with their run-time twins"""
    L = []
    name = d["name"]
    if "kf1" in d.get("classes", []):
        return L      # known finding KF1: the getter panics, also at compile time
    if d["kind"] == "bitenum":
        av = active_variants(d)
        if not av:
            return L
        v = av[0]
        L.append("    { const C: %s = %s::%s; const R: u128 = %s; let rt = %s; if R != rt { o.line(\"CONST-DIFF %s raw_value\"); } else { o.line(\"CONST-OK %s raw_value\"); } }" % (
            name, name, v["name"], unmk_expr(d["size"], "C.raw_value()"), unmk_expr(d["size"], "%s::%s.raw_value()" % (name, v["name"])), name, name))
        x = v["value"]
        L.append("    { const C: bool = { let r = %s::new_with_raw_value(%s); %s }; let rt = { let r = %s::new_with_raw_value(%s); %s }; if C != rt { o.line(\"CONST-DIFF %s new_with_raw_value\"); } else { o.line(\"CONST-OK %s new_with_raw_value\"); } }" % (
            name, mk_expr(d["size"], "%du128" % x),
            "matches!(r, Ok(%s::%s))" % (name, v["name"]) if d["exh"] != "true" else "matches!(r, %s::%s)" % (name, v["name"]),
            name, mk_expr(d["size"], "%du128" % x),
            "matches!(r, Ok(%s::%s))" % (name, v["name"]) if d["exh"] != "true" else "matches!(r, %s::%s)" % (name, v["name"]),
            name, name))
        return L
    N = base_width(d)
    raw = (0x0123456789ABCDEF_FEDCBA9876543210 >> 3) & ((1 << N) - 1)
    mkc = "%s::new_with_raw_value(%s)" % (name, mk_expr(N, "%du128" % raw))
    L.append("    { const C: u128 = %s; let rt = %s; if C != rt { o.line(\"CONST-DIFF %s ZERO\"); } else { o.line(\"CONST-OK %s ZERO\"); } }" % (
        unmk_expr(N, "%s::ZERO.raw_value()" % name), unmk_expr(N, "%s::ZERO.raw_value()" % name), name, name))
    L.append("    { const C: u128 = %s; let rt = rawof(&mk(%du128)); if C != rt { o.line(\"CONST-DIFF %s new_with_raw_value/raw_value\"); } else { o.line(\"CONST-OK %s raw\"); } }" % (
        unmk_expr(N, mkc + ".raw_value()"), raw, name, name))
    if d["default"]:
        L.append("    { const C: u128 = %s; let rt = rawof(&%s::DEFAULT); if C != rt { o.line(\"CONST-DIFF %s DEFAULT\"); } else { o.line(\"CONST-OK %s DEFAULT\"); } }" % (
            unmk_expr(N, "%s::DEFAULT.raw_value()" % name), name, name, name))
    n = 0
    for f in d["fields"]:
        if n >= 4:
            break
        nr = ident_noraw(f["name"])
        idx = "" if f["count"] is None else "%d, " % (f["count"] - 1)
        idxg = "" if f["count"] is None else "%d" % (f["count"] - 1)
        if (f["name"] in surface or nr in surface) and f["kind"] in ("bool", "native", "signed", "arb"):
            L.append("    { const C: %s = %s.%s(%s); let rt = mk(%du128).%s(%s); if support::Show::show(&C) != support::Show::show(&rt) { o.line(\"CONST-DIFF %s %s\"); } else { o.line(\"CONST-OK %s %s\"); } }" % (
                f["ty"], mkc, f["name"], idxg, raw, f["name"], idxg, name, f["name"], name, f["name"]))
            n += 1
        if ("with_" + nr) in surface:
            v = sample_value_expr(f, table, n)
            L.append("    { const C: u128 = %s; let rt = rawof(&mk(%du128).with_%s(%s%s)); if C != rt { o.line(\"CONST-DIFF %s with_%s\"); } else { o.line(\"CONST-OK %s with_%s\"); } }" % (
                unmk_expr(N, "%s.with_%s(%s%s).raw_value()" % (mkc, nr, idx, v)), raw, nr, idx, v, name, nr, name, nr))
            n += 1
    if "builder" in surface and "build" in surface:
        ws = [f for f in d["fields"] if ("with_" + ident_noraw(f["name"])) in surface]
        chain = "".join(".with_%s(%s)" % (ident_noraw(f["name"]), builder_arg(f, table, j)) for j, f in enumerate(ws))
        L.append("    { const C: u128 = %s; let rt = rawof(&%s::builder()%s.build()); if C != rt { o.line(\"CONST-DIFF %s builder\"); } else { o.line(\"CONST-OK %s builder\"); } }" % (
            unmk_expr(N, "%s::builder()%s.build().raw_value()" % (name, chain)), name, chain, name, name))
    return L
