"""Translates the token stream of a generated function body (from a dumped expansion) into the S-expression form
the Lean driver prints for the model's `Expr`, so that the two can be compared structurally.

Anything outside the modelled fragment becomes `(opaque …)` and can never compare equal."""
import re

VARS = {"field_value": "field_value", "index": "index", "temp": "temp", "effective_index": "effective_index",
        "extracted_bits": "extracted_bits", "value": "value", "MASK": "MASK", "CLEAR_MASK": "MASK"}

NUM_RE = re.compile(r"^(0x[0-9a-fA-F_]+|0b[01_]+|0o[0-7_]+|[0-9][0-9_]*)((?:u|i)(?:8|16|32|64|128|size))?$")

# binary operator precedence (higher binds tighter), Rust order
PREC = {"*": 10, "/": 10, "%": 10, "+": 9, "-": 9, "<<": 8, ">>": 8, "&": 7, "^": 6, "|": 5,
        "==": 4, "!=": 4, "<": 4, ">": 4, "<=": 4, ">=": 4, "&&": 3, "||": 2}


class ParseError(Exception):
    pass


class P:
    def __init__(self, toks):
        self.t = toks
        self.i = 0

    def peek(self, k=0):
        j = self.i + k
        return self.t[j] if j < len(self.t) else (None, None)

    def text(self, k=0):
        return self.peek(k)[1]

    def eat(self, text=None):
        tk = self.peek()
        if tk[0] is None:
            raise ParseError("unexpected end")
        if text is not None and tk[1] != text:
            raise ParseError("expected %r got %r" % (text, tk[1]))
        self.i += 1
        return tk

    def at_end(self):
        return self.i >= len(self.t)

    # ---- operators -------------------------------------------------------------------------------------------
    def binop(self):
        """the binary operator at the cursor (without consuming), or None"""
        a, b = self.text(), self.text(1)
        if self.peek()[0] != "punct":
            return None, 0
        if a == "<" and b == "<":
            return "<<", 2
        if a == ">" and b == ">":
            return ">>", 2
        if a == "!" and b == "=":
            return "!=", 2
        if a == "=" and b == "=":
            return "==", 2
        if a == "<" and b == "=":
            return "<=", 2
        if a == ">" and b == "=":
            return ">=", 2
        if a == "&" and b == "&":
            return "&&", 2
        if a == "|" and b == "|":
            return "||", 2
        if a in ("*", "/", "%", "+", "-", "&", "^", "|", "<", ">"):
            return a, 1
        return None, 0

    # ---- expressions -------------------------------------------------------------------------------------------
    def expr(self, minprec=0):
        lhs = self.unary()
        while True:
            # `as` binds tighter than any binary operator
            if self.peek() == ("ident", "as"):
                self.eat()
                ty = self.type_text()
                lhs = "(cast %s %s)" % (lhs, ty)
                continue
            op, n = self.binop()
            if op is None or PREC[op] < minprec:
                return lhs
            self.i += n
            rhs = self.expr(PREC[op] + 1)
            if op == ">":
                # `a > b` is `b < a` (both operands are side-effect free expressions)
                lhs = "(bin < %s %s)" % (rhs, lhs)
                continue
            lhs = "(bin %s %s %s)" % (op, lhs, rhs)

    def unary(self):
        if self.peek() == ("punct", "!"):
            self.eat()
            return "(not %s)" % self.unary_as()
        if self.peek() == ("punct", "-"):
            self.eat()
            return "(neg %s)" % self.unary_as()
        if self.peek() == ("punct", "&"):
            self.eat()
            return self.unary_as()
        return self.postfix()

    def unary_as(self):
        """operand of a unary operator: a postfix expression followed by any number of `as T` (which bind tighter than
        binary operators but looser than unary ones – `!x as u8` is `(!x) as u8`, so no `as` is consumed here)"""
        return self.unary()

    def type_text(self):
        parts = [self.eat()[1]]
        while self.text() == ":" and self.text(1) == ":":
            self.eat(); self.eat()
            parts.append(self.eat()[1])
        return parts[-1] if len(parts) else "?"

    def args(self):
        self.eat("(")
        out = []
        while self.text() != ")":
            out.append(self.expr())
            if self.text() == ",":
                self.eat()
        self.eat(")")
        return out

    def postfix(self):
        e = self.primary()
        while self.peek() == ("punct", "."):
            self.eat()
            k, name = self.eat()
            if self.text() == "(":
                a = self.args()
                if name == "value" and not a:
                    e = "(value %s)" % e
                elif name == "raw_value" and not a:
                    e = "(rawvalue %s)" % e
                else:
                    e = "(opaque method %s %s %s)" % (name, e, " ".join(a))
            else:
                if e == "(self)" and name == "raw_value":
                    e = "(var raw)"
                elif e == "(self)" and name == "0":
                    e = "(var self0)"
                else:
                    e = "(opaque field %s %s)" % (e, name)
        return e

    def block(self):
        self.eat("{")
        depth = 0
        start = self.i
        while True:
            k, t = self.peek()
            if k is None:
                raise ParseError("unterminated block")
            if t == "{" and k == "punct":
                depth += 1
            elif t == "}" and k == "punct":
                if depth == 0:
                    break
                depth -= 1
            self.i += 1
        inner = self.t[start:self.i]
        self.eat("}")
        return body_sexpr(inner)

    def primary(self):
        k, t = self.peek()
        if k is None:
            raise ParseError("unexpected end")
        if k == "num":
            self.eat()
            m = NUM_RE.match(t)
            if not m:
                return "(opaque num %s)" % t
            val = int(m.group(1).replace("_", ""), 0)
            return "(lit %s %d)" % (m.group(2) or "_", val)
        if t == "(" and k == "punct":
            self.eat()
            e = self.expr()
            self.eat(")")
            return e
        if t == "{" and k == "punct":
            return self.block()
        if k == "ident" and t == "if":
            self.eat()
            c = self.expr()
            a = self.block()
            self.eat("else")
            b = self.block()
            return "(if %s %s %s)" % (c, a, b)
        if k == "ident" and t in ("true", "false"):
            self.eat()
            return "(bool %s)" % t
        if k == "ident" or (t == ":" and self.text(1) == ":"):
            segs = []
            if t == ":":
                self.eat(); self.eat()
                segs.append("")
            segs.append(self.eat()[1])
            while self.text() == ":" and self.text(1) == ":":
                self.eat(); self.eat()
                if self.text() == "<":          # turbofish: skip generic arguments
                    depth = 0
                    gen = []
                    while True:
                        tt = self.eat()[1]
                        gen.append(tt)
                        if tt == "<":
                            depth += 1
                        elif tt == ">":
                            depth -= 1
                            if depth == 0:
                                break
                    segs.append("<%s>" % " ".join(gen[1:-1]))
                    continue
                segs.append(self.eat()[1])
            # struct literal `Name { raw_value : e }`
            if self.text() == "{" and self.text(1) == "raw_value" and self.text(2) == ":":
                self.eat("{"); self.eat(); self.eat(":")
                depth = 0
                start = self.i
                while True:
                    kk, tt = self.peek()
                    if kk is None:
                        raise ParseError("unterminated struct literal")
                    if kk == "punct" and tt in "{([":
                        depth += 1
                    elif kk == "punct" and tt in "})]":
                        if depth == 0:
                            break
                        depth -= 1
                    self.i += 1
                inner = self.t[start:self.i]
                self.eat("}")
                return "(self_with %s)" % P(strip_trailing_comma(inner)).whole_expr()
            if self.text() == "(":
                a = self.args()
                return call_sexpr(segs, a)
            if len(segs) == 1:
                if segs[0] == "self":
                    return "(self)"
                if segs[0] in VARS:
                    return "(var %s)" % VARS[segs[0]]
            # associated constants of the integer types: `u32::MAX`, `i8::MIN`, `u64::BITS` (bit patterns)
            if len(segs) >= 2 and segs[-1] in ("MAX", "MIN", "BITS"):
                mt = re.match(r"^([ui])(8|16|32|64|128)$", segs[-2])
                if mt and all(x in ("core", "std", "primitive", "") for x in segs[:-2]):
                    sg, w = mt.group(1) == "i", int(mt.group(2))
                    if segs[-1] == "BITS":
                        return "(lit u32 %d)" % w
                    if segs[-1] == "MAX":
                        return "(lit %s %d)" % (segs[-2], (1 << (w - 1)) - 1 if sg else (1 << w) - 1)
                    return "(lit %s %d)" % (segs[-2], (1 << (w - 1)) if sg else 0)
            return "(path %s)" % "::".join(segs)
        raise ParseError("unexpected token %r" % (t,))

    def whole_expr(self):
        e = self.expr()
        if not self.at_end():
            raise ParseError("trailing tokens after expression: %r" % (self.t[self.i:self.i + 4],))
        return e


def strip_trailing_comma(toks):
    if toks and toks[-1] == ("punct", ","):
        return toks[:-1]
    return toks


def call_sexpr(segs, args):
    last = segs[-1]
    m = re.match(r"^extract_u(8|16|32|64|128)$", last)
    if m and len(segs) >= 2 and len(args) == 2:
        ty = segs[-2]
        mt = re.match(r"^u(\d+)$", ty)
        if mt:
            return "(extract u%s %s %s %s)" % (m.group(1), mt.group(1), args[0], args[1])
        mt = re.match(r"^<\s*u(?:8|16|32|64|128)\s*,\s*(\d+)usize\s*>$", ty)
        if mt:
            return "(extract u%s %s %s %s)" % (m.group(1), mt.group(1), args[0], args[1])
    if last == "new_with_raw_value" and len(segs) >= 2 and len(args) == 1:
        return "(customnew %s %s)" % (segs[-2], args[0])
    if last == "new" and len(segs) >= 2 and len(args) == 1:
        mt = re.match(r"^u(\d+)$", segs[-2])
        if mt:
            return "(uintnew %s %s)" % (mt.group(1), args[0])
    return "(opaque call %s %s)" % ("::".join(segs), " ".join(args))


def split_statements(toks):
    """splits a block's tokens at top-level `;`"""
    out = []
    cur = []
    depth = 0
    for tk in toks:
        k, t = tk
        if k == "punct" and t in "{([":
            depth += 1
        elif k == "punct" and t in "})]":
            depth -= 1
        if k == "punct" and t == ";" and depth == 0:
            out.append(cur)
            cur = []
        else:
            cur.append(tk)
    return out, cur        # statements, trailing expression (possibly empty)


def body_sexpr(toks):
    """S-expression of a block: `assert!`, `let`, `const` statements wrap the rest; a final `self.raw_value = e;`
    (set_) or trailing expression gives the value"""
    stmts, tail = split_statements(toks)
    if tail:
        value = P(tail).whole_expr()
    else:
        if not stmts:
            return "(unit)"
        last = stmts.pop()
        lt = [x[1] for x in last]
        if len(last) > 4 and lt[:4] == ["self", ".", "raw_value", "="]:
            value = "(self_with %s)" % P(last[4:]).whole_expr()
        elif len(lt) >= 8 and lt[:6] == ["*", "self", "=", "self", ".", lt[5]] and lt[5].startswith("with_") and lt[6] == "(" and lt[-1] == ")" \
                and lt[7:-1] in (["field_value"], ["index", ",", "field_value"]) and not stmts:
            # `*self = self.with_x(field_value)` / `…(index, field_value)`: the setter forwards to the `with_` method of the same
            # field with its own parameters; its new raw value is that method's (resolved by the caller)
            value = "(forward %s)" % lt[5]
        else:
            value = "(opaque stmt %s)" % " ".join(x[1] for x in last)
    for st in reversed(stmts):
        texts = [x[1] for x in st]
        if texts[:3] == ["assert", "!", "("] and texts[-1] == ")":
            cond = P(st[3:-1]).whole_expr()
            value = "(assert %s %s)" % (cond, value)
        elif texts[0] == "let" and "=" in texts:
            eq = texts.index("=")
            name = texts[1]
            e = P(st[eq + 1:]).whole_expr()
            value = "(let %s %s %s)" % (VARS.get(name, name), e, value)
        elif texts[0] == "const" and "=" in texts:
            eq = texts.index("=")
            name = texts[1]
            e = P(st[eq + 1:]).whole_expr()
            value = "(let %s %s %s)" % (VARS.get(name, name), e, value)
        else:
            value = "(opaque stmt %s ; %s)" % (" ".join(texts), value)
    return value


def normalise(sx):
    """`Self { raw_value: e }` and `self.raw_value = e` both denote the new raw value `e`: hoist the marker away
    (it may sit under assert / let wrappers)"""
    return sx.replace("(self_with ", "(id ")


# ---- S-expression comparison -----------------------------------------------------------------------------------

def parse_sx(s):
    toks = re.findall(r"\(|\)|[^\s()]+", s)
    pos = [0]

    def rec():
        t = toks[pos[0]]
        pos[0] += 1
        if t == "(":
            out = []
            while toks[pos[0]] != ")":
                out.append(rec())
            pos[0] += 1
            return out
        return t
    return rec()


def strip_id(t):
    if isinstance(t, list):
        if len(t) == 2 and t[0] == "id":
            return strip_id(t[1])
        return [strip_id(x) for x in t]
    return t


def sx_equal(a, b):
    """structural equality; the type `_` of an unsuffixed literal matches any type"""
    if isinstance(a, list) and isinstance(b, list):
        if len(a) != len(b):
            return False
        if len(a) == 3 and a[0] == "lit" and b[0] == "lit":
            return a[2] == b[2] and (a[1] == b[1] or a[1] == "_" or b[1] == "_")
        return all(sx_equal(x, y) for x, y in zip(a, b))
    return a == b


def alpha(t, env=None, depth=0):
    """names bound by `let` / `const` are compared up to renaming: they are replaced by their binding depth"""
    env = env or {}
    if isinstance(t, list):
        if len(t) == 4 and t[0] == "let" and isinstance(t[1], str):
            new = "$L%d" % depth
            env2 = dict(env)
            env2[t[1]] = new
            return ["let", new, alpha(t[2], env, depth), alpha(t[3], env2, depth + 1)]
        if len(t) == 2 and t[0] in ("var", "path") and isinstance(t[1], str) and t[1] in env:
            return ["var", env[t[1]]]
        return [alpha(x, env, depth) for x in t]
    return t


def compare(real_sx, model_sx):
    try:
        return sx_equal(alpha(strip_id(parse_sx(normalise(real_sx)))), alpha(strip_id(parse_sx(model_sx))))
    except Exception:  # noqa
        return False
