#!/usr/bin/env python3
"""Builds the markdown table of DESIGN.md §12 from the trial logs (/tmp/trial_<id>.log) and seeded/*/meta.json"""
import json, os, re, sys, glob

logdir = sys.argv[1] if len(sys.argv) > 1 else "/tmp"
rows = []
ids = sorted(os.listdir("/verif/seeded"))
for sid in ids:
    mp = "/verif/seeded/%s/meta.json" % sid
    if not os.path.exists(mp):
        continue
    meta = json.load(open(mp))
    log = os.path.join(logdir, "trial_%s.log" % sid)
    caught = {}
    if os.path.exists(log):
        for line in open(log):
            m = re.search(r"VIOLATION property=(C\d\d) replay=\S+( no-failing-input-found)?", line)
            if m:
                kind = "nfi" if m.group(2) else "failing input"
                if caught.get(m.group(1)) != "failing input":
                    caught[m.group(1)] = kind
    target = meta["property"]
    tgt = caught.get(target)
    others = ", ".join("%s (%s)" % (k, v) for k, v in sorted(caught.items()) if k != target)
    rows.append("| %s | %s | %s | %s | %s | %s |" % (sid, target, meta["breaks"], meta["needs_to_manifest"],
                "**%s: %s**" % (target, tgt) if tgt else "**not caught by %s**" % target, others or "–"))
print("| id | target | change | needs to manifest | target property's check | other checks that also fired |")
print("|---|---|---|---|---|---|")
print("\n".join(rows))
# regression reverts
for r in ("D1", "D2", "D3", "D4"):
    log = os.path.join(logdir, "trial_R%s.log" % r)
    if os.path.exists(log):
        caught = {}
        for line in open(log):
            m = re.search(r"VIOLATION property=(C\d\d) replay=\S+( no-failing-input-found)?", line)
            if m:
                kind = "nfi" if m.group(2) else "failing input"
                if caught.get(m.group(1)) != "failing input":
                    caught[m.group(1)] = kind
        print("| R%s | (revert of fix %s) | re-introduces defect %s of the pinned tree | see §5 | %s | |" % (
            r, r, r, ", ".join("%s (%s)" % kv for kv in sorted(caught.items())) or "**not caught**"))
