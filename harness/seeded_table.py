#!/usr/bin/env python3
"""Builds the markdown table of DESIGN.md §12 from the trial logs (<logdir>/trial_<id>.log, written by
mutation_trial.sh) and seeded/*/meta.json.  With --update-meta the per-change result is also written into meta.json."""
import json, os, re, sys

args = [a for a in sys.argv[1:] if not a.startswith("--")]
logdir = args[0] if args else "/tmp/trial2"
update = "--update-meta" in sys.argv


def caught_in(log):
    caught = {}
    done = set()
    if not os.path.exists(log):
        return None, done
    for line in open(log):
        m = re.search(r"VIOLATION property=(C\d\d) replay=\S+( no-failing-input-found)?", line)
        if m:
            kind = "nfi" if m.group(2) else "failing input"
            if caught.get(m.group(1)) != "failing input":
                caught[m.group(1)] = kind
        m = re.search(r"\] (C\d\d): (ok|FAIL)", line)
        if m:
            done.add(m.group(1))
    return caught, done


rows = []
for sid in sorted(os.listdir("/verif/seeded")):
    mp = "/verif/seeded/%s/meta.json" % sid
    if not os.path.exists(mp):
        continue
    meta = json.load(open(mp))
    caught, done = caught_in(os.path.join(logdir, "trial_%s.log" % sid))
    if caught is None:
        rows.append("| %s | %s | %s | %s | (not run) | |" % (sid, meta["property"], meta["breaks"], meta["needs_to_manifest"]))
        continue
    target = meta["property"]
    tgt = caught.get(target)
    others = ", ".join("%s (%s)" % (k, v) for k, v in sorted(caught.items()) if k != target)
    note = meta.get("attribution_note", "")
    def short(t):
        t = t.replace("|", "\\|")
        return t if len(t) <= 230 else t[:227] + "…"
    rows.append("| %s | %s | %s | %s | %s | %s |" % (sid, target, short(meta["breaks"]), short(meta["needs_to_manifest"]),
                ("**%s: %s**" % (target, tgt) if tgt else "not flagged under %s%s" % (target, (" — " + note) if note else "")), others or "–"))
    if update:
        meta["detected_by"] = {"target_property": tgt or "not flagged", "other_properties": {k: v for k, v in sorted(caught.items()) if k != target},
                               "checks_completed": len(done)}
        json.dump(meta, open(mp, "w"), indent=1)
print("| id | target | change | needs to manifest | target property's check | other checks that also fired |")
print("|---|---|---|---|---|---|")
print("\n".join(rows))
for r in ("D1", "D2", "D3", "D4"):
    caught, done = caught_in(os.path.join(logdir, "trial_R%s.log" % r))
    if caught is not None:
        print("| R%s | (revert of fix %s) | re-introduces defect %s of the pinned tree | see §5 | %s | |" % (
            r, r, r, ", ".join("%s (%s)" % kv for kv in sorted(caught.items())) or "**not caught**"))
