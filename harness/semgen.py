#!/usr/bin/env python3
"""Semantics corpus: random well-typed expressions over the operator fragment of the model's `Expr` (the fragment the
macro's templates and their rewrites live in), rendered both as Rust functions and as S-expressions for the driver.

The Rust side is compiled by rustc in the dev profile (overflow checks on) and in the release profile (wrapping
arithmetic, masked shift amounts) and executed on boundary inputs; the driver evaluates the same expressions with
`eval chk`. A difference means that `evalBin` / `castBits` / `evalExtract` / `uintNew` – the *modelled, not verified*
meaning of Rust's integer operators and of the three `arbitrary-int` functions, on which every accessor theorem and
the normaliser rest – is not what rustc does. It also exercises the S-expression reader's typing of unsuffixed literals.

The generator stays inside what `eval` models (no `>>`, `!`, `+ - *`, `<` on signed operands: `eval` answers `stuck`
there and no template uses them)."""
import random

UNSIGNED = ["u8", "u16", "u32", "u64", "u128"]
SIGNED = ["i8", "i16", "i32", "i64", "i128"]
BITS = {"u8": 8, "u16": 16, "u32": 32, "u64": 64, "u128": 128, "usize": 64,
        "i8": 8, "i16": 16, "i32": 32, "i64": 64, "i128": 128}
NATIVE = (8, 16, 32, 64, 128)


def storage(n):
    return next(w for w in NATIVE if n <= w)


def is_signed(t):
    return t[0] == "i"


def unsigned_of(t):
    return "u" + t[1:] if is_signed(t) else t


def boundary_values(w, rng, k=3):
    vals = {0, 1, 2, (1 << w) - 1, (1 << w) - 2, 1 << (w - 1), (1 << (w - 1)) - 1, (1 << (w - 1)) + 1}
    if w > 8:
        vals |= {0xFF, 0x100, int("A5" * (w // 8), 16), int("5A" * (w // 8), 16)}
    for _ in range(k):
        vals.add(rng.getrandbits(w))
        vals.add(rng.getrandbits(rng.randint(1, w)))
    return sorted(vals)


class Gen:
    def __init__(self, rng, ta, tb, ub):
        self.rng = rng
        self.ta = ta          # type of `a` (self.raw_value): unsigned native
        self.tb = tb          # native type of `b` (field_value) or None
        self.ub = ub          # arbitrary-int width of `b` or None
        self.temp = None      # type of the bound `temp`, if any

    def lit(self, ty, allow_unsuffixed=False):
        w = BITS[ty]
        r = self.rng
        v = r.choice([0, 1, (1 << w) - 1, 1 << (w - 1), r.getrandbits(w), r.getrandbits(r.randint(1, w)), r.randint(0, 9)])
        if is_signed(ty):
            u = unsigned_of(ty)
            return "(0x%x%s as %s)" % (v, u, ty), "(cast (lit %s %d) %s)" % (u, v, ty)
        if allow_unsuffixed and v < (1 << 31) and r.random() < 0.4:
            return "%d" % v, "(lit _ %d)" % v
        return "0x%x%s" % (v, ty), "(lit %s %d)" % (ty, v)

    def shift_amount(self, w):
        r = self.rng
        c = r.random()
        if c < 0.15:
            return "i", "(var index)"
        n = r.choice([0, 1, w - 1, w // 2, r.randint(0, w - 1), r.randint(0, w - 1)] + ([w, w + 1, 2 * w, 255] if r.random() < 0.12 else []))
        if c < 0.5:
            return "%d" % n, "(lit _ %d)" % n          # unsuffixed: i32 in Rust
        return "%dusize" % n, "(lit usize %d)" % n

    def int(self, ty, d):
        """expression of integer type `ty`"""
        r = self.rng
        w = BITS[ty]
        leafs = [("lit", 3)]
        if ty == self.ta:
            leafs.append(("a", 6))
        if ty == self.tb:
            leafs.append(("b", 6))
        if ty == "usize":
            leafs.append(("i", 4))
        if self.temp == ty:
            leafs.append(("temp", 4))
        if self.ub is not None and ty == "u%d" % storage(self.ub):
            leafs.append(("bvalue", 5))
        inner = []
        if d > 0:
            inner = [("cast", 5), ("and", 3), ("or", 3), ("xor", 2), ("shl", 4), ("ite", 2), ("let", 1), ("boolcast", 1)]
            if is_signed(ty):
                inner += [("shr", 3)]       # arithmetic shift
            if not is_signed(ty):
                inner += [("shr", 4), ("not", 2), ("add", 2), ("sub", 3), ("mul", 1)]
                if ty != "usize":
                    inner += [("value", 2)]
        pool = leafs + inner * (2 if d > 1 else 1)
        kind = r.choices([k for k, _ in pool], [wt for _, wt in pool])[0]
        if kind == "lit":
            return self.lit(ty)
        if kind == "a":
            return "a", "(var raw)"
        if kind == "b":
            return "b", "(var field_value)"
        if kind == "i":
            return "i", "(var index)"
        if kind == "temp":
            return "temp", "(var temp)"
        if kind == "bvalue":
            return "b.value()", "(value (var field_value))"
        if kind == "cast":
            src = r.choice(UNSIGNED + SIGNED + ["usize"])
            e, s = self.int(src, d - 1)
            return "(%s as %s)" % (e, ty), "(cast %s %s)" % (s, ty)
        if kind == "boolcast":
            c, sc = self.bool(d - 1)
            return "(%s as %s)" % (c, ty), "(cast %s %s)" % (sc, ty)
        if kind in ("and", "or", "xor", "add", "sub", "mul"):
            op = {"and": "&", "or": "|", "xor": "^", "add": "+", "sub": "-", "mul": "*"}[kind]
            x, sx = self.int(ty, d - 1)
            if r.random() < 0.3 and not is_signed(ty):
                y, sy = self.lit(ty, allow_unsuffixed=True)
            else:
                y, sy = self.int(ty, d - 1)
            if r.random() < 0.5 and not sx.startswith("(lit _"):
                return "(%s %s %s)" % (x, op, y), "(bin %s %s %s)" % (op, sx, sy)
            if sy.startswith("(lit _") and sx.startswith("(lit"):
                y, sy = self.lit(ty)
            return "(%s %s %s)" % (x, op, y), "(bin %s %s %s)" % (op, sx, sy)
        if kind in ("shl", "shr"):
            op = "<<" if kind == "shl" else ">>"
            x, sx = self.int(ty, d - 1)
            y, sy = self.shift_amount(w)
            return "(%s %s %s)" % (x, op, y), "(bin %s %s %s)" % (op, sx, sy)
        if kind == "not":
            x, sx = self.int(ty, d - 1)
            return "(!%s)" % x, "(not %s)" % sx
        if kind == "ite":
            c, sc = self.bool(d - 1)
            x, sx = self.int(ty, d - 1)
            y, sy = self.int(ty, d - 1)
            return "(if %s { %s } else { %s })" % (c, x, y), "(if %s %s %s)" % (sc, sx, sy)
        if kind == "let":
            if self.temp is not None:
                return self.lit(ty)
            tt = r.choice(UNSIGNED + ["usize", ty])
            e, se = self.int(tt, d - 1)
            self.temp = tt
            b, sb = self.int(ty, d - 1)
            self.temp = None
            return "{ let temp = %s; %s }" % (e, b), "(let temp %s %s)" % (se, sb)
        if kind == "value":
            n = self.rng.choice([k for k in range(1, w + 1) if k not in NATIVE and storage(k) == w] or [0])
            if n == 0:
                return self.lit(ty)
            e, s = self.uint(n, d - 1)
            return "%s.value()" % e, "(value %s)" % s
        raise AssertionError(kind)

    def uint(self, n, d):
        """expression of type `arbitrary_int::u{n}`"""
        r = self.rng
        if self.ub == n and r.random() < 0.4:
            return "b", "(var field_value)"
        if r.random() < 0.6:
            W = r.choice([w for w in NATIVE if w >= 8])
            ty = "u%d" % W
            e, s = self.int(ty, d)
            starts = [0, 1, max(0, W - n), max(0, W - n - 1), r.randint(0, W)] + ([W - n + 1, W] if r.random() < 0.2 else [])
            st = max(0, r.choice(starts))
            if r.random() < 0.15:
                return "arbitrary_int::u%d::extract_u%d(%s, i)" % (n, W, e), "(extract %s %d %s (var index))" % (ty, n, s)
            return "arbitrary_int::u%d::extract_u%d(%s, %d)" % (n, W, e, st), "(extract %s %d %s (lit _ %d))" % (ty, n, s, st)
        ty = "u%d" % storage(n)
        e, s = self.int(ty, d)
        if r.random() < 0.7:
            # mostly in range: mask first
            m = (1 << n) - 1
            e, s = "(%s & 0x%x%s)" % (e, m, ty), "(bin & %s (lit %s %d))" % (s, ty, m)
        return "arbitrary_int::u%d::new(%s)" % (n, e), "(uintnew %d %s)" % (n, s)

    def bool(self, d):
        r = self.rng
        ty = r.choice(UNSIGNED + ["usize"] + (SIGNED if r.random() < 0.3 else []))
        x, sx = self.int(ty, d)
        if is_signed(ty) or r.random() < 0.6:
            if r.random() < 0.4 and not is_signed(ty):
                return "(%s != 0)" % x, "(bin != %s (lit _ 0))" % sx
            y, sy = self.int(ty, d)
            if r.random() < 0.35:
                return "(%s == %s)" % (x, y), "(bin == %s %s)" % (sx, sy)
            return "(%s != %s)" % (x, y), "(bin != %s %s)" % (sx, sy)
        y, sy = self.int(ty, d)
        return "(%s < %s)" % (x, y), "(bin < %s %s)" % (sx, sy)


def generate(seed, count):
    """returns list of dicts: id, ta, tb (native or None), ub (arbitrary width or None), result kind, rust, sx, inputs"""
    rng = random.Random(seed * 7919 + 17)
    out = []
    for k in range(count):
        ta = rng.choice(UNSIGNED)
        if rng.random() < 0.25:
            ub = rng.choice([n for n in range(1, 128) if n not in NATIVE])
            tb = None
        else:
            ub = None
            tb = rng.choice(UNSIGNED + SIGNED)
        g = Gen(rng, ta, tb, ub)
        depth = rng.choice([1, 2, 2, 3, 3, 4])
        kind = rng.choices(["int", "bool", "uint"], [7, 1, 2])[0]
        if kind == "int":
            rty = rng.choice(UNSIGNED + SIGNED + ["usize"])
            e, s = g.int(rty, depth)
            show = "format!(\"{:#x}\", (%s) as %s)" % (e, unsigned_of(rty) if rty != "usize" else "usize")
        elif kind == "bool":
            rty = "bool"
            e, s = g.bool(depth)
            show = "(if %s { \"0x1\" } else { \"0x0\" }).to_string()" % e
        else:
            n = rng.choice([k2 for k2 in range(1, 128) if k2 not in NATIVE])
            rty = "uint:%d" % n
            e, s = g.uint(n, depth)
            show = "format!(\"{:#x}\", (%s).value())" % e
        wa = BITS[ta]
        wb = BITS[tb] if tb else ub
        ins = []
        av = boundary_values(wa, rng)
        bv = boundary_values(wb, rng) if wb > 1 else [0, 1]
        iv = [0, 1, 2, 3, 7, 8, 15, 16, 31, 32, 63, 64, 127, 128, 200, (1 << 64) - 1]
        for _ in range(24):
            ins.append((rng.choice(av), rng.choice(bv), rng.choice(iv)))
        ins = sorted(set(ins))
        out.append({"id": "X%d" % k, "ta": ta, "tb": tb, "ub": ub, "rty": rty, "rust": e, "show": show, "sx": s, "inputs": ins})
    return out


def render_rust(exprs):
    L = ["#![allow(arithmetic_overflow, overflowing_literals, unconditional_panic, unused_parens, unused_variables, unused_comparisons, unused_braces, clippy::all)]",
         "use std::io::Write;", "type W = std::io::BufWriter<std::fs::File>;", ""]
    for x in exprs:
        f = x["id"].lower()
        bty = x["tb"] if x["tb"] else "arbitrary_int::u%d" % x["ub"]
        L.append("#[inline(never)] fn %s(a: %s, b: %s, i: usize) -> String { %s }" % (f, x["ta"], bty, x["show"]))
        if x["tb"]:
            ub = unsigned_of(x["tb"])
            conv = "(b as %s)" % x["tb"]
        else:
            ub = "u%d" % storage(x["ub"])
            conv = "arbitrary_int::u%d::new(b)" % x["ub"]
        L.append("fn run_%s(o: &mut W) { let ins: &[(%s, %s, usize)] = &[%s]; for &(a, b, i) in ins { let r = std::panic::catch_unwind(|| %s(a, %s, i)); writeln!(o, \"semop %s {:#x} {:#x} {:#x} = {}\", a, b, i, match r { Ok(s) => format!(\"ok {}\", s), Err(_) => \"panic\".to_string() }).unwrap(); } }"
                 % (f, x["ta"], ub, ", ".join("(0x%x, 0x%x, 0x%x)" % t for t in x["inputs"]), f, conv, x["id"]))
    L.append("")
    L.append("fn main() {")
    L.append("    std::panic::set_hook(Box::new(|_| {}));")
    L.append("    let path = std::env::args().nth(1).expect(\"output path\");")
    L.append("    let mut o = std::io::BufWriter::new(std::fs::File::create(path).unwrap());")
    for x in exprs:
        L.append("    run_%s(&mut o);" % x["id"].lower())
    L.append("}")
    return "\n".join(L) + "\n"


def proto_lines(exprs):
    return ["semx %s %s %s %s" % (x["id"], x["ta"], x["tb"] if x["tb"] else "uint:%d" % x["ub"], x["sx"]) for x in exprs]


if __name__ == "__main__":
    import sys
    ex = generate(int(sys.argv[1]) if len(sys.argv) > 1 else 1, int(sys.argv[2]) if len(sys.argv) > 2 else 20)
    for x in ex:
        print(x["id"], x["ta"], x["tb"], x["ub"], x["rty"])
        print("   ", x["rust"])
        print("   ", x["sx"])
