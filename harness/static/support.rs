//! Support code of the generated runner: canonical printing, probe inputs, panic capture.
#![allow(dead_code)]
use std::io::Write;
use std::panic::AssertUnwindSafe;

pub struct Out {
    pub w: std::io::BufWriter<std::fs::File>,
    pub seed: u64,
    pub tier_thorough: bool,
    pub lines: u64,
    /// focus mode: only these declarations are run (empty = all) …
    pub only: std::collections::HashSet<String>,
    /// … with this many additional random inputs per probe set
    pub boost: usize,
    /// … and these explicit raw values / written values added to every probe set (distinguishing inputs proposed by
    /// the normaliser for bodies whose normal form differs from the model's)
    pub extra_raws: Vec<u128>,
    pub extra_vals: Vec<u128>,
}
impl Out {
    pub fn wants(&self, name: &str) -> bool { self.only.is_empty() || self.only.contains(name) }
    pub fn line(&mut self, s: &str) {
        self.lines += 1;
        let _ = writeln!(self.w, "{}", s);
    }
}

pub trait Show {
    fn show(&self) -> String;
}
impl Show for bool {
    fn show(&self) -> String { if *self { "0x1".into() } else { "0x0".into() } }
}
macro_rules! show_u { ($($t:ty),*) => { $(impl Show for $t { fn show(&self) -> String { format!("{:#x}", self) } })* } }
show_u!(u8, u16, u32, u64, u128);
macro_rules! show_i { ($($t:ty => $u:ty),*) => { $(impl Show for $t { fn show(&self) -> String { format!("{:#x}", *self as $u) } })* } }
show_i!(i8 => u8, i16 => u16, i32 => u32, i64 => u64, i128 => u128);
impl<T: Show + Copy, const B: usize> Show for arbitrary_int::UInt<T, B>
where arbitrary_int::UInt<T, B>: arbitrary_int::Number<UnderlyingType = T> {
    fn show(&self) -> String { arbitrary_int::Number::value(*self).show() }
}
impl<T: Show, E: Show> Show for Result<T, E> {
    fn show(&self) -> String {
        match self { Ok(v) => format!("Ok({})", v.show()), Err(e) => format!("Err({})", e.show()) }
    }
}

/// the bytes of the `#[repr(C)] struct { raw_value: W }` as a number: the whole storage, including any bits above the
/// exposed width of an arbitrary-int base
pub fn storage<S: Copy, W: Copy + Into<u128>>(s: &S) -> u128 {
    assert!(std::mem::size_of::<S>() == std::mem::size_of::<W>());
    let w: W = unsafe { std::mem::transmute_copy::<S, W>(s) };
    w.into()
}

pub fn catch<R>(f: impl FnOnce() -> R) -> Option<R> {
    std::panic::catch_unwind(AssertUnwindSafe(f)).ok()
}
pub fn res<R: Show>(r: Option<R>) -> String {
    match r { Some(v) => format!("ok {}", v.show()), None => "panic".into() }
}

/// xorshift64*
pub struct Rng(pub u64);
impl Rng {
    pub fn new(seed: u64, salt: u64) -> Rng {
        let mut r = Rng(seed.wrapping_mul(0x9E3779B97F4A7C15) ^ salt.wrapping_mul(0xD1B54A32D192ED03) ^ 0x2545F4914F6CDD1D);
        if r.0 == 0 { r.0 = 1; }
        for _ in 0..4 { r.next(); }
        r
    }
    pub fn next(&mut self) -> u64 {
        let mut x = self.0;
        x ^= x >> 12; x ^= x << 25; x ^= x >> 27;
        self.0 = x;
        x.wrapping_mul(0x2545F4914F6CDD1D)
    }
    pub fn next128(&mut self) -> u128 { ((self.next() as u128) << 64) | self.next() as u128 }
    pub fn below(&mut self, n: u64) -> u64 { if n == 0 { 0 } else { self.next() % n } }
}

pub fn mask(n: u32) -> u128 { if n >= 128 { u128::MAX } else { (1u128 << n) - 1 } }

fn dedup(mut v: Vec<u128>) -> Vec<u128> {
    let mut seen = std::collections::HashSet::new();
    v.retain(|x| seen.insert(*x));
    v
}

/// raw values for reads of an n-bit register: 0, all ones, alternating, walking one, walking zero, randoms
pub fn raws(n: u32, o: &Out) -> Vec<u128> {
    let seed = o.seed;
    let m = mask(n);
    let mut v = vec![0, m, 0x5555_5555_5555_5555_5555_5555_5555_5555u128 & m, 0xAAAA_AAAA_AAAA_AAAA_AAAA_AAAA_AAAA_AAAAu128 & m];
    for k in 0..n { v.push(1u128 << k); }
    let step = if n <= 32 { 1 } else { (n / 16).max(1) };
    let mut k = 0;
    while k < n { v.push(m & !(1u128 << k)); k += step; }
    v.push(m & !(1u128 << (n - 1)));
    let mut r = Rng::new(seed, n as u64);
    for _ in 0..(6 + o.boost) { v.push(r.next128() & m); }
    for x in &o.extra_raws { v.push(*x & m); }
    dedup(v)
}
/// backgrounds for writes
pub fn wraws(n: u32, o: &Out) -> Vec<u128> {
    let seed = o.seed;
    let m = mask(n);
    let mut r = Rng::new(seed, 1000 + n as u64);
    let mut v = vec![0, m, r.next128() & m, r.next128() & m];
    for _ in 0..(o.boost / 16) { v.push(r.next128() & m); }
    for x in &o.extra_raws { v.push(*x & m); }
    dedup(v)
}
/// value patterns for an n-bit field
pub fn vals(n: u32, o: &Out) -> Vec<u128> {
    let seed = o.seed;
    let m = mask(n);
    let mut v = vec![0, m, 1, m >> 1, m & !(m >> 1), 0x5555_5555_5555_5555_5555_5555_5555_5555u128 & m, 0xAAAA_AAAA_AAAA_AAAA_AAAA_AAAA_AAAA_AAAAu128 & m];
    let step = if n <= 16 { 1 } else { (n / 8).max(1) };
    let mut k = 0;
    while k < n { v.push(1u128 << k); k += step; }
    let mut r = Rng::new(seed, 2000 + n as u64);
    for _ in 0..(3 + o.boost / 16) { v.push(r.next128() & m); }
    for x in &o.extra_vals { v.push(*x & m); }
    dedup(v)
}
pub fn small_range(n: u32) -> Vec<u128> { (0..n as u128).collect() }
pub fn pick(v: &[u128], seed: u64, salt: usize, trial: usize) -> u128 {
    if v.is_empty() { return 0; }
    let mut r = Rng::new(seed, 77777 + (salt as u64) * 131 + trial as u64 * 7919);
    v[r.below(v.len() as u64) as usize]
}
pub fn build_trials(o: &Out) -> usize { (if o.tier_thorough { 40 } else { 8 }) + o.boost / 8 }
pub fn dbg_raws(n: u32, seed: u64) -> Vec<u128> {
    let m = mask(n);
    let mut r = Rng::new(seed, 3000 + n as u64);
    dedup(vec![0, m, r.next128() & m, r.next128() & m, r.next128() & m, 0x5555_5555_5555_5555_5555_5555_5555_5555u128 & m])
}
/// inputs for bitenum conversions: all values for small sizes, else the discriminants, their neighbours and randoms
pub fn enum_inputs(size: u32, seed: u64, discrs: &[u128]) -> Vec<u128> {
    let m = mask(size);
    if size <= 12 { return (0..=m).collect(); }
    let mut v = vec![0, m, m >> 1];
    for &d in discrs {
        v.push(d & m); v.push(d.wrapping_add(1) & m); v.push(d.wrapping_sub(1) & m);
        // a discriminant with one higher bit set (conversions that look at a truncated value: seeded S93)
        for p in [8u32, 15, 16, 24, 31, 32, 33, 40, 48, 56, 62, 63] {
            if p < size { v.push((d | (1u128 << p)) & m); v.push((d ^ (1u128 << (size - 1))) & m); }
        }
    }
    let mut r = Rng::new(seed, 4000 + size as u64);
    for _ in 0..64 { v.push(r.next128() & m); }
    dedup(v)
}

fn idx_text(i: Option<usize>) -> String { match i { Some(i) => format!("{}", i), None => "-".into() } }

/// indices to probe for an array of `k` elements: all for small arrays, else ends and middle; plus out-of-range
fn indices(k: usize) -> (Vec<usize>, Vec<usize>) {
    let mut v: Vec<usize> = if k <= 6 { (0..k).collect() } else { vec![0, 1, k / 2, k - 2, k - 1] };
    v.dedup();
    // out of range: just above, the maximum, and indices whose product with a small stride wraps around 2^64 to a small
    // number (a bounds check made after the multiplication accepts those when overflow checks are off: seeded S90)
    let mut oob = vec![k, k + 1, usize::MAX, 1usize << 32, 1usize << 63, (1usize << 63) + 1, (1usize << 62) + (k - 1)];
    for s in [2u128, 3, 4, 5, 6, 7, 8, 9, 10, 12, 16, 17, 24, 32, 33, 64] {
        let q = (((1u128 << 64) + s - 1) / s) as u128;
        oob.push((q as usize).wrapping_add(if s % 2 == 0 { k - 1 } else { 0 }));
    }
    oob.retain(|&i| i >= k);
    oob.sort(); oob.dedup();
    (v, oob)
}

pub fn op_rt<S>(o: &mut Out, d: &str, raws: &[u128], mk: &dyn Fn(u128) -> S, rawof: &dyn Fn(&S) -> u128) {
    for &raw in raws {
        let r = catch(|| rawof(&mk(raw)));
        o.line(&format!("op {} rt {:#x} = {}", d, raw, res(r)));
    }
}

pub fn op_get<S, R: Show>(o: &mut Out, d: &str, f: &str, count: Option<usize>, raws: &[u128],
                          mk: &dyn Fn(u128) -> S, get: &dyn Fn(&S, usize) -> R) {
    match count {
        None => {
            for &raw in raws {
                let r = catch(|| get(&mk(raw), 0));
                o.line(&format!("op {} get {} - {:#x} = {}", d, f, raw, res(r)));
            }
        }
        Some(k) => {
            let (ins, outs) = indices(k);
            for &i in &ins {
                for &raw in raws {
                    let r = catch(|| get(&mk(raw), i));
                    o.line(&format!("op {} get {} {} {:#x} = {}", d, f, i, raw, res(r)));
                }
            }
            for &i in &outs {
                for &raw in raws.iter().take(2) {
                    let r = catch(|| get(&mk(raw), i));
                    o.line(&format!("op {} get {} {} {:#x} = {}", d, f, i, raw, res(r)));
                }
            }
        }
    }
}

pub fn op_write<S, V: Show + Copy>(o: &mut Out, d: &str, f: &str, count: Option<usize>, wraws: &[u128], vals: &[u128],
                            mk: &dyn Fn(u128) -> S, rawof: &dyn Fn(&S) -> u128, stor: &dyn Fn(&S) -> u128, conv: &dyn Fn(u128) -> V,
                            with: &dyn Fn(&S, usize, V) -> S, set: &dyn Fn(&mut S, usize, V)) {
    let (ins, outs) = match count { None => (vec![0usize], vec![]), Some(k) => indices(k) };
    let mut one = |o: &mut Out, i: usize, raw: u128, v: u128| {
        let it = if count.is_some() { format!("{}", i) } else { "-".to_string() };
        let x = conv(v);
        let r = catch(|| { let s = mk(raw); let t = with(&s, i, x); (rawof(&t), rawof(&s), stor(&t)) });
        match r {
            Some((t, s, st)) => {
                o.line(&format!("op {} with {} {} {:#x} {} = ok {:#x}", d, f, it, raw, x.show(), t));
                if s != raw { o.line(&format!("RECEIVER-CHANGED {} {} {} {:#x} {}", d, f, it, raw, x.show())); }
                if st != t { o.line(&format!("HIDDEN-STATE {} with {} {} {:#x} {} storage={:#x} raw_value={:#x}", d, f, it, raw, x.show(), st, t)); }
            }
            None => o.line(&format!("op {} with {} {} {:#x} {} = panic", d, f, it, raw, x.show())),
        }
        let r = catch(|| { let mut s = mk(raw); set(&mut s, i, x); (rawof(&s), stor(&s)) });
        match r {
            Some((t, st)) => {
                o.line(&format!("op {} set {} {} {:#x} {} = ok {:#x}", d, f, it, raw, x.show(), t));
                if st != t { o.line(&format!("HIDDEN-STATE {} set {} {} {:#x} {} storage={:#x} raw_value={:#x}", d, f, it, raw, x.show(), st, t)); }
            }
            None => o.line(&format!("op {} set {} {} {:#x} {} = panic", d, f, it, raw, x.show())),
        }
    };
    for &i in &ins {
        for &raw in wraws {
            for &v in vals { one(o, i, raw, v); }
        }
    }
    for &i in &outs {
        one(o, i, wraws[0], vals[0]);
        one(o, i, wraws[wraws.len() - 1], vals[vals.len() - 1]);
    }
}

pub enum VK { Bits(u32), Small(u32) }
pub struct FI { pub name: &'static str, pub count: Option<usize>, pub vk: VK, pub rb: bool }

/// random histories of writes; after each history the final raw value is printed and the value is compared
/// with its re-wrapped copy through every getter
pub fn op_hist<S>(o: &mut Out, d: &str, n: u32, fields: &[FI], mk: &dyn Fn(u128) -> S, rawof: &dyn Fn(&S) -> u128, stor: &dyn Fn(&S) -> u128,
                  apply: &dyn Fn(&mut S, usize, usize, u128, bool) -> String, getters: &dyn Fn(&S) -> Vec<String>,
                  rewrap: &dyn Fn(&S) -> S, readback: &dyn Fn(&S, usize, usize) -> Option<String>) {
    let nseq = (if o.tier_thorough { 60 } else { 12 }) + o.boost / 8;
    let maxlen = if o.tier_thorough { 200 } else { 24 };
    let m = mask(n);
    let mut r = Rng::new(o.seed, 5000 + n as u64 + (fields.len() as u64) * 17);
    for s in 0..nseq {
        let raw = match s % 3 { 0 => 0, 1 => m, _ => r.next128() & m };
        let len = 1 + r.below(maxlen) as usize;
        let mut steps: Vec<(usize, usize, u128, bool)> = Vec::new();
        for _ in 0..len {
            let fi = r.below(fields.len() as u64) as usize;
            let idx = match fields[fi].count { Some(k) => r.below(k as u64) as usize, None => 0 };
            let v = match fields[fi].vk {
                VK::Bits(w) => { let mm = mask(w); match r.below(4) { 0 => 0, 1 => mm, _ => r.next128() & mm } }
                VK::Small(k) => r.below(k as u64) as u128,
            };
            steps.push((fi, idx, v, r.below(2) == 0));
        }
        let out = catch(|| {
            let mut st = mk(raw);
            let mut text = String::new();
            let mut last: Option<(usize, usize, String)> = None;
            for &(fi, idx, v, use_set) in &steps {
                let shown = apply(&mut st, fi, idx, v, use_set);
                last = Some((fi, idx, shown.clone()));
                let it = match fields[fi].count { Some(_) => format!("{}", idx), None => "-".into() };
                text.push_str(&format!(" {} {} {} {}", if use_set { "s" } else { "w" }, fields[fi].name, it, shown));
            }
            let fin = rawof(&st);
            let same = getters(&st) == getters(&rewrap(&st));
            // the field written last reads back what was written, whatever the writes before it left behind
            let mut rb: Option<String> = None;
            if let Some((fi, idx, shown)) = last {
                if fields[fi].rb {
                    if let Some(got) = readback(&st, fi, idx) {
                        if got != format!("ok {}", shown) && got != format!("ok Ok({})", shown) {
                            rb = Some(format!("{} {} wrote {} read {}", fields[fi].name, idx, shown, got));
                        }
                    }
                }
            }
            (text, fin, same, stor(&st), rb)
        });
        match out {
            Some((text, fin, same, sto, rb)) => {
                if let Some(x) = rb { o.line(&format!("READBACK-DIFF {} hist {:#x} {}{} :: {}", d, raw, steps.len(), text, x)); }
                o.line(&format!("op {} hist {:#x} {}{} = ok {:#x}", d, raw, steps.len(), text, fin));
                if !same { o.line(&format!("REWRAP-DIFF {} hist {:#x} {}{}", d, raw, steps.len(), text)); }
                if sto != fin { o.line(&format!("HIDDEN-STATE {} hist {:#x} {}{} storage={:#x} raw_value={:#x}", d, raw, steps.len(), text, sto, fin)); }
            }
            None => o.line(&format!("HIST-PANIC {} raw={:#x} steps={}", d, raw, steps.len())),
        }
    }
}
