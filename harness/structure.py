"""Structural checks of the parts of an expansion that are not integer expressions: the Debug impl, the builder
(start value, step bodies, build), and the two bitenum conversions.  Each function returns a canonical description
of what the real expansion does (or raises ValueError when it has an unexpected shape); the pipeline compares it
with the description derived from the Lean model's output."""
import re


def texts(toks):
    return [t for _, t in toks]


def join(toks):
    return " ".join(texts(toks))


def debug_impl(items, name):
    """(struct name, [field names in order]) of the Debug impl, or None when there is none.
    Expected: f . debug_struct ( stringify ! ( NAME ) ) { . field ( stringify ! ( F ) , & self . F ( ) ) }* . finish ( )"""
    fmt = [it for it in items if it.name == "fmt" and it.impl_header and "Debug" in it.impl_header and it.impl_header[-1] == name]
    if not fmt:
        return None
    s = join(fmt[0].body)
    m = re.match(r"^f \. debug_struct \( stringify ! \( (\S+) \) \) (.*)\. finish \( \)$", s)
    if not m:
        raise ValueError("unexpected Debug body: " + s[:200])
    sname, rest = m.group(1), m.group(2)
    fields = []
    pos = 0
    pat = re.compile(r"\. field \( stringify ! \( (\S+) \) , & self \. (\S+) \( \) \) ")
    while pos < len(rest):
        mm = pat.match(rest, pos)
        if not mm:
            raise ValueError("unexpected Debug field chain: " + rest[pos:pos + 120])
        if mm.group(1) != mm.group(2):
            raise ValueError("Debug field %s printed from getter %s" % (mm.group(1), mm.group(2)))
        fields.append(mm.group(1))
        pos = mm.end()
    return sname, fields


def builder_desc(items, name):
    """None when there is no builder, else dict(start=…, steps=[(method, count|None)], build=True)"""
    b = [it for it in items if it.name == "builder" and it.impl_header == [name]]
    if not b:
        return None
    s = join(b[0].body)
    part = "Partial" + name
    if s == "%s ( %s : : DEFAULT )" % (part, name):
        start = "DEFAULT"
    elif s == "%s ( %s : : new_with_raw_value ( 0 ) )" % (part, name):
        start = "zero"
    else:
        m = re.match(r"^const ZERO : (\S+) = (\S+) : : new \( 0 \) ; %s \( %s : : new_with_raw_value \( ZERO \) \)$" % (re.escape(part), re.escape(name)), s)
        if m and m.group(1) == m.group(2):
            start = "zero"
        else:
            raise ValueError("unexpected builder() body: " + s[:200])
    steps = []
    build = False
    for it in items:
        h = it.impl_header or []
        if not h or h[0] != part:
            continue
        body = join(it.body)
        if it.name == "build":
            if body != "self . 0":
                raise ValueError("unexpected build() body: " + body[:120])
            build = True
            continue
        m = re.match(r"^%s \( self \. 0 (.*)\)$" % re.escape(part), body)
        if not m:
            raise ValueError("unexpected builder step body: " + body[:200])
        chain = m.group(1)
        if chain == ". %s ( value ) " % it.name:
            steps.append((it.name, None))
            continue
        pos = 0
        k = 0
        while pos < len(chain):
            piece = ". %s ( %dusize , value [ %dusize ] ) " % (it.name, k, k)
            if not chain.startswith(piece, pos):
                raise ValueError("unexpected array step %s at element %d: %s" % (it.name, k, chain[pos:pos + 80]))
            pos += len(piece)
            k += 1
        steps.append((it.name, k))
    return {"start": start, "steps": steps, "build": build}


def enum_desc(items, name):
    """dict(raw=('uint', base, size) | ('native', base), nonexh=bool, arms=[(discriminant, variant, cfg?)] , reader)"""
    rv = [it for it in items if it.name == "raw_value" and it.impl_header == [name]]
    nw = [it for it in items if it.name == "new_with_raw_value" and it.impl_header == [name]]
    if not rv or not nw:
        raise ValueError("conversion functions missing")
    s = join(rv[0].body)
    m = re.match(r"^arbitrary_int : : UInt : : < (u\d+) , (\d+)usize > : : new \( self as (u\d+) \)$", s)
    if m and m.group(1) == m.group(3):
        raw = ("uint", m.group(1), int(m.group(2)))
    else:
        m = re.match(r"^\( self as (u\d+) \)$", s) or re.match(r"^self as (u\d+)$", s)
        if not m:
            raise ValueError("unexpected raw_value body: " + s[:200])
        raw = ("native", m.group(1))
    s = join(nw[0].body)
    m = re.match(r"^match value( \. value \( \))? \{ (.*) \}$", s)
    if not m:
        raise ValueError("unexpected new_with_raw_value body: " + s[:200])
    reader = bool(m.group(1))
    arms_txt = m.group(2)
    arms = []
    pos = 0
    arm = re.compile(r"((?:# \[ cfg \( [^\]]*\) \] )*)\( ([0-9A-Za-z_]+) \) = > (Ok )?\( Self : : (\S+) \) , ")
    while True:
        mm = arm.match(arms_txt, pos)
        if not mm:
            break
        lit = mm.group(2)
        mnum = re.match(r"^(0x[0-9a-fA-F_]+|0b[01_]+|0o[0-7_]+|[0-9][0-9_]*)", lit)
        arms.append((int(mnum.group(1).replace("_", ""), 0) if mnum else lit, mm.group(4), bool(mm.group(1)), bool(mm.group(3))))
        pos = mm.end()
    tail = arms_txt[pos:]
    if tail == "value = > Err ( value )":
        nonexh = True
    elif tail == "_ = > unreachable ! ( )":
        nonexh = False
    else:
        raise ValueError("unexpected default arm: " + tail[:120])
    if any(a[3] != nonexh for a in arms):
        raise ValueError("Ok-wrapping of the arms does not match the default arm")
    return {"raw": raw, "reader": reader, "nonexh": nonexh, "arms": [(a[0], a[1], a[2]) for a in arms]}
