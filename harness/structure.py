"""Structural checks of the parts of an expansion that are not integer expressions: the Debug impl, the builder
(start value, step bodies, build), and the two bitenum conversions.  Each function returns a canonical description
of what the real expansion does (or raises ValueError when it has an unexpected shape); the pipeline compares it
with the description derived from the Lean model's output."""
import re


def texts(toks):
    return [t for _, t in toks]


def join(toks):
    return " ".join(texts(toks))


def debug_impl(items, name):
    """(struct name, [field names in order]) of the Debug impl, or None when there is none.
    Expected: f . debug_struct ( stringify ! ( NAME ) ) { . field ( stringify ! ( F ) , & self . F ( ) ) }* . finish ( )"""
    fmt = [it for it in items if it.name == "fmt" and it.impl_header and "Debug" in it.impl_header and it.impl_header[-1] == name]
    if not fmt:
        return None
    s = join(fmt[0].body)
    # the same calls written as statements on a local (`let mut d = f.debug_struct(..); d.field(..); ..; d.finish()`) are the
    # chain: every DebugStruct method returns the receiver
    ms = re.match(r"^let mut (\w+) = (f \. debug_struct \( stringify ! \( \S+ \) \)) ; (.*)$", s)
    if ms:
        v, rest = ms.group(1), ms.group(3)
        calls = rest.split(" ; ")
        if all(c.startswith(v + " . ") for c in calls):
            s = ms.group(2) + " " + " ".join(c[len(v) + 1:] for c in calls)
    m = re.match(r"^f \. debug_struct \( stringify ! \( (\S+) \) \) (.*)\. finish \( \)$", s)
    if not m:
        raise ValueError("unexpected Debug body: " + s[:200])
    sname, rest = m.group(1), m.group(2)
    fields = []
    pos = 0
    pat = re.compile(r"\. field \( stringify ! \( (\S+) \) , & self \. (\S+) \( \) \) ")
    while pos < len(rest):
        mm = pat.match(rest, pos)
        if not mm:
            raise ValueError("unexpected Debug field chain: " + rest[pos:pos + 120])
        if mm.group(1) != mm.group(2):
            raise ValueError("Debug field %s printed from getter %s" % (mm.group(1), mm.group(2)))
        fields.append(mm.group(1))
        pos = mm.end()
    return sname, fields


def builder_desc(items, name):
    """None when there is no builder, else dict(start=…, steps=[(method, count|None)], build=True)"""
    b = [it for it in items if it.name == "builder" and it.impl_header == [name]]
    if not b:
        return None
    s = join(b[0].body)
    part = "Partial" + name
    s = re.sub(r"\bSelf\b", name, s)     # `Self` is the struct inside its inherent impl
    if s == "%s ( %s : : DEFAULT )" % (part, name):
        start = "DEFAULT"
    elif s in ("%s ( %s : : new_with_raw_value ( 0 ) )" % (part, name), "%s ( %s : : ZERO )" % (part, name)):
        # ZERO is checked to be the zero value by the `zero` operation of every declaration (C06)
        start = "zero"
    else:
        m = re.match(r"^const ZERO : (\S+) = (\S+) : : new \( 0 \) ; %s \( %s : : new_with_raw_value \( ZERO \) \)$" % (re.escape(part), re.escape(name)), s)
        if m and m.group(1) == m.group(2):
            start = "zero"
        else:
            raise ValueError("unexpected builder() body: " + s[:200])
    steps = []
    build = False
    for it in items:
        h = it.impl_header or []
        if not h or h[0] != part:
            continue
        body = join(it.body)
        if it.name == "build":
            if body != "self . 0":
                raise ValueError("unexpected build() body: " + body[:120])
            build = True
            continue
        m = re.match(r"^%s \( self \. 0 (.*)\)$" % re.escape(part), body)
        if not m:
            raise ValueError("unexpected builder step body: " + body[:200])
        chain = m.group(1)
        if chain == ". %s ( value ) " % it.name:
            steps.append((it.name, None))
            continue
        pos = 0
        k = 0
        while pos < len(chain):
            piece = ". %s ( %dusize , value [ %dusize ] ) " % (it.name, k, k)
            if not chain.startswith(piece, pos):
                raise ValueError("unexpected array step %s at element %d: %s" % (it.name, k, chain[pos:pos + 80]))
            pos += len(piece)
            k += 1
        steps.append((it.name, k))
    return {"start": start, "steps": steps, "build": build}


def enum_desc(items, name):
    """dict(raw=('uint', base, size) | ('native', base), nonexh=bool, arms=[(discriminant, variant, cfg?)] , reader)"""
    rv = [it for it in items if it.name == "raw_value" and it.impl_header == [name]]
    nw = [it for it in items if it.name == "new_with_raw_value" and it.impl_header == [name]]
    if not rv or not nw:
        raise ValueError("conversion functions missing")
    s = join(rv[0].body)
    ml = re.match(r"^let (\w+) = (self as u\d+) ; (.*)$", s)
    if ml and len(re.findall(r"\b%s\b" % ml.group(1), ml.group(3))) == 1:
        s = re.sub(r"\b%s\b" % ml.group(1), ml.group(2), ml.group(3))     # a local used once
    m = re.match(r"^arbitrary_int : : UInt : : < (u\d+) , (\d+)usize > : : new \( self as (u\d+) \)$", s)
    if m and m.group(1) == m.group(3):
        raw = ("uint", m.group(1), int(m.group(2)))
    else:
        m = re.match(r"^\( self as (u\d+) \)$", s) or re.match(r"^self as (u\d+)$", s)
        if not m:
            raise ValueError("unexpected raw_value body: " + s[:200])
        raw = ("native", m.group(1))
    s = join(nw[0].body)
    if s.startswith("let value = value . value ( ) ; match value {"):
        s = "match value . value ( ) {" + s[len("let value = value . value ( ) ; match value {"):]     # the scrutinee bound to a local first
    m = re.match(r"^match value( \. value \( \))? \{ (.*) \}$", s)
    if not m:
        raise ValueError("unexpected new_with_raw_value body: " + s[:200])
    reader = bool(m.group(1))
    arms_txt = m.group(2)
    arms = []
    pos = 0
    arm = re.compile(r"((?:# \[ cfg \( [^\]]*\) \] )*)\( ([0-9A-Za-z_]+) \) = > (Ok )?\( Self : : (\S+) \) , ")
    while True:
        mm = arm.match(arms_txt, pos)
        if not mm:
            break
        lit = mm.group(2)
        mnum = re.match(r"^(0x[0-9a-fA-F_]+|0b[01_]+|0o[0-7_]+|[0-9][0-9_]*)", lit)
        arms.append((int(mnum.group(1).replace("_", ""), 0) if mnum else lit, mm.group(4), bool(mm.group(1)), bool(mm.group(3))))
        pos = mm.end()
    tail = arms_txt[pos:]
    if tail == "value = > Err ( value )":
        nonexh = True
    elif tail == "_ = > unreachable ! ( )":
        nonexh = False
    else:
        raise ValueError("unexpected default arm: " + tail[:120])
    if any(a[3] != nonexh for a in arms):
        raise ValueError("Ok-wrapping of the arms does not match the default arm")
    return {"raw": raw, "reader": reader, "nonexh": nonexh, "arms": [(a[0], a[1], a[2]) for a in arms]}


def int_literal(text):
    """value of a Rust integer literal (radix prefix, `_`, optional type suffix), or None"""
    m = re.match(r"^(0x[0-9a-fA-F_]+|0o[0-7_]+|0b[01_]+|[0-9][0-9_]*?)((?:u|i)(?:8|16|32|64|128|size))?$", text)
    if not m:
        return None
    digits = m.group(1).replace("_", "")
    try:
        return int(digits, 0) if digits[:2] in ("0x", "0o", "0b") else int(digits, 10)
    except ValueError:
        return None


def consts_desc(items, name, base_ident, arbitrary):
    """canonical description of ZERO / DEFAULT_RAW_VALUE / DEFAULT / new() / Default::default():
    dict(zero=0, default=None | ('lit', n) | ('const', ident))"""
    out = {"zero": None, "default": None}
    byname = {}
    for it in items:
        if it.impl_header == [name] or (it.impl_header and it.impl_header[-1] == name and "Default" in it.impl_header):
            byname.setdefault(it.name, it)
    z = byname.get("ZERO")
    if z is None:
        raise ValueError("ZERO missing")
    zs = join(z.body)
    if arbitrary:
        ok = zs == "Self : : new_with_raw_value ( %s : : new ( 0 ) )" % base_ident
    else:
        ok = zs == "Self : : new_with_raw_value ( 0 )"
    if not ok:
        raise ValueError("unexpected ZERO: " + zs[:120])
    out["zero"] = 0
    drv = byname.get("DEFAULT_RAW_VALUE")
    if drv is not None:
        ty = join([x for x in drv.sig if True]) if False else " ".join(drv.sig)
        if ty != ": %s" % base_ident:
            raise ValueError("DEFAULT_RAW_VALUE has type '%s'" % ty)
        body = join(drv.body)
        if arbitrary:
            m = re.match(r"^%s : : new \( (\S+) \)$" % re.escape(base_ident), body)
            if not m:
                raise ValueError("unexpected DEFAULT_RAW_VALUE: " + body[:120])
            body = m.group(1)
        v = int_literal(body)
        out["default"] = ["lit", v] if v is not None else ["const", body]
        for nm, want in (("DEFAULT", "Self : : new_with_raw_value ( Self : : DEFAULT_RAW_VALUE )"), ("new", "Self : : DEFAULT"), ("default", "Self : : DEFAULT")):
            it = byname.get(nm)
            if it is None:
                raise ValueError("%s missing" % nm)
            if join(it.body) != want:
                raise ValueError("unexpected %s: %s" % (nm, join(it.body)[:120]))
    else:
        for nm in ("DEFAULT", "new", "default"):
            if nm in byname:
                raise ValueError("%s present without DEFAULT_RAW_VALUE" % nm)
    return out
