#!/bin/sh
# usage: try_mutation.sh <patch.diff> <prop> [<prop> ...]   — applies the patch to /repo, runs the checks, restores /repo
patch="$1"; shift
cd /repo || exit 2
git -C /repo apply "$patch" || { echo "patch does not apply"; exit 2; }
trap 'git -C /repo checkout -- . ' EXIT
cd /verif
for p in "$@"; do
  ./check "$p" 2>/dev/null | grep -E "VIOLATION|KNOWN|: ok|: FAIL"
done
