import Lean
/-!
Audit of property modules: for every theorem declared in the given modules prints
`theorem <name> axioms=[...]`. Run as `lake env lean --run Audit.lean BitbybitModel.Props.C01 …`.
The modules are loaded from the compiled `.olean` files; nothing is re-elaborated here.
-/
open Lean

def main (args : List String) : IO UInt32 := do
  initSearchPath (← findSysroot)
  let mods := args.map (fun a => a.toName)
  let env ← importModules (mods.map (fun m => { module := m : Import })).toArray {} (trustLevel := 1024)
  let mut bad := 0
  for m in mods do
    match env.getModuleIdx? m with
    | none => IO.println s!"missing-module {m}"; bad := bad + 1
    | some idx =>
      let names := env.header.moduleData[idx.toNat]!.constNames
      for n in names do
        match env.find? n with
        | some (.thmInfo _) =>
          if n.isInternal then continue
          let ctx : Core.Context := { fileName := "<audit>", fileMap := default }
          let (arr, _) ← (Lean.collectAxioms n : CoreM (Array Name)).toIO ctx { env := env }
          let axs := arr.toList.map toString
          IO.println s!"theorem {n} axioms={axs}"
        | _ => pure ()
  return (if bad > 0 then 1 else 0)
