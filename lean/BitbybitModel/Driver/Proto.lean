import BitbybitModel.Macro.Bitfield
import BitbybitModel.Macro.Bitenum
import BitbybitModel.Spec.Register
import Std.Data.HashMap
import BitbybitModel.Macro.Args
/-!
# Line-protocol driver: runs the model (`M`) and the reference semantics (`S`) on the operations the
runner executed on the real code (`R`), and reports every disagreement.
-/
namespace Bb.Driver
open Bb

/-! ## small parsing helpers -/

def hexDigit (c : Char) : Option Nat :=
  if '0' ≤ c ∧ c ≤ '9' then some (c.toNat - '0'.toNat)
  else if 'a' ≤ c ∧ c ≤ 'f' then some (c.toNat - 'a'.toNat + 10)
  else if 'A' ≤ c ∧ c ≤ 'F' then some (c.toNat - 'A'.toNat + 10)
  else none

def parseHex (s : String) : Option Nat :=
  match s.toList with
  | '0' :: 'x' :: ds =>
    if ds.isEmpty then none else
    ds.foldl (fun acc c => match acc, hexDigit c with
      | some a, some d => some (a * 16 + d) | _, _ => none) (some 0)
  | _ => none

def parseNum (s : String) : Option Nat :=
  match parseHex s with
  | some n => some n
  | none => parseDigits s

def hexChar (d : Nat) : Char := if d < 10 then Char.ofNat (d + '0'.toNat) else Char.ofNat (d - 10 + 'a'.toNat)

partial def hexDigits (n : Nat) (acc : List Char) : List Char :=
  if n < 16 then hexChar n :: acc else hexDigits (n / 16) (hexChar (n % 16) :: acc)

def toHex (n : Nat) : String := "0x" ++ String.ofList (hexDigits n [])

def kv (key : String) (ws : List String) : Option String :=
  ws.findSome? fun w => if w.startsWith (key ++ "=") then some ((w.drop (key.length + 1)).toString) else none

/-! ## tokenizer for attribute text -/

def isWordChar (c : Char) : Bool := c.isAlphanum || c = '_'

/-- tokens up to the matching close delimiter; returns (tokens, rest) -/
partial def lexUntil (close : Option Char) : List Char → List Tok → Option (List Tok × List Char)
  | [], acc => if close.isNone then some (acc.reverse, []) else none
  | c :: cs, acc =>
    if some c = close then some (acc.reverse, cs)
    else if c = ' ' ∨ c = '\t' then lexUntil close cs acc
    else if c = '(' ∨ c = '[' ∨ c = '{' then
      let cl := if c = '(' then ')' else if c = '[' then ']' else '}'
      match lexUntil (some cl) cs [] with
      | some (inner, rest) => lexUntil close rest (.group c inner :: acc)
      | none => none
    else if c = ')' ∨ c = ']' ∨ c = '}' then none
    else if isWordChar c then
      let word := (c :: cs).takeWhile isWordChar
      let rest := (c :: cs).dropWhile isWordChar
      let t := if c.isDigit then Tok.ofLiteralText (String.ofList word) else Tok.ident (String.ofList word)
      lexUntil close rest (t :: acc)
    else lexUntil close cs (.punct c :: acc)

/-- `bits(0..=3, rw)` ↦ Attr -/
def parseAttrText (s : String) : Option Attr :=
  let toks : Option (List Tok) := (lexUntil none s.toList []).map (fun p => p.1)
  match toks with
  | some [.ident name, .group d ts] => some { name := name, isList := true, delim := d, toks := ts }
  | some [.ident name] => some { name := name, isList := false }
  | some (.ident name :: .punct '=' :: _) => some { name := name, isList := false }
  | _ => none

def splitOnStr (s sep : String) : List String := s.splitOn sep

def parseTy (s : String) : TySyn :=
  if s.startsWith "Option<" ∧ s.endsWith ">" then
    let inner := ((s.drop 7).dropEnd 1).toString
    { segs := ["Option"], lastArgs := some ((inner.splitOn ",").map (fun a =>
        -- lifetimes and const expressions are not types
        if a.startsWith "'" ∨ a.toList.head?.any Char.isDigit then [] else a.splitOn "::")) }
  else if s = "Option" then { segs := ["Option"], lastArgs := none }
  else if s.startsWith "(" ∨ s.startsWith "&" ∨ s.startsWith "*" ∨ s.startsWith "[" ∨ s.startsWith "fn(" then { isPath := false, segs := [] }
  else { segs := s.splitOn "::" }


/-! ## tokenizer for the argument list of `#[bitfield(…)]` -/

def digitVal (c : Char) : Option Nat :=
  if c.isDigit then some (c.toNat - '0'.toNat)
  else if 'a' ≤ c ∧ c ≤ 'f' then some (c.toNat - 'a'.toNat + 10)
  else if 'A' ≤ c ∧ c ≤ 'F' then some (c.toNat - 'A'.toNat + 10)
  else none

def intSuffixes : List String :=
  ["u8", "u16", "u32", "u64", "u128", "usize", "i8", "i16", "i32", "i64", "i128", "isize"]

/-- value of an integer literal as rustc reads it: radix prefix, `_` separators, optional type suffix -/
def parseIntLiteral (w : String) : Option Nat :=
  let w := (intSuffixes.find? (fun sfx => w.endsWith sfx)).elim w (fun sfx => (w.dropEnd sfx.length).toString)
  let (radix, body) : Nat × List Char :=
    match w.toList with
    | '0' :: 'x' :: r => (16, r)
    | '0' :: 'o' :: r => (8, r)
    | '0' :: 'b' :: r => (2, r)
    | r => (10, r)
  let ds := body.filter (· ≠ '_')
  if ds.isEmpty then none else
  ds.foldl (fun acc c => match acc, digitVal c with
    | some a, some d => if d < radix then some (a * radix + d) else none
    | _, _ => none) (some 0)

/-- one argument: leading path, then the tokens the closure can look at -/
partial def lexArgRest : List Char → List ATok → List ATok
  | [], acc => acc.reverse
  | c :: cs, acc =>
    if c = ' ' ∨ c = '\t' then lexArgRest cs acc
    else if c = ':' then lexArgRest cs (.colon :: acc)
    else if c = '=' then lexArgRest cs (.eq :: acc)
    else if c = '"' then
      let rest := (cs.dropWhile (· ≠ '"')).drop 1
      lexArgRest rest (.otherLit :: acc)
    else if c = '-' ∧ (cs.dropWhile (· = ' ')).head?.any Char.isDigit then
      let cs' := cs.dropWhile (· = ' ')
      let word := cs'.takeWhile isWordChar
      let rest := cs'.dropWhile isWordChar
      match parseIntLiteral (String.ofList word) with
      | some v => lexArgRest rest (.int v true :: acc)
      | none => lexArgRest rest (.other :: acc)
    else if c.isDigit then
      let word := (c :: cs).takeWhile isWordChar
      let rest := (c :: cs).dropWhile isWordChar
      -- a float: digits '.' digits
      match rest with
      | '.' :: d :: rest' =>
        if d.isDigit then lexArgRest ((d :: rest').dropWhile isWordChar) (.otherLit :: acc)
        else lexArgRest rest ((match parseIntLiteral (String.ofList word) with | some v => ATok.int v false | none => .other) :: acc)
      | _ => lexArgRest rest ((match parseIntLiteral (String.ofList word) with | some v => ATok.int v false | none => .other) :: acc)
    else if isWordChar c then
      let word := String.ofList ((c :: cs).takeWhile isWordChar)
      let rest := (c :: cs).dropWhile isWordChar
      let t : ATok := if word = "true" ∨ word = "false" then .otherLit else .ident word
      lexArgRest rest (t :: acc)
    else lexArgRest cs (.other :: acc)

partial def lexArgPath : List Char → List String → List String × List Char
  | cs, acc =>
    let cs := cs.dropWhile (· = ' ')
    match cs with
    | c :: _ =>
      if isWordChar c ∧ !c.isDigit then
        let word := String.ofList (cs.takeWhile isWordChar)
        let rest := (cs.dropWhile isWordChar).dropWhile (· = ' ')
        match rest with
        | ':' :: ':' :: rest' => lexArgPath rest' (word :: acc)
        | _ => ((word :: acc).reverse, rest)
      else (acc.reverse, cs)
    | [] => (acc.reverse, [])

/-- `u32, default = 5, debug` ↦ arguments (split at top-level commas; a trailing comma is allowed) -/
def lexDeclArgs (s : String) : List ArgSyn :=
  let pieces := (s.splitOn ",").map (fun p => p.trimAscii.toString)
  let pieces := if pieces.getLast? = some "" then pieces.dropLast else pieces
  pieces.map fun p =>
    let (path, rest) := lexArgPath p.toList []
    { path := path, rest := lexArgRest rest [] }

/-! ## the type table -/

inductive TypeEntry where
  | enum (name : String) (d : EnumDef)
  | bitfield (name : String) (p : Program)
  | rejected (name : String)
  deriving Inhabited

def TypeEntry.name : TypeEntry → String
  | .enum n _ | .bitfield n _ | .rejected n => n

structure State where
  types : Array TypeEntry := #[]
  index : Std.HashMap String Nat := {}
  -- pending declaration being read
  curEnum : Option EnumSyn := none
  curDecl : Option DeclSyn := none
  /-- the argument list of the pending declaration was rejected -/
  curArgsErr : Option Reject := none
  nOps : Nat := 0
  nMisM : Nat := 0
  nMisS : Nat := 0
  nSkipS : Nat := 0
  /-- emitted bodies that differ syntactically from the model's, read back into `Expr` (key: `decl item`) -/
  actual : Std.HashMap String Expr := {}
  nOpsA : Nat := 0
  nMisA : Nat := 0
  /-- semantics corpus: expression, type of `a`, type of `b` (`Sum.inl` native / `Sum.inr` arbitrary-int width) -/
  sem : Std.HashMap String (Expr × ITy × (ITy ⊕ Nat)) := {}
  nSem : Nat := 0
  nMisSem : Nat := 0
  deriving Inhabited

def State.find (st : State) (name : String) : Option (Nat × TypeEntry) :=
  match st.index[name]? with
  | some i => (st.types[i]?).map (fun e => (i, e))
  | none => none

def State.push (st : State) (e : TypeEntry) : State :=
  { st with index := st.index.insert e.name st.types.size, types := st.types.push e }

def State.resolve (st : State) (segs : List String) : Nat :=
  match segs.getLast? with
  | some n => match st.find n with | some (i, _) => i | none => 1000000
  | none => 1000000

def customInfoOf (st : State) (ty : Nat) : Option CustomInfo :=
  match st.types[ty]? with
  | some (.enum _ d) =>
    some { rawNative := !d.bits.isArbitraryInt, rawBits := d.bits.size, newReturnsResult := d.nonExhaustive }
  | some (.bitfield _ p) =>
    some { rawNative := !p.base.isArbitrary, rawBits := p.base.exposed, newReturnsResult := false }
  | _ => none

/-- numeric payload of a raw value -/
def rawNat : Val → Option Nat
  | .int _ n => some n
  | .uint _ n => some n
  | _ => none

/-- the user types' conversion functions, from the model of `bitenum` and of `bitfield` -/
def customEnv (st : State) : CustomEnv where
  new := fun ty x =>
    match st.types[ty]?, rawNat x with
    | some (.enum _ d), some n =>
      match d.newWithRawValue n with
      | .variant _ => if d.nonExhaustive then .ok (.res true (.custom ty x)) else .ok (.custom ty x)
      | .err e => .ok (.res false (.int d.baseType e))
      | .unreachable => .error (.panic "unreachable!()")
    | some (.bitfield _ _), some _ => .ok (.custom ty x)
    | _, _ => .error (.stuck "unknown custom type")
  raw := fun v =>
    match v with
    | .custom _ r => .ok r
    | _ => .error (.stuck "raw_value() receiver")

/-! ## showing values canonically -/

def variantName (st : State) (ty : Nat) (n : Nat) : String :=
  match st.types[ty]? with
  | some (.enum _ d) =>
    match d.active.find? (fun p => p.2 == n) with
    | some (name, _) => name
    | none => "?" ++ toHex n
  | _ => toHex n

partial def showVal (st : State) : Val → String
  | .int _ n => toHex n
  | .bool b => if b then "0x1" else "0x0"
  | .uint _ n => toHex n
  | .custom ty r => match rawNat r with | some n => variantName st ty n | none => "?"
  | .res true v => "Ok(" ++ showVal st v ++ ")"
  | .res false v => "Err(" ++ showVal st v ++ ")"

def showR (st : State) : R → String
  | .ok v => "ok " ++ showVal st v
  | .error (.panic _) => "panic"
  | .error (.stuck m) => "stuck:" ++ m

/-! ## evaluating operations on a Program -/

def rawVal (B : Base) (n : Nat) : Val := .int B.W n

def findField (p : Program) (name : String) : Option FieldDef := p.fields.find? (·.name == name)

/-- the `Val` of a field argument given as text (hex pattern, or a variant name for enums) -/
def argVal (st : State) (fd : FieldDef) (s : String) : Option Val :=
  match fd.custom with
  | none =>
    match parseNum s with
    | none => none
    | some n =>
      if fd.fieldTypeSize = 0 then some (.bool (n != 0))
      else if fd.useRegularInt then some (.int fd.primitiveType n)
      else some (.uint fd.totalBits n)
  | some c =>
    match st.types[c.ty]? with
    | some (.enum _ d) =>
      match d.active.find? (fun p => p.1 == s) with
      | some (_, n) =>
        if d.bits.isArbitraryInt then some (.custom c.ty (.uint d.bits.size n)) else some (.custom c.ty (.int d.baseType n))
      | none => none
    | some (.bitfield _ p) =>
      match parseNum s with
      | some n => if p.base.isArbitrary then some (.custom c.ty (.uint p.base.exposed n)) else some (.custom c.ty (.int p.base.W n))
      | none => none
    | _ => none

def idxVal (s : String) : Val := match parseNum s with | some n => .int .usize n | none => .bool false

/-- model: getter -/
def mGet (st : State) (chk : Bool) (p : Program) (fd : FieldDef) (idx : String) (raw : Nat) : R :=
  match getterBody p.base fd with
  | none => .error (.stuck "no getter body")
  | some e => eval (customEnv st) chk { raw := rawVal p.base raw, index := idxVal idx } e

/-- model: with_/set_ → new raw -/
def mWith (st : State) (chk : Bool) (p : Program) (fd : FieldDef) (idx : String) (raw : Nat) (v : Val) : R :=
  match setterBody p.base fd with
  | none => .error (.stuck "no setter body")
  | some e => eval (customEnv st) chk { raw := rawVal p.base raw, index := idxVal idx, fieldValue := v } e

/-- the value exposed by `raw_value()` given the storage -/
def mRawValue (st : State) (chk : Bool) (p : Program) (storage : Nat) : R :=
  eval (customEnv st) chk { raw := rawVal p.base storage } (rawValueBody p.base)

/-- storage after `new_with_raw_value(x)` for an exposed value `x` -/
def mNewWithRaw (st : State) (chk : Bool) (p : Program) (x : Nat) : R :=
  let v : Val := if p.base.isArbitrary then .uint p.base.exposed x else .int p.base.W x
  eval (customEnv st) chk { raw := .bool false, value := v } (newWithRawBody p.base)

/-! ### reference semantics (independent of the templates) -/

/-- the numeric pattern of a written value: what the property calls "v" -/
def patternOf (_st : State) : Val → Option Nat
  | .int _ n => some n
  | .bool b => some (if b then 1 else 0)
  | .uint _ n => some n
  | .custom _ r => rawNat r
  | _ => none

def offOf (fd : FieldDef) (i : Nat) : Nat := match fd.array with | some (_, s) => i * s | none => 0

def selfOverlapping (fd : FieldDef) : Bool := !pairwiseDisjoint fd.ranges

/-- spec: value read, as the presented type -/
def sGet (st : State) (_p : Program) (fd : FieldDef) (idx : String) (raw : Nat) : R :=
  let i := (parseNum idx).getD 0
  match fd.array with
  | some (k, _) => if i ≥ k then .error (.panic "index out of range") else go i
  | none => go i
where go (i : Nat) : R :=
  let bits := gather raw (offOf fd i) fd.ranges 0
  let presented : Val :=
    if fd.fieldTypeSize = 0 then .bool (bits != 0)
    else if fd.useRegularInt then .int fd.primitiveType bits
    else .uint fd.totalBits bits
  match fd.custom with
  | none => .ok presented
  | some c => (customEnv st).new c.ty presented

def sWith (st : State) (p : Program) (fd : FieldDef) (idx : String) (raw : Nat) (v : Val) : R :=
  let i := (parseNum idx).getD 0
  let oob := match fd.array with | some (k, _) => decide (i ≥ k) | none => false
  if oob then .error (.panic "index out of range") else
  match patternOf st v with
  | none => .error (.stuck "value")
  | some pat => .ok (rawVal p.base (writeSpec p.base.internal raw pat (offOf fd i) fd.ranges))

end Bb.Driver
