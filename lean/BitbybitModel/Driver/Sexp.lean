import BitbybitModel.Symbolic.Nf
/-!
# Reading the S-expression form of an emitted body back into `Expr`

`harness/rustexpr.py` translates the token stream of every generated function body into the S-expression form the
driver prints for the model's bodies. This file reads that form back (`elabSx`), so that the emitted body can be
normalised (`Nf.bodiesEquiv` against the model's body) and evaluated on the probe operations (`A` results).

Unsuffixed literals get the type Rust infers in the positions the templates use them: the other operand's type
for `& | + - * != <`, `i32` as a shift amount or cast operand (integer fallback; the value is what matters there),
`usize` as `start_bit`, the storage type as the argument of `uN::new`. Anything else is not translated (`none`), which
never counts as "equivalent". Names bound by `let` / `const` are mapped to the model's four scratch variables.
This is part of the trusted translator (DESIGN §8); its output is validated against the real results on every
probe operation (`mismatch A`).
-/
namespace Bb.Driver
open Bb

inductive Sx where
  | atom (s : String)
  | list (xs : List Sx)
  deriving Repr, Inhabited

partial def parseSxList : List String → Option (List Sx × List String)
  | [] => none
  | ")" :: rest => some ([], rest)
  | "(" :: rest =>
    match parseSxList rest with
    | some (xs, rest') =>
      match parseSxList rest' with
      | some (ys, rest'') => some (.list xs :: ys, rest'')
      | none => none
    | none => none
  | a :: rest =>
    match parseSxList rest with
    | some (ys, rest') => some (.atom a :: ys, rest')
    | none => none

def sxTokens (s : String) : List String :=
  let step := fun (acc : List String × List Char) (c : Char) =>
    let (toks, cur) := acc
    let flush := if cur.isEmpty then toks else String.ofList cur.reverse :: toks
    if c = '(' then ("(" :: flush, []) else if c = ')' then (")" :: flush, [])
    else if c = ' ' then (flush, []) else (toks, c :: cur)
  let (toks, cur) := s.toList.foldl step ([], [])
  (if cur.isEmpty then toks else String.ofList cur.reverse :: toks).reverse

def parseSx (s : String) : Option Sx :=
  match parseSxList (sxTokens s ++ [")"]) with
  | some ([x], []) => some x
  | _ => none

def ityOfName : String → Option ITy
  | "u8" => some .u8 | "u16" => some .u16 | "u32" => some .u32 | "u64" => some .u64 | "u128" => some .u128
  | "usize" => some .usize | "i8" => some .i8 | "i16" => some .i16 | "i32" => some .i32 | "i64" => some .i64
  | "i128" => some .i128 | _ => none

def opOfName : String → Option BinOp
  | "<<" => some .shl | ">>" => some .shr | "&" => some .and | "|" => some .or | "+" => some .add
  | "-" => some .sub | "*" => some .mul | "!=" => some .ne | "<" => some .lt
  | "^" => some .bxor | "==" => some .eqq | _ => none

def fixedVar : String → Option Var
  | "raw" => some .raw | "field_value" => some .fieldValue | "index" => some .index | "value" => some .value
  | _ => none

def scratchVars : List Var := [.temp, .effIndex, .extracted, .constMask]

/-- elaboration context: bound names (with the scratch variable they were given and, if known, their integer type),
    the types of the free variables, and the user types by name -/
structure ECtx where
  bound : List (String × Var × Option ITy) := []
  rawTy : ITy
  argTy : Option ITy := none        -- type of `field_value` / `value` when it is a native integer
  argRawTy : Option ITy := none     -- type of `field_value.raw_value()` when that is a native integer
  argUint : Option Nat := none      -- `field_value` / `value` is an arbitrary-int of that many bits
  argRawUint : Option Nat := none   -- `field_value.raw_value()` is an arbitrary-int of that many bits
  typeId : String → Option Nat

def ECtx.lookup (c : ECtx) (n : String) : Option (Var × Option ITy) :=
  match c.bound.find? (·.1 == n) with
  | some (_, v, t) => some (v, t)
  | none =>
    match fixedVar n with
    | some .raw => some (.raw, some c.rawTy)
    | some .index => some (.index, some .usize)
    | some v => some (v, c.argTy)
    | none => none

def nameOfVarSx : Sx → Option String
  | .list [.atom "var", .atom n] => some n
  | .list [.atom "path", .atom n] => some n
  | _ => none

/-- integer type of an expression where it can be read off without a hint -/
partial def synth (c : ECtx) : Sx → Option ITy
  | .list [.atom "lit", .atom t, _] => ityOfName t
  | .list [.atom "id", e] => synth c e
  | .list [.atom "bin", .atom op, a, b] =>
    if op == "<<" || op == ">>" then synth c a
    else if op == "!=" || op == "<" || op == "==" then none
    else (synth c a).orElse (fun _ => synth c b)
  | .list [.atom "not", a] => synth c a
  | .list [.atom "cast", _, .atom t] => ityOfName t
  | .list [.atom "if", _, a, b] => (synth c a).orElse (fun _ => synth c b)
  | .list [.atom "let", .atom n, e, b] =>
    synth { c with bound := (n, .temp, synth c e) :: c.bound } b
  | .list [.atom "assert", _, b] => synth c b
  | .list [.atom "value", e] =>
    (match e with
     | .list [.atom "rawvalue", _] => c.argRawUint.map ITy.unsignedOf
     | .list [.atom "extract", _, .atom n, _, _] => n.toNat?.map ITy.unsignedOf
     | .list [.atom "uintnew", .atom n, _] => n.toNat?.map ITy.unsignedOf
     | _ => c.argUint.map ITy.unsignedOf)
  | .list [.atom "rawvalue", _] => c.argRawTy
  | sx =>
    match nameOfVarSx sx with
    | some n => (c.lookup n).bind (·.2)
    | none => none

partial def elabSx (c : ECtx) (hint : Option ITy) : Sx → Option Expr
  | .list [.atom "lit", .atom t, .atom n] =>
    match n.toNat? with
    | none => none
    | some v =>
      match ityOfName t with
      | some ty => some (.lit ty v)
      | none => if t == "_" then hint.map (fun ty => .lit ty v) else none
  | .list [.atom "id", e] => elabSx c hint e
  | .list [.atom "bin", .atom opn, a, b] =>
    match opOfName opn with
    | none => none
    | some op =>
      if op == .shl || op == .shr then
        match elabSx c hint a, elabSx c ((synth c b).orElse (fun _ => some ITy.i32)) b with
        | some ea, some eb => some (.bin op ea eb)
        | _, _ => none
      else
        let opHint := if op == .ne || op == .lt || op == .eqq then none else hint
        let ta := synth c a
        let tb := synth c b
        let h := (ta.orElse (fun _ => tb)).orElse (fun _ => opHint)
        match elabSx c h a, elabSx c h b with
        | some ea, some eb => some (.bin op ea eb)
        | _, _ => none
  | .list [.atom "not", a] => (elabSx c hint a).map .not
  | .list [.atom "cast", a, .atom t] =>
    match ityOfName t, elabSx c ((synth c a).orElse (fun _ => some ITy.i32)) a with
    | some ty, some ea => some (.cast ea ty)
    | _, _ => none
  | .list [.atom "if", cnd, a, b] =>
    let h := ((synth c a).orElse (fun _ => synth c b)).orElse (fun _ => hint)
    match elabSx c none cnd, elabSx c h a, elabSx c h b with
    | some ec, some ea, some eb => some (.ite ec ea eb)
    | _, _, _ => none
  | .list [.atom "let", .atom n, e, b] =>
    let used := c.bound.map (·.2.1)
    -- the model's own name keeps its own variable, any other name gets a free scratch variable
    let own : Option Var := match n with
      | "temp" => some .temp | "effective_index" => some .effIndex | "extracted_bits" => some .extracted | "MASK" => some .constMask
      | _ => none
    let slot : Option Var := match own with
      | some v => if used.contains v then scratchVars.find? (fun v => !used.contains v) else some v
      | none => scratchVars.find? (fun v => !used.contains v)
    match slot with
    | none => none
    | some v =>
      let te := synth c e
      match elabSx c te e, elabSx { c with bound := (n, v, te) :: c.bound } hint b with
      | some ee, some eb => some (.letE v ee eb)
      | _, _ => none
  | .list [.atom "assert", cnd, b] =>
    match elabSx c none cnd, elabSx c hint b with
    | some ec, some eb => some (.assertE ec eb)
    | _, _ => none
  | .list [.atom "extract", .atom w, .atom n, e, s] =>
    match ityOfName w, n.toNat?, (ityOfName w).bind (fun ty => elabSx c (some ty) e), elabSx c (some .usize) s with
    | some ty, some k, some ee, some es => some (.extract ty k ee es)
    | _, _, _, _ => none
  | .list [.atom "uintnew", .atom n, e] =>
    match n.toNat? with
    | some k => (elabSx c (some (ITy.unsignedOf k)) e).map (.uintNew k)
    | none => none
  | .list [.atom "value", e] => (elabSx c none e).map .uintValue
  | .list [.atom "rawvalue", e] => (elabSx c none e).map .customRaw
  | .list [.atom "customnew", .atom t, e] =>
    match c.typeId t, elabSx c none e with
    | some ty, some ee => some (.customNew ty ee)
    | _, _ => none
  | sx =>
    match nameOfVarSx sx with
    | some n => (c.lookup n).map (fun p => .var p.1)
    | none => none

end Bb.Driver
