import BitbybitModel.Driver.Proto
import BitbybitModel.Driver.Sexp
import BitbybitModel.Symbolic.Ctx
import BitbybitModel.Spec.Debug
namespace Bb.Driver
open Bb

def showReject : Reject → String
  | .error m => "reject error " ++ m
  | .macroPanic m => "reject panic " ++ m

def b01 (b : Bool) : String := if b then "1" else "0"

def showKind : ItemKind → String
  | .assocConst => "const" | .method => "fn" | .setter => "fn" | .traitMethod => "traitfn" | .structDef => "struct"
  | .builderStep => "step" | .build => "build"

def showItems (items : List Item) : String :=
  " ".intercalate (items.map fun i => s!"{showKind i.kind}:{i.name}:{b01 i.isPub}:{b01 i.isConst}:{b01 i.hasDoc}")

def showBuilder : Option (List BuilderStep × Nat) → String
  | none => "none"
  | some (steps, final) =>
    "chain " ++ " ".intercalate (steps.map fun s => s!"{s.field.name}:{toHex s.prevMask}:{toHex s.nextMask}") ++ s!" final={toHex final}"

/-! ## printing generated bodies (for the AST comparison with the real expansion) -/

def showITy : ITy → String
  | .u8 => "u8" | .u16 => "u16" | .u32 => "u32" | .u64 => "u64" | .u128 => "u128" | .usize => "usize"
  | .i8 => "i8" | .i16 => "i16" | .i32 => "i32" | .i64 => "i64" | .i128 => "i128"

def showVar : Var → String
  | .raw => "raw" | .fieldValue => "field_value" | .index => "index" | .temp => "temp" | .effIndex => "effective_index"
  | .extracted => "extracted_bits" | .constMask => "MASK" | .value => "value"

def showOp : BinOp → String
  | .shl => "<<" | .shr => ">>" | .and => "&" | .or => "|" | .add => "+" | .sub => "-" | .mul => "*" | .ne => "!=" | .lt => "<"
  | .bxor => "^" | .eqq => "=="

partial def showExpr (st : State) : Expr → String
  | .lit t n => s!"(lit {showITy t} {n})"
  | .var v => s!"(var {showVar v})"
  | .bin op a b => s!"(bin {showOp op} {showExpr st a} {showExpr st b})"
  | .not a => s!"(not {showExpr st a})"
  | .cast a t => s!"(cast {showExpr st a} {showITy t})"
  | .ite c a b => s!"(if {showExpr st c} {showExpr st a} {showExpr st b})"
  | .letE v e b => s!"(let {showVar v} {showExpr st e} {showExpr st b})"
  | .assertE c b => s!"(assert {showExpr st c} {showExpr st b})"
  | .extract W n e s => s!"(extract {showITy W} {n} {showExpr st e} {showExpr st s})"
  | .uintNew n e => s!"(uintnew {n} {showExpr st e})"
  | .uintValue e => s!"(value {showExpr st e})"
  | .customNew ty e => s!"(customnew {match st.types[ty]? with | some t => t.name | none => "?"} {showExpr st e})"
  | .customRaw e => s!"(rawvalue {showExpr st e})"

def bodyLines (st : State) (p : Program) : List String :=
  let B := p.base
  [s!"body {p.name} raw_value {showExpr st (rawValueBody B)}", s!"body {p.name} new_with_raw_value {showExpr st (newWithRawBody B)}"] ++
  (p.fields.map fun fd =>
    (if fd.getter then match getterBody B fd with
      | some e => [s!"body {p.name} {fd.name} {showExpr st e}"] | none => [] else []) ++
    (if fd.setter then match setterBody B fd with
      | some e => [s!"body {p.name} with_{stripRaw fd.name} {showExpr st e}", s!"body {p.name} set_{stripRaw fd.name} {showExpr st e}"]
      | none => [] else [])).flatten

/-! ## reading declarations -/

def parseDiscr (s : String) : Discr :=
  if s = "missing" then .missing else if s = "nonlit" then .nonLit
  else if s.startsWith "lit:" then
    match parseNum ((s.drop 4).toString) with
    | some n => if n < 2 ^ 128 then .lit n else .nonLit
    | none => .nonLit
  else .nonLit

def parseEnumHeader (ws : List String) : Option EnumSyn :=
  match ws with
  | name :: rest =>
    let bitsArg : List EnumArg := match kv "bits" rest with
      | some "none" | none => []
      | some p => [EnumArg.path (p.splitOn "::") ((kv "ident" rest).getD "1" == "1")]
    let sep := (kv "sep" rest).getD "1" == "1"
    let exhArg : List EnumArg := match kv "exh" rest with
      | some "none" | none => []
      | some "true" => [.exhaustive sep (.litBool true)]
      | some "false" => [.exhaustive sep (.litBool false)]
      | some "conditional" => [.exhaustive sep (.ident "conditional")]
      | some o => [.exhaustive sep (.ident o)]
    let args := if (kv "order" rest).getD "be" == "eb" then exhArg ++ bitsArg else bitsArg ++ exhArg
    some { name := name, args := args, variants := [] }
  | _ => none

def parseDefault (s : String) : Option DefaultSyn :=
  if s.startsWith "lit:" then (parseNum ((s.drop 4).toString)).map .lit
  else if s.startsWith "const:" then (parseNum ((s.drop 6).toString)).map .const
  else none

def parseFieldLine (line : String) : Option FieldSyn :=
  -- field <name> <ty> <count|-> <ndocs> <attr text> [## <attr text>]*
  match line.splitOn " " with
  | _ :: name :: ty :: count :: ndocs :: rest =>
    let attrText := " ".intercalate rest
    let attrs := (attrText.splitOn " ## ").filterMap (fun a => if a.trimAscii.toString.isEmpty then none else parseAttrText a.trimAscii.toString)
    let nd := (parseDigits ndocs).getD 0
    some {
      name := name, ty := parseTy ty, count := if count = "-" then none else parseDigits count,
      attrs := List.replicate nd { name := "doc", isList := false } ++ attrs }
  | _ => none

/-! ## Debug rendering of model values -/

def decOfInt (ty : ITy) (n : Nat) : String :=
  if ty.signed then toString (toInt ty.bits n) else toString n

partial def dvalOf (st : State) (getField : State → Program → FieldDef → Nat → R) : Val → Option DVal
  | .int t n => some (.atom (decOfInt t n))
  | .bool b => some (.atom (if b then "true" else "false"))
  | .uint _ n => some (.atom (toString n))
  | .res ok v => (dvalOf st getField v).map (.tuple (if ok then "Ok" else "Err"))
  | .custom ty r =>
    match st.types[ty]?, rawNat r with
    | some (.enum _ _), some n => some (.atom (variantName st ty n))
    | some (.bitfield name p), some n =>
      -- storage of the nested bitfield
      let fields := p.fields.filterMap fun fd =>
        match getField st p fd n with
        | .ok v => (dvalOf st getField v).map (fun d => (fd.name, d))
        | .error _ => none
      some (.struct name fields)
    | _, _ => none

def escapeStr (s : String) : String :=
  "\"" ++ String.join (s.toList.map fun c => if c = '\n' then "\\n" else if c = '"' then "\\\"" else if c = '\\' then "\\\\" else String.singleton c) ++ "\""

def dbgText (st : State) (getField : State → Program → FieldDef → Nat → R) (p : Program) (alt : Bool) (storage : Nat) : String :=
  let fields := p.fields.filterMap fun fd =>
    match getField st p fd storage with
    | .ok v => (dvalOf st getField v).map (fun d => (fd.name, d))
    | .error _ => some (fd.name, .atom "<panic>")
  escapeStr ((DVal.struct p.name fields).render alt 0)

/-! ## operations -/

structure OpResult where
  m : String     -- model
  s : Option String   -- spec (none: not applicable, e.g. self-overlapping list)
  /-- partial spec when `s` is not applicable: `(care, expected)` – the result must be `ok n` with `n &&& care = expected`
      (writes through a list that names a bit twice: the positions no range covers keep the receiver's bits) -/
  sOutside : Option (Nat × Nat) := none

/-- storage value for an exposed raw value (identity on numbers; the model's `new_with_raw_value`) -/
def storageOfExposed (st : State) (chk : Bool) (p : Program) (x : Nat) : Option Nat :=
  match mNewWithRaw st chk p x with
  | .ok (.int _ n) => some n
  | _ => none

def exposedOf (st : State) (chk : Bool) (p : Program) (storage : Nat) : R := mRawValue st chk p storage

def natOfR : R → Option Nat
  | .ok (.int _ n) => some n
  | .ok (.uint _ n) => some n
  | _ => none

/-- parse the `k` write steps of a `hist` op: (`w`|`s`) field idx val -/
def parseSteps (st : State) (p : Program) : Nat → List String → Option (List (FieldDef × String × Val) × List String)
  | 0, rest => some ([], rest)
  | k + 1, _kind :: f :: idx :: v :: rest =>
    match findField p f with
    | some fd =>
      match argVal st fd v, parseSteps st p k rest with
      | some val, some (steps, rest') => some ((fd, idx, val) :: steps, rest')
      | _, _ => none
    | none => none
  | _, _ => none

def splitArr (s : String) : List String :=
  if s.startsWith "[" then (((s.drop 1).dropEnd 1).toString.splitOn ";") else [s]

def evalBuild (st : State) (chk : Bool) (p : Program) (args : List String) : Option OpResult :=
  match ["build"] ++ args with
  | "build" :: args =>
    match p.builder with
    | none => some { m := "nobuilder", s := none }
    | some (steps, _) =>
      if steps.length ≠ args.length then none else
      let init := p.default.getD 0
      let pairs := steps.zip args
      -- model: the chain of generated `with_` bodies, arrays unrolled in index order
      let mfinal : Except String Nat := pairs.foldl (fun acc (stp, a) =>
        let fd := stp.field
        let elems := splitArr a
        (elems.zipIdx).foldl (fun acc (e, i) =>
          match acc with
          | .error x => .error x
          | .ok cur =>
            match argVal st fd e with
            | none => .error "badarg"
            | some v =>
              match mWith st chk p fd (if fd.array.isSome then toString i else "-") cur v with
              | .ok (.int _ n) => .ok n
              | other => .error (showR st other)) acc) (.ok init)
      let m := match mfinal with
        | .ok n => showR st (exposedOf st chk p n)
        | .error e => e
      -- spec: default (or zero) with every writable field written, in declaration order
      let writable := p.fields.filter (·.setter)
      let s : Option String :=
        if writable.length ≠ args.length then some "spec-arity" else
        let final : Option Nat := (writable.zip args).foldl (fun acc (fd, a) =>
          ((splitArr a).zipIdx).foldl (fun acc (e, i) =>
            match acc, argVal st fd e with
            | some cur, some v => (patternOf st v).map fun pat => writeSpec p.base.internal cur pat (offOf fd i) fd.ranges
            | _, _ => none) acc) (some init)
        final.map fun n => "ok " ++ toHex n
      some { m := m, s := s }
  | _ => none

def evalOp (st : State) (chk : Bool) (p : Program) (ws : List String) : Option OpResult :=
  match ws with
  | ["get", f, idx, raw] =>
    match findField p f, parseNum raw with
    | some fd, some r =>
      match storageOfExposed st chk p r with
      | some sr =>
        -- KF1: a list naming bits twice that is wider than the storage is outside every read guarantee
        let wide := selfOverlapping fd && decide (fd.totalBits > p.base.internal)
        some { m := showR st (mGet st chk p fd idx sr), s := if wide then none else some (showR st (sGet st p fd idx r)) }
      | none => none
    | _, _ => none
  | [kind, f, idx, raw, v] =>
    if kind = "build" then evalBuild st chk p [f, idx, raw, v] else
    if kind ≠ "with" ∧ kind ≠ "set" then none else
    match findField p f, parseNum raw with
    | some fd, some r =>
      match argVal st fd v, storageOfExposed st chk p r with
      | some val, some sr =>
        let m := match mWith st chk p fd idx sr val with
          | .ok (.int _ n) => showR st (exposedOf st chk p n)
          | other => showR st other
        let s := if selfOverlapping fd then none else
          some (match sWith st p fd idx r val with
            | .ok (.int _ n) => "ok " ++ toHex (n % 2 ^ p.base.exposed)
            | other => showR st other)
        let i := (parseNum idx).getD 0
        let inRange := match fd.array with | some (c, _) => decide (i < c) | none => true
        let care := ofBitsBelow p.base.exposed (fun q => !(fd.ranges.any (·.covers (offOf fd i) q)))
        let so := if selfOverlapping fd && inRange then some (care, r &&& care) else none
        some { m := m, s := s, sOutside := so }
      | _, _ => none
    | _, _ => none
  | ["rt", raw] =>
    match parseNum raw with
    | some r =>
      let m := match storageOfExposed st chk p r with
        | some sr => showR st (exposedOf st chk p sr) | none => "stuck:new"
      some { m := m, s := some ("ok " ++ toHex r) }
    | none => none
  | ["zero"] =>
    let m := match eval (customEnv st) chk { raw := .bool false } (zeroArg p.base) with
      | .ok v => (match storageOfExposed st chk p ((rawNat v).getD 0) with
                  | some sr => showR st (exposedOf st chk p sr) | none => "stuck:new")
      | .error e => showR st (.error e)
    some { m := m, s := some "ok 0x0" }
  | [kind] =>
    if kind = "default" ∨ kind = "defaulttrait" ∨ kind = "new" then
      match p.default with
      | some d =>
        let m := match eval (customEnv st) chk { raw := .bool false } (defaultRawValue p.base d) with
          | .ok v => (match storageOfExposed st chk p ((rawNat v).getD 0) with
                      | some sr => showR st (exposedOf st chk p sr) | none => "stuck:new")
          | .error e => showR st (.error e)
        some { m := m, s := some ("ok " ++ toHex d) }
      | none => none
    else none
  | "hist" :: raw :: k :: rest =>
    match parseNum raw, parseDigits k with
    | some r, some k =>
      match parseSteps st p k rest, storageOfExposed st chk p r with
      | some (steps, []), some sr =>
        -- model: fold the generated with_/set_ bodies
        let mfinal : Except String Nat := steps.foldl (fun acc (fd, idx, v) =>
          match acc with
          | .error e => .error e
          | .ok cur => match mWith st chk p fd idx cur v with
            | .ok (.int _ n) => .ok n
            | other => .error (showR st other)) (.ok sr)
        let m := match mfinal with
          | .ok n => showR st (exposedOf st chk p n)
          | .error e => e
        -- spec: last write wins, bit by bit
        let anySelf := steps.any (fun (fd, _, _) => selfOverlapping fd)
        let oob := steps.any (fun (fd, idx, _) => match fd.array with
          | some (c, _) => decide ((parseNum idx).getD 0 ≥ c) | none => false)
        let s := if anySelf then none else if oob then some "panic" else
          let ops : List WriteOp := steps.filterMap fun (fd, idx, v) =>
            (patternOf st v).map fun pat => { rs := fd.ranges, off := offOf fd ((parseNum idx).getD 0), v := pat }
          some ("ok " ++ toHex (ofBitsBelow p.base.exposed (lastWrite r ops)))
        some { m := m, s := s }
      | _, _ => none
    | _, _ => none
  | "build" :: args => evalBuild st chk p args
  | ["dbg", alt, raw] =>
    match parseNum raw with
    | some r =>
      match storageOfExposed st chk p r with
      | some sr =>
        let getM := fun (st : State) (p : Program) (fd : FieldDef) (n : Nat) => mGet st chk p fd "-" n
        let getS := fun (st : State) (p : Program) (fd : FieldDef) (n : Nat) => sGet st p fd "-" n
        some { m := dbgText st getM p (alt = "1") sr, s := some (dbgText st getS p (alt = "1") r) }
      | none => none
    | none => none
  | _ => none

def evalEnumOp (d : EnumDef) (ws : List String) : Option OpResult :=
  match ws with
  | ["enew", x] =>
    match parseNum x with
    | some n =>
      let r := match d.newWithRawValue n with
        | .variant name => if d.nonExhaustive then s!"ok Ok({name})" else s!"ok {name}"
        | .err e => s!"ok Err({toHex e})"
        | .unreachable => "panic"
      -- spec: the variant whose discriminant is x, else Err(x)
      let s := match d.active.filter (fun p => p.2 == n) with
        | [(name, _)] => if d.nonExhaustive then s!"ok Ok({name})" else s!"ok {name}"
        | [] => s!"ok Err({toHex n})"
        | _ => "ambiguous"
      some { m := r, s := some s }
    | none => none
  | ["eraw", v] =>
    let r := match d.rawValue v with | some n => "ok " ++ toHex n | none => "panic"
    let s := match d.active.filter (fun p => p.1 == v) with
      | [(_, n)] => "ok " ++ toHex n
      | _ => "novariant"
    some { m := r, s := some s }
  | _ => none

/-! ## translation validation of an emitted body (`nfcmp`) and its evaluation on the operations (`A`) -/

/-- the model's body of item `item` of program `p`, the normaliser's context for it, and the field it belongs to -/
def itemOf (p : Program) (item : String) : Option (Expr × Nf.Ctx × Option FieldDef) :=
  let B := p.base
  if item = "raw_value" then some (rawValueBody B, TV.rawValueCtx B, none)
  else if item = "new_with_raw_value" then some (newWithRawBody B, TV.newWithRawCtx B, none)
  else
    match p.fields.find? (fun fd => fd.getter && fd.name == item) with
    | some fd => (getterBody B fd).map (fun e => (e, TV.getterCtx B, some fd))
    | none =>
      match p.fields.find? (fun fd => fd.setter && (s!"with_{stripRaw fd.name}" == item || s!"set_{stripRaw fd.name}" == item)) with
      | some fd => (setterBody B fd).map (fun e => (e, TV.setterCtx B fd, some fd))
      | none => none

def ectxOf (st : State) (ctx : Nf.Ctx) : ECtx :=
  let (argTy, argUint) : Option ITy × Option Nat := match ctx.arg with
    | .int t => (some t, none) | .uint n => (none, some n) | _ => (none, none)
  let (rawTy, rawUint) : Option ITy × Option Nat := match ctx.arg with
    | .custom (.int t) => (some t, none) | .custom (.uint n) => (none, some n) | _ => (none, none)
  { rawTy := ctx.rawTy, argTy := argTy, argUint := argUint, argRawTy := rawTy, argRawUint := rawUint,
    typeId := fun n => (st.find n).map (·.1) }

/-! ### Lean source of an expression / a context (for the kernel re-check of validated bodies) -/

def leanITy (t : ITy) : String := "." ++ showITy t

def leanVar : Var → String
  | .raw => ".raw" | .fieldValue => ".fieldValue" | .index => ".index" | .temp => ".temp" | .effIndex => ".effIndex"
  | .extracted => ".extracted" | .constMask => ".constMask" | .value => ".value"

def leanOp : BinOp → String
  | .shl => ".shl" | .shr => ".shr" | .and => ".and" | .or => ".or" | .add => ".add" | .sub => ".sub" | .mul => ".mul"
  | .ne => ".ne" | .lt => ".lt" | .bxor => ".bxor" | .eqq => ".eqq"

partial def leanExpr : Expr → String
  | .lit t n => s!"(.lit {leanITy t} {n})"
  | .var v => s!"(.var {leanVar v})"
  | .bin op a b => s!"(.bin {leanOp op} {leanExpr a} {leanExpr b})"
  | .not a => s!"(.not {leanExpr a})"
  | .cast a t => s!"(.cast {leanExpr a} {leanITy t})"
  | .ite c a b => s!"(.ite {leanExpr c} {leanExpr a} {leanExpr b})"
  | .letE v e b => s!"(.letE {leanVar v} {leanExpr e} {leanExpr b})"
  | .assertE c b => s!"(.assertE {leanExpr c} {leanExpr b})"
  | .extract W n e s => s!"(.extract {leanITy W} {n} {leanExpr e} {leanExpr s})"
  | .uintNew n e => s!"(.uintNew {n} {leanExpr e})"
  | .uintValue e => s!"(.uintValue {leanExpr e})"
  | .customNew ty e => s!"(.customNew {ty} {leanExpr e})"
  | .customRaw e => s!"(.customRaw {leanExpr e})"

def leanArgTy : Nf.ArgTy → String
  | .none => ".none" | .bool => ".bool" | .int t => s!"(.int {leanITy t})" | .uint n => s!"(.uint {n})"
  | .custom (.int t) => s!"(.custom (.int {leanITy t}))" | .custom (.uint n) => s!"(.custom (.uint {n}))"

def leanCtx (c : Nf.Ctx) : String :=
  "{ rawTy := " ++ leanITy c.rawTy ++ ", arg := " ++ leanArgTy c.arg ++ ", argVar := " ++ leanVar c.argVar ++ " }"

/-! ### printing a normal form (evidence samples) -/

def showSrc : Nf.Src → String
  | .c b => if b then "1" else "0"
  | .inp a j n => (if n then "!" else "") ++ (if a then "v" else "r") ++ toString j
  | .x2 g j g' j' n => (if n then "!" else "") ++ "(" ++ (if g then "v" else "r") ++ toString j ++ "^" ++ (if g' then "v" else "r") ++ toString j' ++ ")"
  | .ors ls => "(" ++ "|".intercalate (ls.map fun l => (if l.neg then "!" else "") ++ (if l.arg then "v" else "r") ++ toString l.j) ++ ")"
  | .top => "?"

def showSVal : Nf.SVal → String
  | .int t l => showITy t ++ "[" ++ " ".intercalate (l.map showSrc) ++ "]"
  | .bool s => "bool[" ++ showSrc s ++ "]"
  | .uint n l => s!"u{n}[" ++ " ".intercalate (l.map showSrc) ++ "]"
  | .cust => "custom"

def showSRes : Option Nf.SRes → String
  | none => "none" | some .panic => "panic" | some (.ok v) => showSVal v | some (.call t v) => s!"new_with_raw_value#{t}(" ++ showSVal v ++ ")"

/-- `nfshow DECL ITEM [INDEX]`: the normal form of the model's body (bit 0 first; `rK` = bit K of the raw value, `vK` = bit K
    of the written value) -/
def nfshow (st : State) (decl item : String) (idx : Option Nat) : String :=
  match st.find decl with
  | some (_, .bitfield _ p) =>
    match itemOf p item with
    | some (m, ctx, _) =>
      let c : Nf.Ctx := { ctx with index := idx }
      let body := match m, idx with
        | .assertE _ b, some _ => b
        | e, _ => e
      s!"nfshown {decl} {item} {match idx with | some i => toString i | none => "-"} {showSRes (Nf.nf c c.init body)}"
    | none => s!"nfshown {decl} {item} - noitem"
  | _ => s!"nfshown {decl} {item} - nodecl"

/-- `nfcmp DECL ITEM <S-expression of the emitted body>`; with `terms`, an `equal` answer is followed by the Lean source of the
    claim (`nfterm …`), which the run has the kernel re-check -/
def nfcmp (st : State) (decl item sx : String) (terms : Bool := false) : State × List String :=
  match st.find decl with
  | some (_, .bitfield _ p) =>
    match itemOf p item with
    | none => (st, [s!"nfres {decl} {item} noitem"])
    | some (m, ctx, _) =>
      match (parseSx sx).bind (elabSx (ectxOf st ctx) none) with
      | none => (st, [s!"nfres {decl} {item} untranslatable"])
      | some a =>
        let st' := { st with actual := st.actual.insert (decl ++ " " ++ item) a }
        if Nf.bodiesEquiv ctx a m then
          (st', [s!"nfres {decl} {item} equal"] ++
            (if terms then [s!"nfterm {decl} {item} bodiesEquiv ({leanCtx ctx} : Ctx) {leanExpr a} {leanExpr m} = true"] else []))
        else
          -- no common normal form: say which side has none
          let probe := fun (e : Expr) => match e with
            | .assertE _ b => (Nf.nf { ctx with index := some 0 } ({ ctx with index := some 0 } : Nf.Ctx).init b).isSome
            | e => (Nf.nf ctx ctx.init e).isSome
          let wit := match Nf.bodiesWitness ctx a m with
            | some (i, r, v) => [s!"nfwitness {decl} {item} idx={match i with | some i => toString i | none => "-"} raw={toHex r} val={toHex v}"]
            | none => []
          (st', [s!"nfres {decl} {item} {if probe a && probe m then "differ" else "unknown"}"] ++ wit)
  | _ => (st, [s!"nfres {decl} {item} nodecl"])

/-- the emitted body registered for an item, evaluated like the model's -/
def aGet (st : State) (chk : Bool) (p : Program) (fd : FieldDef) (idx : String) (raw : Nat) : Option R :=
  (st.actual[p.name ++ " " ++ fd.name]?).map fun e =>
    eval (customEnv st) chk { raw := rawVal p.base raw, index := idxVal idx } e

def aWith (st : State) (chk : Bool) (p : Program) (fd : FieldDef) (kind idx : String) (raw : Nat) (v : Val) : Option R :=
  (st.actual[p.name ++ " " ++ kind ++ "_" ++ stripRaw fd.name]?).map fun e =>
    eval (customEnv st) chk { raw := rawVal p.base raw, index := idxVal idx, fieldValue := v } e

/-- `A`: the result of a `get` / `with` / `set` operation through the emitted body, if one is registered -/
def evalActual (st : State) (chk : Bool) (p : Program) (ws : List String) : Option String :=
  match ws with
  | ["get", f, idx, raw] =>
    match findField p f, parseNum raw with
    | some fd, some r =>
      (storageOfExposed st chk p r).bind fun sr => (aGet st chk p fd idx sr).map (showR st)
    | _, _ => none
  | [kind, f, idx, raw, v] =>
    if kind ≠ "with" ∧ kind ≠ "set" then none else
    match findField p f, parseNum raw with
    | some fd, some r =>
      match argVal st fd v, storageOfExposed st chk p r with
      | some val, some sr =>
        (aWith st chk p fd kind idx sr val).map fun res =>
          match res with
          | .ok (.int _ n) => showR st (exposedOf st chk p n)
          | other => showR st other
      | _, _ => none
    | _, _ => none
  | _ => none

/-! ## semantics corpus: `eval` against rustc on random expressions (`semx` registers, `semop` compares) -/

def parseArgSpec (s : String) : Option (ITy ⊕ Nat) :=
  if s.startsWith "uint:" then ((s.drop 5).toString.toNat?).map Sum.inr else (ityOfName s).map Sum.inl

def semRegister (st : State) (id ta tb sx : String) : State × List String :=
  match ityOfName ta, parseArgSpec tb with
  | some tA, some tB =>
    let c : ECtx := { rawTy := tA, argTy := (match tB with | .inl t => some t | .inr _ => none),
                      argUint := (match tB with | .inr n => some n | .inl _ => none), typeId := fun _ => none }
    match (parseSx sx).bind (elabSx c none) with
    | some e => ({ st with sem := st.sem.insert id (e, tA, tB) }, [])
    | none => (st, [s!"bad-sem untranslatable {id} {sx}"])
  | _, _ => (st, [s!"bad-sem types {id}"])

def semEval (st : State) (chk : Bool) (id a b i : String) : Option String :=
  match st.sem[id]?, parseNum a, parseNum b, parseNum i with
  | some (e, tA, tB), some va, some vb, some vi =>
    let fv : Val := match tB with | .inl t => .int t vb | .inr n => .uint n vb
    some (showR st (eval (customEnv st) chk { raw := .int tA va, fieldValue := fv, index := .int .usize vi } e))
  | _, _, _, _ => none

/-! ## the step function -/

structure Out where
  lines : List String := []

def finishEnum (st : State) (e : EnumSyn) : State × List String :=
  match bitenumCheck e with
  | .ok d => ({ st.push (.enum e.name d) with curEnum := none },
      [s!"verdict {e.name} accept",
       s!"enumarms {e.name} nonexh={b01 d.nonExhaustive} arb={b01 d.bits.isArbitraryInt} size={d.bits.size} base={showITy d.baseType} " ++
         " ".intercalate (d.variants.map fun v => s!"{v.name}:{match v.discr with | .lit n => toString n | _ => "?"}:{b01 v.hasCfg}")])
  | .error r => ({ st.push (.rejected e.name) with curEnum := none },
      [s!"verdict {e.name} {showReject r}"])

def finishDecl (st : State) (d : DeclSyn) : State × List String :=
  match expand st.resolve (customInfoOf st) d with
  | .ok p => ({ st.push (.bitfield d.name p) with curDecl := none },
      [s!"verdict {d.name} accept", s!"surface {d.name} {showItems p.items}", s!"builder {d.name} {showBuilder p.builder}",
       (match debugImpl p with
        | some (n, fs) => s!"debugimpl {d.name} {n} " ++ " ".intercalate fs
        | none => s!"debugimpl {d.name} -")]
        ++ bodyLines st p)
  | .error r => ({ st.push (.rejected d.name) with curDecl := none },
      [s!"verdict {d.name} {showReject r}"])

def step (st : State) (chk : Bool) (line : String) : State × Bool × List String :=
  let line := line.trimAscii.toString
  if line.isEmpty then (st, chk, []) else
  match line.splitOn " " with
  | "profile" :: rest => (st, (kv "chk" rest).getD "1" == "1", [])
  | "enum" :: rest =>
    match parseEnumHeader rest with
    | some e => ({ st with curEnum := some e }, chk, [])
    | none => (st, chk, ["bad-line " ++ line])
  | ["var", name, discr, cfg] =>
    match st.curEnum with
    | some e =>
      let v : VariantSyn := { name := name, discr := parseDiscr discr, hasCfg := cfg ≠ "none", cfgActive := cfg ≠ "off" }
      ({ st with curEnum := some { e with variants := e.variants ++ [v] } }, chk, [])
    | none => (st, chk, ["bad-line " ++ line])
  | ["endenum"] =>
    match st.curEnum with
    | some e => let (st', out) := finishEnum st e; (st', chk, out)
    | none => (st, chk, ["bad-line " ++ line])
  | "decl" :: name :: rest =>
    -- `decl NAME struct=1 consts=C_A:5,C_B:7 :: <argument list of #[bitfield(…)] as written>`
    let argText := match line.splitOn " :: " with
      | _ :: parts => " :: ".intercalate parts
      | [] => ""
    let consts : List (String × Nat) := ((kv "consts" rest).getD "").splitOn "," |>.filterMap fun e =>
      match e.splitOn ":" with
      | [n, v] => v.toNat?.map (fun x => (n, x))
      | _ => none
    let constVal (n : String) : Option Nat := (consts.find? (·.1 == n)).map (·.2)
    let isStruct := (kv "struct" rest).getD "1" == "1"
    match parseBitfieldArgs constVal (lexDeclArgs argText) with
    | .ok (b, dflt, dbg) =>
      let d : DeclSyn := { name := name, baseIdent := b, default := dflt, debug := dbg, isStruct := isStruct, fields := [] }
      ({ st with curDecl := some d, curArgsErr := none }, chk, [])
    | .error e =>
      let d : DeclSyn := { name := name, baseIdent := "?", isStruct := isStruct, fields := [] }
      ({ st with curDecl := some d, curArgsErr := some e }, chk, [])
  | "field" :: _ =>
    match st.curDecl, parseFieldLine line with
    | some d, some f => ({ st with curDecl := some { d with fields := d.fields ++ [f] } }, chk, [])
    | _, _ => (st, chk, ["bad-line " ++ line])
  | "fspec" :: _ => (st, chk, [])
  | ["enddecl"] =>
    match st.curDecl with
    | some d =>
      match st.curArgsErr with
      | some e => ({ st.push (.rejected d.name) with curDecl := none, curArgsErr := none }, chk, [s!"verdict {d.name} {showReject e}"])
      | none => let (st', out) := finishDecl st d; (st', chk, out)
    | none => (st, chk, ["bad-line " ++ line])
  | "semx" :: id :: ta :: tb :: _ =>
    let sx := " ".intercalate ((line.splitOn " ").drop 4)
    let (st', out) := semRegister st id ta tb sx
    (st', chk, out)
  | ["semop", id, a, b, i, "=", "panic"] =>
    (match semEval st chk id a b i with
     | some r => ({ st with nSem := st.nSem + 1, nMisSem := st.nMisSem + (if r != "panic" then 1 else 0) }, chk,
                  if r != "panic" then [s!"mismatch X {r} :: {line}"] else [])
     | none => (st, chk, ["bad-sem " ++ line]))
  | ["semop", id, a, b, i, "=", "ok", v] =>
    (match semEval st chk id a b i with
     | some r => ({ st with nSem := st.nSem + 1, nMisSem := st.nMisSem + (if r != "ok " ++ v then 1 else 0) }, chk,
                  if r != "ok " ++ v then [s!"mismatch X {r} :: {line}"] else [])
     | none => (st, chk, ["bad-sem " ++ line]))
  | "nfcmp" :: decl :: item :: _ =>
    let sx := " ".intercalate ((line.splitOn " ").drop 3)
    let (st', out) := nfcmp st decl item sx
    (st', chk, out)
  | ["nfshow", decl, item, idx] => (st, chk, [nfshow st decl item idx.toNat?])
  | "nfcmpx" :: decl :: item :: _ =>
    let sx := " ".intercalate ((line.splitOn " ").drop 3)
    let (st', out) := nfcmp st decl item sx true
    (st', chk, out)
  | "op" :: name :: rest =>
    -- split at " = "
    match line.splitOn " = " with
    | lhs :: rhsParts =>
      let rhs := " = ".intercalate rhsParts
      let ws := (lhs.splitOn " ").drop 2
      let res : Option OpResult := match st.find name with
        | some (_, .bitfield _ p) => evalOp st chk p ws
        | some (_, .enum _ d) => evalEnumOp d ws
        | _ => none
      let _ := rest
      let resA : Option String := match st.find name with
        | some (_, .bitfield _ p) => if st.actual.isEmpty then none else evalActual st chk p ws
        | _ => none
      match res with
      | none => (st, chk, ["bad-op " ++ line])
      | some r =>
        let misM : Bool := r.m != rhs
        let (misS, skipS) : Bool × Bool := match r.s, r.sOutside with
          | some s, _ => (s != rhs, false)
          | none, some (care, expected) =>
            (match rhs.splitOn " " with
             | ["ok", nTxt] => (match parseNum nTxt with | some n => (n &&& care) != expected | none => true)
             | _ => true, false)
          | none, none => (false, true)
        let misA : Bool := match resA with | some a => a != rhs | none => false
        let st' := { st with
          nOpsA := st.nOpsA + (if resA.isSome then 1 else 0), nMisA := st.nMisA + (if misA then 1 else 0),
          nOps := st.nOps + 1, nMisM := st.nMisM + (if misM then 1 else 0),
          nMisS := st.nMisS + (if misS then 1 else 0), nSkipS := st.nSkipS + (if skipS then 1 else 0) }
        let out := (if misM then [s!"mismatch M {r.m} :: {line}"] else []) ++
                   (if misS then [s!"mismatch S {r.s.getD (match r.sOutside with | some (c, e) => s!"uncovered-bits-kept:mask={toHex c}:value={toHex e}" | none => "")} :: {line}"] else [])
        let out := out ++ (if misA then [s!"mismatch A {resA.getD ""} :: {line}"] else [])
        (st', chk, out)
    | [] => (st, chk, ["bad-op " ++ line])
  | ["stats"] => (st, chk, [s!"stats ops={st.nOps} misM={st.nMisM} misS={st.nMisS} skipS={st.nSkipS} opsA={st.nOpsA} misA={st.nMisA} sem={st.nSem} misSem={st.nMisSem}"])
  | _ => (st, chk, ["bad-line " ++ line])

end Bb.Driver
