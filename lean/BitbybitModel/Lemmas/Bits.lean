import BitbybitModel.Spec.Register
/-! # Bit-level lemmas about the reference semantics (core Lean only) -/
namespace Bb

theorem two_pow_lt_of_lt {a b : Nat} (h : a < b) : 2 ^ a < 2 ^ b := Nat.pow_lt_pow_right (by decide) h
theorem two_pow_le_of_le {a b : Nat} (h : a ≤ b) : 2 ^ a ≤ 2 ^ b := Nat.pow_le_pow_right (by decide) h

theorem testBit_eq_false_of_lt {x W k : Nat} (hx : x < 2 ^ W) (hk : W ≤ k) : x.testBit k = false :=
  Nat.testBit_lt_two_pow (Nat.lt_of_lt_of_le hx (two_pow_le_of_le hk))

/-- bits `lo…` of `raw`: bit-level characterisation -/
theorem testBit_field (raw lo len k : Nat) :
    (field raw lo len).testBit k = (decide (k < len) && raw.testBit (lo + k)) := by
  simp [field, Nat.testBit_mod_two_pow, Nat.testBit_shiftRight]

theorem field_lt (raw lo len : Nat) : field raw lo len < 2 ^ len := Nat.mod_lt _ (Nat.two_pow_pos _)

theorem shiftLeft_lt_two_pow {x n t W : Nat} (hx : x < 2 ^ n) (h : t + n ≤ W) : x <<< t < 2 ^ W := by
  rw [Nat.shiftLeft_eq]
  calc x * 2 ^ t < 2 ^ n * 2 ^ t := Nat.mul_lt_mul_of_pos_right hx (Nat.two_pow_pos _)
    _ = 2 ^ (t + n) := by rw [Nat.pow_add, Nat.mul_comm]
    _ ≤ 2 ^ W := two_pow_le_of_le h

/-- the complement of `x` inside `W` bits -/
theorem testBit_compl {W x : Nat} (hx : x < 2 ^ W) (k : Nat) :
    (2 ^ W - 1 - x).testBit k = (decide (k < W) && !x.testBit k) := by
  have : 2 ^ W - 1 - x = 2 ^ W - (x + 1) := by omega
  rw [this, Nat.testBit_two_pow_sub_succ hx]

theorem compl_lt {W x : Nat} : 2 ^ W - 1 - x < 2 ^ W := by
  have := Nat.two_pow_pos W; omega

/-! ### ofBitsBelow -/

theorem testBit_ofBitsBelow (W : Nat) (f : Nat → Bool) (k : Nat) :
    (ofBitsBelow W f).testBit k = (decide (k < W) && f k) := by
  induction W with
  | zero => simp [ofBitsBelow]
  | succ W ih =>
    simp only [ofBitsBelow, Nat.testBit_or, ih]
    by_cases hk : k = W
    · subst hk
      by_cases hf : f k <;> simp [hf, Nat.testBit_two_pow_self]
    · by_cases hf : f W
      · simp only [hf, if_true, Nat.testBit_two_pow]
        have : decide (W = k) = false := by simp; omega
        simp [this]
        by_cases h1 : k < W
        · have : k < W + 1 := by omega
          simp [h1, this]
        · have : ¬ k < W + 1 := by omega
          simp [h1, this]
      · simp [hf]
        by_cases h1 : k < W
        · have : k < W + 1 := by omega
          simp [h1, this]
        · have : ¬ k < W + 1 := by omega
          simp [h1, this]

theorem ofBitsBelow_lt (W : Nat) (f : Nat → Bool) : ofBitsBelow W f < 2 ^ W := by
  apply Nat.lt_pow_two_of_testBit
  intro i hi
  rw [testBit_ofBitsBelow]
  have : ¬ i < W := by omega
  simp [this]

/-- a number below `2^W` is determined by its low `W` bits -/
theorem eq_ofBitsBelow {W x : Nat} (hx : x < 2 ^ W) : x = ofBitsBelow W x.testBit := by
  apply Nat.eq_of_testBit_eq
  intro k
  rw [testBit_ofBitsBelow]
  by_cases hk : k < W
  · simp [hk]
  · have hW : W ≤ k := by omega
    simp [hk, testBit_eq_false_of_lt hx hW]

theorem eq_ofBitsBelow_of_testBit {W x : Nat} {f : Nat → Bool} (hx : x < 2 ^ W)
    (h : ∀ k, k < W → x.testBit k = f k) : x = ofBitsBelow W f := by
  apply Nat.eq_of_testBit_eq
  intro k
  rw [testBit_ofBitsBelow]
  by_cases hk : k < W
  · simp [hk, h k hk]
  · have hW : W ≤ k := by omega
    simp [hk, testBit_eq_false_of_lt hx hW]

/-! ### gather -/

/-- sum of the lengths -/
def totalLen : List Rng → Nat
  | [] => 0
  | r :: rs => r.len + totalLen rs

theorem gather_lt (raw off : Nat) : ∀ (rs : List Rng) (t : Nat), gather raw off rs t < 2 ^ (t + totalLen rs) := by
  intro rs
  induction rs with
  | nil => intro t; simp [gather, Nat.two_pow_pos]
  | cons r rs ih =>
    intro t
    simp only [gather, totalLen]
    apply Nat.or_lt_two_pow
    · exact shiftLeft_lt_two_pow (field_lt _ _ _) (by omega)
    · have := ih (t + r.len)
      have e : t + r.len + totalLen rs = t + (r.len + totalLen rs) := by omega
      rw [e] at this; exact this

/-- bit `k` of the gathered value: the range whose target window contains `k` supplies it -/
def gatherBit (raw off : Nat) : List Rng → Nat → Nat → Bool
  | [], _, _ => false
  | r :: rs, t, k => (decide (t ≤ k) && decide (k < t + r.len) && raw.testBit (r.lo + off + (k - t))) || gatherBit raw off rs (t + r.len) k

theorem testBit_gather (raw off : Nat) : ∀ (rs : List Rng) (t k : Nat),
    (gather raw off rs t).testBit k = gatherBit raw off rs t k := by
  intro rs
  induction rs with
  | nil => intro t k; simp [gather, gatherBit]
  | cons r rs ih =>
    intro t k
    simp only [gather, gatherBit, Nat.testBit_or, ih, Nat.testBit_shiftLeft, testBit_field]
    congr 1
    by_cases h : t ≤ k
    · by_cases h2 : k - t < r.len
      · have : k < t + r.len := by omega
        simp [h, h2, this]
      · have : ¬ k < t + r.len := by omega
        simp [h, h2, this]
    · simp [h]

/-- windows after `t` do not reach below `t` -/
theorem gatherBit_below (raw off : Nat) : ∀ (rs : List Rng) (t k : Nat), k < t → gatherBit raw off rs t k = false := by
  intro rs
  induction rs with
  | nil => intro t k _; rfl
  | cons r rs ih =>
    intro t k hk
    have h1 : ¬ t ≤ k := by omega
    simp [gatherBit, h1, ih (t + r.len) k (by omega)]

/-- **bit `t_j + b` of the gathered value is bit `lo_j + off + b` of the register** (`pre` = the ranges
    declared before range `r`) -/
theorem gather_bit (raw off : Nat) (pre : List Rng) (r : Rng) (post : List Rng) (b : Nat) (hb : b < r.len) :
    (gather raw off (pre ++ r :: post) 0).testBit (totalLen pre + b) = raw.testBit (r.lo + off + b) := by
  rw [testBit_gather]
  suffices h : ∀ t, gatherBit raw off (pre ++ r :: post) t (t + totalLen pre + b) = raw.testBit (r.lo + off + b) by
    simpa using h 0
  induction pre with
  | nil =>
    intro t
    have h1 : t + b < t + r.len := by omega
    have h2 : t + b - t = b := by omega
    simp [gatherBit, totalLen, h1, h2, gatherBit_below raw off post (t + r.len) (t + b) (by omega)]
  | cons q pre ih =>
    intro t
    have h1 : ¬ (t + (q.len + totalLen pre) + b < t + q.len) := by omega
    have := ih (t + q.len)
    simp only [List.cons_append, gatherBit, totalLen, h1, decide_false, Bool.and_false, Bool.false_and, Bool.false_or]
    rw [← this]; congr 1; omega

/-! ### written / writeSpec -/

theorem testBit_writeSpec (W raw v off : Nat) (rs : List Rng) (k : Nat) :
    (writeSpec W raw v off rs).testBit k = (decide (k < W) && (written v off rs 0 k).getD (raw.testBit k)) := by
  simp [writeSpec, testBit_ofBitsBelow]

theorem writeSpec_lt (W raw v off : Nat) (rs : List Rng) : writeSpec W raw v off rs < 2 ^ W :=
  ofBitsBelow_lt _ _

theorem written_none_of_not_covered (v off : Nat) : ∀ (rs : List Rng) (t p : Nat),
    rs.any (·.covers off p) = false → written v off rs t p = none := by
  intro rs
  induction rs with
  | nil => intro t p _; rfl
  | cons r rs ih =>
    intro t p h
    simp only [List.any_cons, Bool.or_eq_false_iff] at h
    simp [written, h.1, ih _ _ h.2]

end Bb
