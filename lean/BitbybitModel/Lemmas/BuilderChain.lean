import BitbybitModel.Lemmas.History
/-! # The builder chain is the fold of `with_` over the writable fields -/
namespace Bb

/-- the fields of the steps `builderLoop` produces are the writable fields, in declaration order -/
theorem builderLoop_fields : ∀ (fds : List FieldDef) (running : Nat) (acc : List BuilderStep) (steps : List BuilderStep) (final : Nat),
    builderLoop fds running acc = .chain steps final →
    steps.map (·.field) = (acc.reverse.map (·.field)) ++ fds.filter (·.setter) := by
  intro fds
  induction fds with
  | nil =>
    intro running acc steps final h
    simp only [builderLoop, BuilderResult.chain.injEq] at h
    simp [← h.1]
  | cons fd fds ih =>
    intro running acc steps final h
    by_cases hs : fd.setter = true
    · simp only [builderLoop, hs, if_true] at h
      cases hm : fieldMask fd with
      | panic => simp [hm] at h
      | selfOverlap => simp [hm] at h
      | mask m =>
        simp only [hm] at h
        split at h
        · cases h
        · have := ih _ _ steps final h
          simp [this, List.filter, hs]
    · have hs' : fd.setter = false := by simpa using hs
      simp only [builderLoop, hs', Bool.false_eq_true, if_false] at h
      have := ih _ _ steps final h
      simp [this, List.filter, hs']

/-- the masks form a chain: each step starts where the previous one ended (the first at `running`, the last ends at
    `final`) and adds exactly its field's mask, which is disjoint from everything set before -/
def ChainFrom : Nat → List BuilderStep → Nat → Prop
  | m, [], final => final = m
  | m, s :: rest, final => s.prevMask = m ∧
      (∃ fm, fieldMask s.field = .mask fm ∧ s.prevMask &&& fm = 0 ∧ s.nextMask = s.prevMask ||| fm) ∧
      s.field.setter = true ∧ ChainFrom s.nextMask rest final

theorem builderLoop_chain : ∀ (fds : List FieldDef) (running : Nat) (acc : List BuilderStep) (steps : List BuilderStep) (final : Nat),
    builderLoop fds running acc = .chain steps final →
    ∃ tail, steps = acc.reverse ++ tail ∧ ChainFrom running tail final := by
  intro fds
  induction fds with
  | nil =>
    intro running acc steps final h
    simp only [builderLoop, BuilderResult.chain.injEq] at h
    exact ⟨[], by simp [← h.1], h.2.symm⟩
  | cons fd fds ih =>
    intro running acc steps final h
    by_cases hs : fd.setter = true
    · simp only [builderLoop, hs, if_true] at h
      cases hm : fieldMask fd with
      | panic => simp [hm] at h
      | selfOverlap => simp [hm] at h
      | mask m =>
        simp only [hm] at h
        split at h
        · cases h
        · rename_i hdis
          obtain ⟨tail, h1, h2⟩ := ih _ _ steps final h
          have hz : running &&& m = 0 := by simpa using hdis
          exact ⟨{ field := fd, prevMask := running, nextMask := running ||| m } :: tail, by simpa using h1, rfl,
            ⟨m, hm, hz, rfl⟩, hs, h2⟩
    · have hs' : fd.setter = false := by simpa using hs
      simp only [builderLoop, hs', Bool.false_eq_true, if_false] at h
      exact ih _ _ steps final h

end Bb
