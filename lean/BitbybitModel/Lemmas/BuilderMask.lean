import BitbybitModel.Lemmas.Scatter
import BitbybitModel.Lemmas.Count
import BitbybitModel.Macro.Builder
/-! # The masks `make_builder` computes, and what its overlap tests decide -/
namespace Bb

/-- the bits one (element, range) piece occupies -/
def pieceMask (r : Rng) : Nat := (2 ^ r.len - 1) <<< r.lo

theorem testBit_pieceMask (r : Rng) (k : Nat) : (pieceMask r).testBit k = r.covers 0 k := by
  simp only [pieceMask, Nat.testBit_shiftLeft, Nat.testBit_two_pow_sub_one, Rng.covers, Nat.add_zero]
  by_cases h : r.lo ≤ k
  · simp [h]; omega
  · simp [h]

theorem pieceMask_lt (r : Rng) (h : r.lo + r.len ≤ 128) : pieceMask r < 2 ^ 128 :=
  shiftLeft_lt_two_pow (by have := Nat.two_pow_pos r.len; omega) h

theorem maskBits_cons (r : Rng) (rs : List Rng) : maskBits 0 (r :: rs) = pieceMask r ||| maskBits 0 rs := by
  simp [maskBits, pieceMask]

theorem and_eq_zero_iff (a b : Nat) : a &&& b = 0 ↔ ∀ k, a.testBit k = true → b.testBit k = false := by
  constructor
  · intro h k hk
    have : (a &&& b).testBit k = false := by rw [h]; simp
    simpa [Nat.testBit_and, hk] using this
  · intro h
    apply Nat.eq_of_testBit_eq
    intro k
    simp only [Nat.testBit_and, Nat.zero_testBit]
    cases ha : a.testBit k with
    | false => simp
    | true => simp [h k ha]

/-- the sequential overlap test: `none` as soon as a piece meets the running mask -/
def scan : List Rng → Nat → Option Nat
  | [], m => some m
  | r :: rs, m => if pieceMask r &&& m ≠ 0 then none else scan rs (m ||| pieceMask r)

theorem scan_append (a b : List Rng) (m : Nat) : scan (a ++ b) m = (scan a m).bind (scan b) := by
  induction a generalizing m with
  | nil => simp [scan]
  | cons r a ih =>
    simp only [List.cons_append, scan]
    split
    · simp
    · exact ih _

/-- no piece meets the mask `m`, and no two pieces meet each other -/
def NoOverlap (ps : List Rng) (m : Nat) : Prop :=
  (∀ r ∈ ps, ∀ k, r.covers 0 k = true → m.testBit k = false) ∧ pairwiseDisjoint ps = true

theorem disj_iff_no_common (r q : Rng) (hr : 1 ≤ r.len) (hq : 1 ≤ q.len) :
    r.disj q = true ↔ ∀ k, r.covers 0 k = true → q.covers 0 k = false := by
  simp only [Rng.disj, Bool.or_eq_true, decide_eq_true_eq, Rng.covers, Nat.add_zero, Bool.and_eq_true,
    Bool.and_eq_false_iff, decide_eq_false_iff_not]
  constructor
  · intro h k hk; omega
  · intro h
    by_cases h1 : r.lo + r.len ≤ q.lo
    · exact Or.inl h1
    · by_cases h2 : q.lo + q.len ≤ r.lo
      · exact Or.inr h2
      · exfalso
        -- the larger of the two starts lies in both
        have := h (max r.lo q.lo) (by constructor <;> omega)
        omega

/-- **what the sequential test decides** (pieces of positive length) -/
theorem scan_some_iff : ∀ (ps : List Rng) (m : Nat), (∀ r ∈ ps, 1 ≤ r.len) →
    ((∃ m', scan ps m = some m') ↔ NoOverlap ps m) := by
  intro ps
  induction ps with
  | nil => intro m _; simp [scan, NoOverlap, pairwiseDisjoint]
  | cons r rs ih =>
    intro m hpos
    have hr := hpos r (by simp)
    have hrs : ∀ q ∈ rs, 1 ≤ q.len := fun q hq => hpos q (by simp [hq])
    simp only [scan]
    by_cases hz : pieceMask r &&& m = 0
    · have hz' : ¬ (pieceMask r &&& m ≠ 0) := by simpa using hz
      rw [if_neg hz', ih (m ||| pieceMask r) hrs]
      have hrm := (and_eq_zero_iff _ _).mp hz
      simp only [NoOverlap, pairwiseDisjoint, Bool.and_eq_true, List.all_eq_true, List.mem_cons, forall_eq_or_imp]
      constructor
      · rintro ⟨h1, h2⟩
        refine ⟨⟨fun k hk => hrm k (by rw [testBit_pieceMask]; exact hk), ?_⟩, ?_, h2⟩
        · intro q hq k hk
          have := h1 q hq k hk
          simp only [Nat.testBit_or, Bool.or_eq_false_iff] at this
          exact this.1
        · intro q hq
          rw [disj_iff_no_common r q hr (hrs q hq)]
          intro k hk
          cases hqk : q.covers 0 k with
          | false => rfl
          | true =>
            have := h1 q hq k hqk
            simp only [Nat.testBit_or, Bool.or_eq_false_iff, testBit_pieceMask] at this
            rw [this.2] at hk; cases hk
      · rintro ⟨⟨h0, h1⟩, h2, h3⟩
        refine ⟨?_, h3⟩
        intro q hq k hk
        simp only [Nat.testBit_or, Bool.or_eq_false_iff, testBit_pieceMask]
        refine ⟨h1 q hq k hk, ?_⟩
        have := (disj_iff_no_common r q hr (hrs q hq)).mp (h2 q hq)
        cases hrk : r.covers 0 k with
        | false => rfl
        | true => have := this k hrk; rw [hk] at this; cases this
    · have hz' : pieceMask r &&& m ≠ 0 := hz
      rw [if_pos hz']
      simp only [NoOverlap, List.mem_cons, forall_eq_or_imp]
      constructor
      · rintro ⟨_, h⟩; cases h
      · rintro ⟨⟨h0, _⟩, _⟩
        exfalso
        apply hz
        rw [and_eq_zero_iff]
        intro k hk
        rw [testBit_pieceMask] at hk
        exact h0 k hk

/-- when it succeeds the result is the union -/
theorem scan_eq : ∀ (ps : List Rng) (m m' : Nat), scan ps m = some m' → m' = m ||| maskBits 0 ps := by
  intro ps
  induction ps with
  | nil => intro m m' h; simp [scan] at h; simp [maskBits, h]
  | cons r rs ih =>
    intro m m' h
    simp only [scan] at h
    split at h
    · cases h
    · rw [ih _ _ h, maskBits_cons, Nat.or_assoc]

end Bb

namespace Bb

def Rng.shifted (r : Rng) (off : Nat) : Rng := ⟨r.lo + off, r.len⟩
def elemPieces (ranges : List Rng) (off : Nat) : List Rng := ranges.map (·.shifted off)

/-- the pieces of `n` array elements starting at element `i` -/
def piecesFrom (ranges : List Rng) (stride : Nat) : Nat → Nat → List Rng
  | 0, _ => []
  | n + 1, i => elemPieces ranges (i * stride) ++ piecesFrom ranges stride n (i + 1)

/-- every (element, range) piece of a field -/
def fieldPieces (fd : FieldDef) : List Rng :=
  match fd.array with
  | some (c, s) => piecesFrom fd.ranges s c 0
  | none => fd.ranges

/-- a piece lies inside 128 bits and is shorter than 128 (so the macro's `u128` shifts do not overflow) -/
def Fits (ps : List Rng) : Prop := ∀ r ∈ ps, r.len < 128 ∧ r.lo + r.len ≤ 128 ∧ 1 ≤ r.len

theorem mask128_eq (r : Rng) (h : r.len < 128 ∧ r.lo + r.len ≤ 128 ∧ 1 ≤ r.len) : mask128 r.len r.lo = some (pieceMask r) := by
  have h1 : ¬ (r.len ≥ 128 ∨ r.lo ≥ 128) := by omega
  have hlt := pieceMask_lt r h.2.1
  simp only [pieceMask] at hlt
  simp only [mask128, h1, if_false, pieceMask, Nat.mod_eq_of_lt hlt]

theorem overlapRanges_scan (stride i : Nat) : ∀ (rs : List Rng) (mask : Nat), Fits (elemPieces rs (i * stride)) →
    (∀ m', scan (elemPieces rs (i * stride)) mask = some m' → overlapRanges stride i rs mask = some (false, m')) ∧
    (scan (elemPieces rs (i * stride)) mask = none → ∃ m'', overlapRanges stride i rs mask = some (true, m'')) := by
  intro rs
  induction rs with
  | nil => intro mask _; simp [elemPieces, scan, overlapRanges]
  | cons r rs ih =>
    intro mask hf
    have hr := hf (r.shifted (i * stride)) (by simp [elemPieces])
    have hm := mask128_eq (r.shifted (i * stride)) hr
    simp only [Rng.shifted] at hm
    have hrs : Fits (elemPieces rs (i * stride)) := fun q hq => hf q (by simp [elemPieces] at hq ⊢; right; exact hq)
    have hsh : r.shifted (i * stride) = ⟨r.lo + i * stride, r.len⟩ := rfl
    have hep : elemPieces (r :: rs) (i * stride) = r.shifted (i * stride) :: elemPieces rs (i * stride) := rfl
    rw [hep]
    simp only [scan, overlapRanges, hm]
    rw [← hsh]
    by_cases hz : pieceMask (r.shifted (i * stride)) &&& mask ≠ 0
    · rw [if_pos hz, if_pos hz]
      refine ⟨?_, ?_⟩
      · intro m' h; cases h
      · intro _; exact ⟨mask, rfl⟩
    · rw [if_neg hz, if_neg hz]
      exact ih _ hrs

theorem piecesFrom_fits_tail (ranges : List Rng) (stride n i : Nat) (h : Fits (piecesFrom ranges stride (n + 1) i)) :
    Fits (elemPieces ranges (i * stride)) ∧ Fits (piecesFrom ranges stride n (i + 1)) := by
  simp only [piecesFrom] at h
  exact ⟨fun r hr => h r (by simp [hr]), fun r hr => h r (by simp [hr])⟩

theorem overlapLoop_scan (ranges : List Rng) (stride : Nat) : ∀ (n i mask : Nat), Fits (piecesFrom ranges stride n i) →
    ((∃ m', scan (piecesFrom ranges stride n i) mask = some m') → overlapLoop ranges stride n i mask = some false) ∧
    (scan (piecesFrom ranges stride n i) mask = none → overlapLoop ranges stride n i mask = some true) := by
  intro n
  induction n with
  | zero => intro i mask _; simp [piecesFrom, scan, overlapLoop]
  | succ n ih =>
    intro i mask hf
    obtain ⟨hf1, hf2⟩ := piecesFrom_fits_tail ranges stride n i hf
    obtain ⟨h1, h2⟩ := overlapRanges_scan stride i ranges mask hf1
    simp only [piecesFrom, scan_append, overlapLoop]
    cases hs : scan (elemPieces ranges (i * stride)) mask with
    | none =>
      obtain ⟨m'', hm⟩ := h2 hs
      simp [hm]
    | some m1 =>
      rw [h1 m1 hs]
      simpa using ih (i + 1) m1 hf2

theorem foldMask_eq (off : Nat) : ∀ (rs : List Rng) (a : Nat), Fits (elemPieces rs off) →
    foldMask off rs a = some (a ||| maskBits 0 (elemPieces rs off)) := by
  intro rs
  induction rs with
  | nil => intro a _; simp [foldMask, elemPieces, maskBits]
  | cons r rs ih =>
    intro a hf
    have hr := hf (r.shifted off) (by simp [elemPieces])
    have hm := mask128_eq (r.shifted off) hr
    simp only [Rng.shifted] at hm
    have hrs : Fits (elemPieces rs off) := fun q hq => hf q (by simp [elemPieces] at hq ⊢; right; exact hq)
    simp only [foldMask, hm, ih _ hrs]
    simp [elemPieces, maskBits_cons, Rng.shifted, Nat.or_assoc]

theorem maskBits_append (a b : List Rng) : maskBits 0 (a ++ b) = maskBits 0 a ||| maskBits 0 b := by
  induction a with
  | nil => simp [maskBits]
  | cons r a ih => simp [maskBits, ih, Nat.or_assoc]

theorem arrayMask_eq (ranges : List Rng) (stride : Nat) : ∀ (n i mask : Nat), Fits (piecesFrom ranges stride n i) →
    arrayMask ranges stride n i mask = some (mask ||| maskBits 0 (piecesFrom ranges stride n i)) := by
  intro n
  induction n with
  | zero => intro i mask _; simp [arrayMask, piecesFrom, maskBits]
  | succ n ih =>
    intro i mask hf
    obtain ⟨hf1, hf2⟩ := piecesFrom_fits_tail ranges stride n i hf
    simp only [arrayMask, foldMask_eq (i * stride) ranges 0 hf1, ih (i + 1) _ hf2, piecesFrom, maskBits_append]
    simp [Nat.or_assoc]

end Bb

namespace Bb

/-! ### popCount -/

theorem popCount_le (k m : Nat) : popCount k m ≤ k := by
  induction k with
  | zero => simp [popCount]
  | succ k ih => simp only [popCount]; split <;> omega

theorem popCount_full_iff (k m : Nat) : popCount k m = k ↔ ∀ j, j < k → m.testBit j = true := by
  induction k with
  | zero => simp [popCount]
  | succ k ih =>
    simp only [popCount]
    have hle := popCount_le k m
    constructor
    · intro h j hj
      by_cases hb : m.testBit k = true
      · simp only [hb, if_true] at h
        by_cases hjk : j = k
        · subst hjk; exact hb
        · exact ih.mp (by omega) j (by omega)
      · have hb' : m.testBit k = false := by simpa using hb
        rw [hb'] at h
        simp only [Bool.false_eq_true, if_false] at h
        omega
    · intro h
      have hk := h k (by omega)
      have := ih.mpr (fun j hj => h j (by omega))
      simp [hk, this]; omega

theorem popCount_of_lt (N m : Nat) (hm : m < 2 ^ N) : ∀ k, N ≤ k → popCount k m = popCount N m := by
  intro k hk
  induction k with
  | zero => have : N = 0 := by omega
            subst this; rfl
  | succ k ih =>
    by_cases hN : N = k + 1
    · subst hN; rfl
    · have hNk : N ≤ k := by omega
      simp only [popCount, testBit_eq_false_of_lt hm hNk, Bool.false_eq_true, if_false, Nat.zero_add]
      exact ih hNk

/-! ### the pieces of an accepted field -/

theorem mem_piecesFrom (ranges : List Rng) (stride : Nat) : ∀ (n i : Nat) (p : Rng),
    p ∈ piecesFrom ranges stride n i ↔ ∃ j, i ≤ j ∧ j < i + n ∧ ∃ r ∈ ranges, p = r.shifted (j * stride) := by
  intro n
  induction n with
  | zero => intro i p; simp [piecesFrom]; intro j h1 h2; omega
  | succ n ih =>
    intro i p
    simp only [piecesFrom, List.mem_append, ih, elemPieces, List.mem_map]
    constructor
    · rintro (⟨r, hr, rfl⟩ | ⟨j, h1, h2, r, hr, rfl⟩)
      · exact ⟨i, Nat.le_refl _, by omega, r, hr, rfl⟩
      · exact ⟨j, by omega, by omega, r, hr, rfl⟩
    · rintro ⟨j, h1, h2, r, hr, rfl⟩
      by_cases hji : j = i
      · subst hji; exact Or.inl ⟨r, hr, rfl⟩
      · exact Or.inr ⟨j, by omega, by omega, r, hr, rfl⟩

/-- every piece of an accepted field: positive length, inside the exposed width -/
theorem fieldPieces_bounds {B : Base} {fd : FieldDef} (hok : FieldOk B fd) :
    ∀ p ∈ fieldPieces fd, 1 ≤ p.len ∧ p.lo + p.len ≤ B.exposed ∧ ∃ r ∈ fd.ranges, p.len = r.len := by
  intro p hp
  unfold fieldPieces at hp
  cases ha : fd.array with
  | none =>
    rw [ha] at hp
    have := hok.elem_in_bounds (i := 0) (by simp [ha]) hp
    simp only [FieldDef.stride, ha, Option.map, offOf] at this
    exact ⟨hok.len_pos p hp, by omega, p, hp, rfl⟩
  | some cs =>
    obtain ⟨c, s⟩ := cs
    rw [ha] at hp
    simp only at hp
    rw [mem_piecesFrom] at hp
    obtain ⟨j, _, hj, r, hr, rfl⟩ := hp
    have := hok.elem_in_bounds (i := j) (fun c' s' h => by rw [ha] at h; cases h; omega) hr
    simp only [FieldDef.stride, ha, Option.map, offOf] at this
    exact ⟨hok.len_pos r hr, by simp only [Rng.shifted]; omega, r, hr, rfl⟩

/-- except for the one field that is the whole of a `u128`, every piece is shorter than 128 bits -/
theorem fieldPieces_fits {B : Base} {fd : FieldDef} (hB : B.WF) (hok : FieldOk B fd)
    (hnot : ¬ (fd.array = none ∧ ∃ r, fd.ranges = [r] ∧ r.len = 128)) : Fits (fieldPieces fd) := by
  intro p hp
  obtain ⟨h1, h2, r, hr, hlen⟩ := fieldPieces_bounds hok p hp
  have h128 := hB.le128
  refine ⟨?_, by omega, h1⟩
  rw [hlen]
  -- a range of 128 bits can only be the single range of a scalar field
  by_cases hl : fd.ranges.length ≥ 2
  · have := len_lt_totalLen hok.len_pos hl hr
    have := hok.total_le
    rw [totalBits_eq] at this; omega
  · have hone : ∃ q, fd.ranges = [q] := by
      match hfr : fd.ranges with
      | [] => exact absurd hfr hok.nonempty
      | [q] => exact ⟨q, rfl⟩
      | _ :: _ :: _ => simp [hfr] at hl
    obtain ⟨q, hq⟩ := hone
    have hrq : r = q := by rw [hq] at hr; simpa using hr
    subst hrq
    cases ha : fd.array with
    | none =>
      by_cases h : r.len = 128
      · exact absurd ⟨ha, r, hq, h⟩ hnot
      · have := le_maxEnd hr
        have := hok.reach_le
        have : maxEnd fd.ranges ≤ fd.reach := by
          unfold FieldDef.reach; simp [ha]
        omega
    | some cs =>
      obtain ⟨c, s⟩ := cs
      have hc := hok.count_ge c s ha
      have hs := hok.stride_ge c s r ha hq
      have hreach := hok.reach_le
      simp only [FieldDef.reach, ha] at hreach
      have := le_maxEnd hr
      have : 1 * s ≤ (c - 1) * s := Nat.mul_le_mul_right s (by omega)
      omega

theorem elemPieces_zero (rs : List Rng) : elemPieces rs 0 = rs := by
  induction rs with
  | nil => rfl
  | cons r rs ih => simp only [elemPieces, List.map] at ih ⊢; rw [ih]; cases r; simp [Rng.shifted]

theorem noOverlap_zero (ps : List Rng) : NoOverlap ps 0 ↔ pairwiseDisjoint ps = true := by
  simp [NoOverlap]

/-- **the mask of a field**: the union of its pieces when they are pairwise disjoint, "self overlap" otherwise;
    the macro's `u128` arithmetic never overflows for an accepted field -/
theorem fieldMask_spec {B : Base} {fd : FieldDef} (hB : B.WF) (hok : FieldOk B fd) :
    fieldMask fd = if pairwiseDisjoint (fieldPieces fd) = true then .mask (maskBits 0 (fieldPieces fd)) else .selfOverlap := by
  have hposAll : ∀ p ∈ fieldPieces fd, 1 ≤ p.len := fun p hp => (fieldPieces_bounds hok p hp).1
  unfold fieldMask
  cases ha : fd.array with
  | some cs =>
    obtain ⟨c, s⟩ := cs
    have hfit : Fits (fieldPieces fd) := fieldPieces_fits hB hok (by simp [ha])
    have hfp : fieldPieces fd = piecesFrom fd.ranges s c 0 := by simp [fieldPieces, ha]
    rw [hfp] at hfit hposAll ⊢
    simp only [rangesHaveSelfOverlap]
    obtain ⟨h1, h2⟩ := overlapLoop_scan fd.ranges s c 0 0 hfit
    have hiff := scan_some_iff (piecesFrom fd.ranges s c 0) 0 hposAll
    rw [noOverlap_zero] at hiff
    by_cases hd : pairwiseDisjoint (piecesFrom fd.ranges s c 0) = true
    · rw [h1 (hiff.mpr hd), arrayMask_eq fd.ranges s c 0 0 hfit, if_pos hd]; simp
    · have hnone : scan (piecesFrom fd.ranges s c 0) 0 = none := by
        cases hs : scan (piecesFrom fd.ranges s c 0) 0 with
        | none => rfl
        | some m' => exact absurd (hiff.mp ⟨m', hs⟩) hd
      rw [h2 hnone, if_neg hd]
  | none =>
    have hfp : fieldPieces fd = fd.ranges := by simp [fieldPieces, ha]
    rw [hfp] at hposAll ⊢
    match hfr : fd.ranges with
    | [] => exact absurd hfr hok.nonempty
    | [r] =>
      simp only
      have hd : pairwiseDisjoint [r] = true := by simp [pairwiseDisjoint]
      rw [if_pos hd]
      by_cases h128 : r.len = 128
      · rw [if_pos h128]
        have hb := fieldPieces_bounds hok r (by rw [hfp, hfr]; simp)
        have := hB.le128
        have hlo : r.lo = 0 := by omega
        simp [maskBits, h128, hlo]
      · rw [if_neg h128]
        have hfit : Fits (fieldPieces fd) := fieldPieces_fits hB hok (by
          rintro ⟨_, q, hq, hq128⟩; rw [hfr] at hq; simp at hq; subst hq; exact h128 hq128)
        rw [hfp, hfr] at hfit
        rw [mask128_eq r (hfit r (by simp))]
        simp [maskBits, pieceMask]
    | r :: r2 :: rest =>
      simp only
      have hfit : Fits (fieldPieces fd) := fieldPieces_fits hB hok (by
        rintro ⟨_, q, hq, _⟩; rw [hfr] at hq; simp at hq)
      rw [hfp, hfr] at hfit
      rw [hfr] at hposAll
      have hfit' : Fits (piecesFrom (r :: r2 :: rest) 0 1 0) := by
        simp only [piecesFrom, Nat.zero_mul, elemPieces_zero, List.append_nil]; exact hfit
      obtain ⟨h1, h2⟩ := overlapLoop_scan (r :: r2 :: rest) 0 1 0 0 hfit'
      have hpf : piecesFrom (r :: r2 :: rest) 0 1 0 = r :: r2 :: rest := by
        simp only [piecesFrom, Nat.zero_mul, elemPieces_zero, List.append_nil]
      rw [hpf] at h1 h2
      have hiff := scan_some_iff (r :: r2 :: rest) 0 hposAll
      rw [noOverlap_zero] at hiff
      simp only [rangesHaveSelfOverlap]
      by_cases hd : pairwiseDisjoint (r :: r2 :: rest) = true
      · have hf0 : Fits (elemPieces (r :: r2 :: rest) 0) := by rw [elemPieces_zero]; exact hfit
        rw [h1 (hiff.mpr hd), foldMask_eq 0 (r :: r2 :: rest) 0 hf0, if_pos hd, elemPieces_zero]; simp
      · have hnone : scan (r :: r2 :: rest) 0 = none := by
          cases hs : scan (r :: r2 :: rest) 0 with
          | none => rfl
          | some m' => exact absurd (hiff.mp ⟨m', hs⟩) hd
        rw [h2 hnone, if_neg hd]

end Bb

namespace Bb

/-- every (field, element, range) piece through which a bit can be written, in declaration order -/
def writablePieces : List FieldDef → List Rng
  | [] => []
  | fd :: fds => (if fd.setter then fieldPieces fd else []) ++ writablePieces fds

theorem noOverlap_append (a b : List Rng) (m : Nat) (ha : ∀ r ∈ a, 1 ≤ r.len) (hb : ∀ r ∈ b, 1 ≤ r.len) :
    NoOverlap (a ++ b) m ↔ NoOverlap a m ∧ NoOverlap b (m ||| maskBits 0 a) := by
  have hab : ∀ r ∈ a ++ b, 1 ≤ r.len := by
    intro r hr; rcases List.mem_append.mp hr with h | h
    · exact ha r h
    · exact hb r h
  rw [← scan_some_iff (a ++ b) m hab, ← scan_some_iff a m ha, scan_append]
  constructor
  · rintro ⟨m', h⟩
    cases hs : scan a m with
    | none => simp [hs] at h
    | some m1 =>
      simp only [hs, Option.bind] at h
      have := scan_eq a m m1 hs
      refine ⟨⟨m1, rfl⟩, ?_⟩
      rw [← this, ← scan_some_iff b m1 hb]
      exact ⟨m', h⟩
  · rintro ⟨⟨m1, hs⟩, h2⟩
    have := scan_eq a m m1 hs
    rw [← this, ← scan_some_iff b m1 hb] at h2
    obtain ⟨m', hm'⟩ := h2
    exact ⟨m', by simp [hs, hm']⟩

/-- a field's pieces against the running mask: the macro's two tests (`fieldMask`, then `running & mask`) -/
theorem noOverlap_field (ps : List Rng) (running : Nat) :
    NoOverlap ps running ↔ pairwiseDisjoint ps = true ∧ running &&& maskBits 0 ps = 0 := by
  unfold NoOverlap
  rw [and_eq_zero_iff]
  constructor
  · rintro ⟨h1, h2⟩
    refine ⟨h2, fun k hk => ?_⟩
    rw [testBit_maskBits]
    cases hany : ps.any (·.covers 0 k) with
    | false => rfl
    | true =>
      obtain ⟨r, hr, hrk⟩ := List.any_eq_true.mp hany
      rw [h1 r hr k hrk] at hk; cases hk
  · rintro ⟨h2, h1⟩
    refine ⟨fun r hr k hk => ?_, h2⟩
    cases hrk : running.testBit k with
    | false => rfl
    | true =>
      have := h1 k hrk
      rw [testBit_maskBits, List.any_eq_false] at this
      exact absurd hk (this r hr)

theorem writablePieces_pos {B : Base} : ∀ (fds : List FieldDef), (∀ fd ∈ fds, FieldOk B fd) → ∀ r ∈ writablePieces fds, 1 ≤ r.len := by
  intro fds
  induction fds with
  | nil => intro _ r hr; cases hr
  | cons fd fds ih =>
    intro hok r hr
    simp only [writablePieces, List.mem_append] at hr
    rcases hr with h | h
    · split at h
      · exact (fieldPieces_bounds (hok fd (by simp)) r h).1
      · cases h
    · exact ih (fun f hf => hok f (by simp [hf])) r h

/-- **the loop of `make_builder`**: it produces a chain exactly when no writable piece meets the running mask or another
    piece, and then ends at the union of all writable pieces; it never panics for accepted fields -/
theorem builderLoop_spec {B : Base} (hB : B.WF) : ∀ (fds : List FieldDef) (running : Nat) (acc : List BuilderStep),
    (∀ fd ∈ fds, FieldOk B fd) →
    (NoOverlap (writablePieces fds) running →
      ∃ steps, builderLoop fds running acc = .chain steps (running ||| maskBits 0 (writablePieces fds))) ∧
    (¬ NoOverlap (writablePieces fds) running → builderLoop fds running acc = .none) := by
  intro fds
  induction fds with
  | nil =>
    intro running acc _
    refine ⟨fun _ => ⟨acc.reverse, by simp [builderLoop, writablePieces, maskBits]⟩, fun h => ?_⟩
    exact absurd (by simp [NoOverlap, writablePieces, pairwiseDisjoint]) h
  | cons fd fds ih =>
    intro running acc hok
    have hokfd := hok fd (by simp)
    have hokrest : ∀ f ∈ fds, FieldOk B f := fun f hf => hok f (by simp [hf])
    by_cases hs : fd.setter = true
    · have hwp : writablePieces (fd :: fds) = fieldPieces fd ++ writablePieces fds := by simp [writablePieces, hs]
      have hpos1 : ∀ r ∈ fieldPieces fd, 1 ≤ r.len := fun r hr => (fieldPieces_bounds hokfd r hr).1
      have hpos2 := writablePieces_pos fds hokrest
      rw [hwp, noOverlap_append _ _ _ hpos1 hpos2, noOverlap_field]
      simp only [builderLoop, hs, if_true, fieldMask_spec hB hokfd]
      by_cases hd : pairwiseDisjoint (fieldPieces fd) = true
      · rw [if_pos hd]
        simp only
        by_cases hz : running &&& maskBits 0 (fieldPieces fd) = 0
        · have hz' : ¬ (running &&& maskBits 0 (fieldPieces fd) ≠ 0) := by simpa using hz
          rw [if_neg hz']
          obtain ⟨ih1, ih2⟩ := ih (running ||| maskBits 0 (fieldPieces fd))
            ({ field := fd, prevMask := running, nextMask := running ||| maskBits 0 (fieldPieces fd) } :: acc) hokrest
          constructor
          · rintro ⟨_, h2⟩
            obtain ⟨steps, hst⟩ := ih1 h2
            exact ⟨steps, by rw [hst, maskBits_append, Nat.or_assoc]⟩
          · intro h
            apply ih2
            intro h2; exact h ⟨⟨hd, hz⟩, h2⟩
        · have hz' : running &&& maskBits 0 (fieldPieces fd) ≠ 0 := hz
          rw [if_pos hz']
          exact ⟨fun h => absurd h.1.2 hz, fun _ => rfl⟩
      · rw [if_neg hd]
        exact ⟨fun h => absurd h.1.1 hd, fun _ => rfl⟩
    · have hs' : fd.setter = false := by simpa using hs
      have hwp : writablePieces (fd :: fds) = writablePieces fds := by simp [writablePieces, hs']
      rw [hwp]
      simp only [builderLoop, hs', Bool.false_eq_true, if_false]
      exact ih running acc hokrest

theorem writablePieces_below {B : Base} : ∀ (fds : List FieldDef), (∀ fd ∈ fds, FieldOk B fd) →
    ∀ r ∈ writablePieces fds, r.lo + r.len + 0 ≤ B.exposed := by
  intro fds
  induction fds with
  | nil => intro _ r hr; cases hr
  | cons fd fds ih =>
    intro hok r hr
    simp only [writablePieces, List.mem_append] at hr
    rcases hr with h | h
    · split at h
      · have := (fieldPieces_bounds (hok fd (by simp)) r h).2.1; omega
      · cases h
    · exact ih (fun f hf => hok f (by simp [hf])) r h

/-- **C14 (decision).** `make_builder` offers a builder exactly when no position is writable through more than one
    field, array element or range, and either a default is declared or the writable positions are all `N` bits. -/
theorem builder_offered_iff {B : Base} (hB : B.WF) (hasDefault : Bool) (fds : List FieldDef) (hok : ∀ fd ∈ fds, FieldOk B fd) :
    (∃ steps final, makeBuilder B hasDefault fds = .chain steps final) ↔
      pairwiseDisjoint (writablePieces fds) = true ∧
      (hasDefault = true ∨ ∀ p, p < B.exposed → (writablePieces fds).any (·.covers 0 p) = true) := by
  obtain ⟨h1, h2⟩ := builderLoop_spec hB fds 0 [] hok
  rw [noOverlap_zero] at h1 h2
  have hfin : maskBits 0 (writablePieces fds) < 2 ^ B.exposed := maskBits_lt _ 0 _ (writablePieces_below fds hok)
  have hpc : popCount 128 (maskBits 0 (writablePieces fds)) = B.exposed ↔
      ∀ p, p < B.exposed → (writablePieces fds).any (·.covers 0 p) = true := by
    rw [popCount_of_lt B.exposed _ hfin 128 hB.le128, popCount_full_iff]
    constructor
    · intro h p hp; have := h p hp; rwa [testBit_maskBits] at this
    · intro h p hp; rw [testBit_maskBits]; exact h p hp
  unfold makeBuilder
  by_cases hd : pairwiseDisjoint (writablePieces fds) = true
  · obtain ⟨steps, hst⟩ := h1 hd
    rw [hst]
    simp only [Nat.zero_or]
    constructor
    · rintro ⟨st, fin, h⟩
      refine ⟨hd, ?_⟩
      split at h
      · cases h
      · rename_i hc
        cases hdf : hasDefault with
        | true => exact Or.inl rfl
        | false =>
          right
          rw [← hpc]
          rcases Classical.em (popCount 128 (maskBits 0 (writablePieces fds)) = B.exposed) with hp | hp
          · exact hp
          · exact absurd ⟨hp, by rw [hdf]; rfl⟩ hc
    · rintro ⟨_, hor⟩
      have hc : ¬ (popCount 128 (maskBits 0 (writablePieces fds)) ≠ B.exposed ∧ (!hasDefault) = true) := by
        rintro ⟨hp, hdf⟩
        rcases hor with h | h
        · rw [h] at hdf; cases hdf
        · exact hp (hpc.mpr h)
      rw [if_neg hc]
      exact ⟨_, _, rfl⟩
  · rw [h2 hd]
    constructor
    · rintro ⟨st, fin, h⟩; cases h
    · rintro ⟨h, _⟩; exact absurd h hd

end Bb
