import BitbybitModel.Lemmas.Layout
/-! # Counting: pairwise disjoint ranges inside `N` bits have total length at most `N` -/
namespace Bb

def sumBelow : Nat → (Nat → Nat) → Nat
  | 0, _ => 0
  | N + 1, f => sumBelow N f + f N

theorem sumBelow_add (N : Nat) (f g : Nat → Nat) : sumBelow N (fun p => f p + g p) = sumBelow N f + sumBelow N g := by
  induction N with
  | zero => rfl
  | succ N ih => simp only [sumBelow, ih]; omega

theorem sumBelow_le (N : Nat) (f : Nat → Nat) (h : ∀ p, p < N → f p ≤ 1) : sumBelow N f ≤ N := by
  induction N with
  | zero => simp [sumBelow]
  | succ N ih =>
    have := ih (fun p hp => h p (by omega))
    have := h N (by omega)
    simp only [sumBelow]; omega

theorem sumBelow_congr (N : Nat) (f g : Nat → Nat) (h : ∀ p, p < N → f p = g p) : sumBelow N f = sumBelow N g := by
  induction N with
  | zero => rfl
  | succ N ih => simp only [sumBelow]; rw [ih (fun p hp => h p (by omega)), h N (by omega)]

def ind (r : Rng) (p : Nat) : Nat := if r.lo ≤ p ∧ p < r.lo + r.len then 1 else 0

theorem sumBelow_ind (r : Rng) : ∀ N, sumBelow N (ind r) = min (N - r.lo) r.len := by
  intro N
  induction N with
  | zero => simp [sumBelow]
  | succ N ih =>
    simp only [sumBelow, ih, ind]
    split <;> omega

/-- number of ranges covering position `p` -/
def cov : List Rng → Nat → Nat
  | [], _ => 0
  | r :: rs, p => ind r p + cov rs p

theorem sum_cov (N : Nat) : ∀ rs : List Rng, (∀ r ∈ rs, r.lo + r.len ≤ N) → sumBelow N (cov rs) = totalLen rs := by
  intro rs
  induction rs with
  | nil =>
    intro _
    have hz : ∀ M, sumBelow M (cov []) = 0 := by
      intro M; induction M with
      | zero => rfl
      | succ M ihM => show sumBelow M (cov []) + cov [] M = 0; rw [ihM]; rfl
    simp [totalLen, hz]
  | cons r rs ih =>
    intro h
    have hr := h r (by simp)
    have : sumBelow N (cov (r :: rs)) = sumBelow N (ind r) + sumBelow N (cov rs) := by
      rw [← sumBelow_add]; rfl
    rw [this, sumBelow_ind, ih (fun q hq => h q (by simp [hq]))]
    simp only [totalLen]; omega

theorem cov_zero_of_not_covered (rs : List Rng) (p : Nat) (h : ∀ q ∈ rs, ind q p = 0) : cov rs p = 0 := by
  induction rs with
  | nil => rfl
  | cons q rs ih => simp [cov, h q (by simp), ih (fun x hx => h x (by simp [hx]))]

theorem cov_le_one (rs : List Rng) (p : Nat) (hd : pairwiseDisjoint rs = true) : cov rs p ≤ 1 := by
  induction rs with
  | nil => simp [cov]
  | cons r rs ih =>
    simp only [pairwiseDisjoint, Bool.and_eq_true, List.all_eq_true] at hd
    by_cases hr : ind r p = 0
    · simp only [cov, hr]; have := ih hd.2; omega
    · have hcov : r.lo ≤ p ∧ p < r.lo + r.len := by
        unfold ind at hr; split at hr
        · assumption
        · exact absurd rfl hr
      have hz : cov rs p = 0 := by
        apply cov_zero_of_not_covered
        intro q hq
        have := hd.1 q hq
        simp only [Rng.disj, Bool.or_eq_true, decide_eq_true_eq] at this
        unfold ind; split
        · omega
        · rfl
      have : ind r p ≤ 1 := by unfold ind; split <;> omega
      simp only [cov, hz]; omega

/-- pairwise disjoint ranges inside `N` bits select at most `N` bits -/
theorem totalLen_le_of_disjoint (rs : List Rng) (N : Nat) (hd : pairwiseDisjoint rs = true)
    (hfit : ∀ r ∈ rs, r.lo + r.len ≤ N) : totalLen rs ≤ N := by
  rw [← sum_cov N rs hfit]
  exact sumBelow_le N _ (fun p _ => cov_le_one rs p hd)

end Bb
