import BitbybitModel.Macro.Bitenum
/-! # Facts about the bitenum checks and conversions -/
namespace Bb

/-- pigeonhole: `n` distinct values below `n` are all of them -/
theorem all_present : ∀ (n : Nat) (l : List Nat), l.Nodup → l.length = n → (∀ d ∈ l, d < n) →
    ∀ x, x < n → x ∈ l := by
  intro n
  induction n with
  | zero => intro l _ _ _ x hx; omega
  | succ n ih =>
    intro l hnd hlen hlt x hx
    by_cases hn : n ∈ l
    · by_cases hxn : x = n
      · subst hxn; exact hn
      · have hx' : x < n := by omega
        have hnd' : (l.erase n).Nodup := hnd.erase n
        have hlen' : (l.erase n).length = n := by
          rw [List.length_erase_of_mem hn]; omega
        have hlt' : ∀ d ∈ l.erase n, d < n := by
          intro d hd
          have hdl : d ∈ l := List.mem_of_mem_erase hd
          have hne : d ≠ n := by
            intro h; subst h
            exact (List.Nodup.mem_erase_iff hnd).mp hd |>.1 rfl
          have := hlt d hdl
          omega
        exact List.mem_of_mem_erase (ih (l.erase n) hnd' hlen' hlt' x hx')
    · exfalso
      have hlt' : ∀ d ∈ l, d < n := by
        intro d hd
        have := hlt d hd
        have : d ≠ n := fun h => hn (h ▸ hd)
        omega
      match l, hnd, hlen, hlt' with
      | a :: t, hnd, hlen, hlt' =>
        have hndt : t.Nodup := (List.nodup_cons.mp hnd).2
        have hat : a ∉ t := (List.nodup_cons.mp hnd).1
        have hlent : t.length = n := by simpa using hlen
        exact hat (ih t hndt hlent (fun d hd => hlt' d (by simp [hd])) a (hlt' a (by simp)))

/-- all discriminants are integer literals -/
def AllLit (vs : List VariantSyn) : Prop := ∀ v ∈ vs, ∃ n, v.discr = .lit n

/-- all literal discriminants are below `b` -/
def AllBelow (vs : List VariantSyn) (b : Nat) : Prop := ∀ v ∈ vs, ∀ n, v.discr = .lit n → n < b

theorem maxDiscr_ok : ∀ (vs : List VariantSyn) (a m : Nat), maxDiscr vs a = .ok m →
    AllLit vs ∧ a ≤ m ∧ (∀ v ∈ vs, ∀ n, v.discr = .lit n → n ≤ m) := by
  intro vs
  induction vs with
  | nil =>
    intro a m h
    simp [maxDiscr] at h; subst h
    refine ⟨?_, Nat.le_refl _, ?_⟩
    · intro v hv; cases hv
    · intro v hv; cases hv
  | cons v vs ih =>
    intro a m h
    cases hd : v.discr with
    | missing => simp [maxDiscr, hd] at h
    | nonLit => simp [maxDiscr, hd] at h
    | lit value =>
      simp only [maxDiscr, hd] at h
      obtain ⟨h1, h2, h3⟩ := ih _ m h
      refine ⟨?_, ?_, ?_⟩
      · intro w hw; rcases List.mem_cons.mp hw with rfl | hw'
        · exact ⟨value, hd⟩
        · exact h1 w hw'
      · split at h2 <;> omega
      · intro w hw n hn
        rcases List.mem_cons.mp hw with rfl | hw'
        · rw [hd] at hn; cases hn; split at h2 <;> omega
        · exact h3 w hw' n hn

theorem maxDiscr_exists : ∀ (vs : List VariantSyn) (a : Nat), AllLit vs → ∃ m, maxDiscr vs a = .ok m := by
  intro vs
  induction vs with
  | nil => intro a _; exact ⟨a, rfl⟩
  | cons v vs ih =>
    intro a h
    obtain ⟨n, hn⟩ := h v (by simp)
    obtain ⟨m, hm⟩ := ih (if n > a then n else a) (fun w hw => h w (by simp [hw]))
    exact ⟨m, by simp [maxDiscr, hn, hm]⟩

/-- the running maximum is below `b` iff the start and every discriminant are -/
theorem maxDiscr_lt : ∀ (vs : List VariantSyn) (a m b : Nat), maxDiscr vs a = .ok m → (m < b ↔ a < b ∧ AllBelow vs b) := by
  intro vs
  induction vs with
  | nil => intro a m b h; simp [maxDiscr] at h; subst h; simp [AllBelow]
  | cons v vs ih =>
    intro a m b h
    cases hd : v.discr with
    | missing => simp [maxDiscr, hd] at h
    | nonLit => simp [maxDiscr, hd] at h
    | lit value =>
      simp only [maxDiscr, hd] at h
      rw [ih _ m b h]
      constructor
      · rintro ⟨h1, h2⟩
        refine ⟨by split at h1 <;> omega, ?_⟩
        intro w hw n hn
        rcases List.mem_cons.mp hw with rfl | hw'
        · rw [hd] at hn; cases hn; split at h1 <;> omega
        · exact h2 w hw' n hn
      · rintro ⟨h1, h2⟩
        have hv := h2 v (by simp) value hd
        exact ⟨by split <;> omega, fun w hw n hn => h2 w (by simp [hw]) n hn⟩

end Bb
