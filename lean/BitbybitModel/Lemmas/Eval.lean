import BitbybitModel.Macro.Codegen
import BitbybitModel.Lemmas.Bits
/-! # Evaluation lemmas for the building blocks of the templates -/
namespace Bb
open Expr BinOp

theorem lt_usize_of_lt_bits {n : Nat} {W : ITy} (h : n < W.bits) : n < 2 ^ 64 := by
  have := W.bits_le_128
  have : (128:Nat) < 2 ^ 64 := by decide
  omega

theorem le_usize_of_le_bits {n : Nat} {W : ITy} (h : n ≤ W.bits) : n < 2 ^ 64 := by
  have := W.bits_le_128
  have : (128:Nat) < 2 ^ 64 := by decide
  omega

@[simp] theorem usize_bits : ITy.usize.bits = 64 := rfl
@[simp] theorem usize_signed : ITy.usize.signed = false := rfl

theorem eval_usz (Γ chk ρ) (n : Nat) (h : n < 2 ^ 64) : eval Γ chk ρ (usz n) = .ok (.int .usize n) := by
  simp [usz, eval, h]

theorem eval_one (Γ chk ρ) (W : ITy) : eval Γ chk ρ (one W) = .ok (.int W 1) := by
  have : 1 < 2 ^ W.bits := Nat.one_lt_two_pow (Nat.pos_iff_ne_zero.mp W.bits_pos)
  simp [one, eval, this]

theorem eval_lit0 (Γ chk ρ) (W : ITy) : eval Γ chk ρ (.lit W 0) = .ok (.int W 0) := by
  simp [eval, Nat.two_pow_pos]

/-- `((1 << n) - 1)` is the low-`n`-bits mask, for `n < W` -/
theorem eval_maskE (Γ chk ρ) (W : ITy) (n : Nat) (hs : W.signed = false) (h : n < W.bits) :
    eval Γ chk ρ (maskE W n) = .ok (.int W (2 ^ n - 1)) := by
  have hn : n < 2 ^ 64 := lt_usize_of_lt_bits h
  have hpow : 2 ^ n < 2 ^ W.bits := two_pow_lt_of_lt h
  have h1 : 1 ≤ 2 ^ n := Nat.one_le_two_pow
  simp [maskE, eval, eval_one, eval_usz, hn, evalBin, h, hs, Nat.shiftLeft_eq, Nat.mod_eq_of_lt hpow, h1]

/-- what the array index adds to every range: 0 for scalars, `i * stride` for arrays -/
def offOf (i : Nat) : Option Nat → Nat
  | none => 0
  | some s => i * s

theorem eval_shiftE (Γ chk) (ρ : Env) (i lo : Nat) (st : Option Nat)
    (hidx : st.isSome → ρ.index = .int .usize i)
    (hst : ∀ s, st = some s → s < 2 ^ 64) (h : lo + offOf i st < 2 ^ 64) :
    eval Γ chk ρ (shiftE lo st) = .ok (.int .usize (lo + offOf i st)) := by
  cases st with
  | none => simp [shiftE, offOf, eval_usz] at h ⊢; exact eval_usz _ _ _ _ h
  | some s =>
    have hs := hst s rfl
    simp only [offOf] at h
    have hlo : lo < 2 ^ 64 := by omega
    have hm : i * s < 2 ^ 64 := by omega
    simp [shiftE, eval, eval_usz, hlo, hs, evalBin, Env.get, hidx rfl, hm, h, offOf]

/-- one term of `getter_packed` -/
theorem eval_packedTerm (Γ chk) (ρ : Env) (W : ITy) (raw i : Nat) (st : Option Nat) (rg : Rng) (tgt : Nat)
    (hraw : ρ.raw = .int W raw) (hidx : st.isSome → ρ.index = .int .usize i)
    (hs : W.signed = false)
    (hst : ∀ s, st = some s → s < 2 ^ 64)
    (hlen : rg.len < W.bits)                       -- the mask does not overflow
    (hsh : rg.lo + offOf i st < W.bits)            -- right shift amount in range
    (htg : tgt + rg.len ≤ W.bits) (htg' : tgt < W.bits) :
    eval Γ chk ρ (packedTerm W st rg tgt)
      = .ok (.int W (field raw (rg.lo + offOf i st) rg.len <<< tgt)) := by
  have h64 : rg.lo + offOf i st < 2 ^ 64 := lt_usize_of_lt_bits hsh
  have ht64 : tgt < 2 ^ 64 := lt_usize_of_lt_bits htg'
  have hfield : field raw (rg.lo + offOf i st) rg.len <<< tgt < 2 ^ W.bits :=
    shiftLeft_lt_two_pow (field_lt _ _ _) htg
  simp only [packedTerm, eval, eval_shiftE Γ chk ρ i rg.lo st hidx hst h64, eval_maskE Γ chk _ W rg.len hs hlen,
    eval_usz _ _ _ tgt ht64]
  simp [Env.get, hraw, evalBin, hs, hsh, htg', Nat.and_two_pow_sub_one_eq_mod, field, Nat.mod_eq_of_lt hfield] at *
  exact Nat.mod_eq_of_lt hfield

/-- side conditions under which the generated packing neither overflows nor truncates -/
def RangesOk (W off : Nat) : List Rng → Nat → Prop
  | [], _ => True
  | r :: rs, tgt => r.len < W ∧ r.lo + off < W ∧ tgt + r.len ≤ W ∧ tgt < W ∧ RangesOk W off rs (tgt + r.len)

theorem eval_orAll_packed (Γ chk) (ρ : Env) (W : ITy) (raw i : Nat) (st : Option Nat)
    (hraw : ρ.raw = .int W raw) (hidx : st.isSome → ρ.index = .int .usize i)
    (hs : W.signed = false) (hst : ∀ s, st = some s → s < 2 ^ 64) :
    ∀ (rs : List Rng) (tgt : Nat) (acc : Expr) (a : Nat),
      eval Γ chk ρ acc = .ok (.int W a) →
      RangesOk W.bits (offOf i st) rs tgt →
      eval Γ chk ρ (orAll acc (packedTerms W st rs tgt))
        = .ok (.int W (a ||| gather raw (offOf i st) rs tgt)) := by
  intro rs
  induction rs with
  | nil => intro tgt acc a h _; simpa [packedTerms, orAll, gather] using h
  | cons r rs ih =>
    intro tgt acc a h hok
    obtain ⟨h1, h2, h3, h4, h5⟩ := hok
    have ht := eval_packedTerm Γ chk ρ W raw i st r tgt hraw hidx hs hst h1 h2 h3 h4
    have hacc : eval Γ chk ρ (.bin .or acc (packedTerm W st r tgt))
        = .ok (.int W (a ||| field raw (r.lo + offOf i st) r.len <<< tgt)) := by
      simp [eval, h, ht, evalBin]
    have := ih (tgt + r.len) _ _ hacc h5
    simpa [packedTerms, orAll, gather, Nat.or_assoc] using this

/-- **`getter_packed` is the gather of the declared ranges** (all layouts, raw values, indices, both profiles) -/
theorem eval_getterPacked (Γ chk) (ρ : Env) (W : ITy) (raw i : Nat) (st : Option Nat) (rs : List Rng) (e : Expr)
    (hraw : ρ.raw = .int W raw) (hidx : st.isSome → ρ.index = .int .usize i)
    (hs : W.signed = false) (hst : ∀ s, st = some s → s < 2 ^ 64)
    (hok : RangesOk W.bits (offOf i st) rs 0)
    (he : getterPacked W st rs = some e) :
    eval Γ chk ρ e = .ok (.int W (gather raw (offOf i st) rs 0)) := by
  cases rs with
  | nil => simp [getterPacked, packedTerms] at he
  | cons r rs =>
    simp only [getterPacked, packedTerms, Option.some.injEq] at he
    subst he
    obtain ⟨h1, h2, h3, h4, h5⟩ := hok
    have ht := eval_packedTerm Γ chk ρ W raw i st r 0 hraw hidx hs hst h1 h2 h3 h4
    have := eval_orAll_packed Γ chk ρ W raw i st hraw hidx hs hst rs (0 + r.len) _ _ ht h5
    simpa [gather] using this

theorem getterPacked_isSome (W : ITy) (st : Option Nat) (r : Rng) (rs : List Rng) :
    ∃ e, getterPacked W st (r :: rs) = some e := by
  simp [getterPacked, packedTerms]

end Bb
