import BitbybitModel.Lemmas.Layout
/-! # The getter templates compute the gather of the declared ranges -/
namespace Bb
open Expr BinOp

/-- `x & (1 << s) != 0` tests bit `s` -/
theorem and_two_pow_ne_zero (x s : Nat) : ((x &&& 2 ^ s) != 0) = x.testBit s := by
  by_cases h : x.testBit s
  · have : (x &&& 2 ^ s).testBit s = true := by simp [Nat.testBit_and, h, Nat.testBit_two_pow_self]
    have hne : x &&& 2 ^ s ≠ 0 := by
      intro h0; rw [h0] at this; simp at this
    simp [h, hne]
  · have : x &&& 2 ^ s = 0 := by
      apply Nat.eq_of_testBit_eq
      intro j
      simp only [Nat.testBit_and, Nat.testBit_two_pow, Nat.zero_testBit]
      by_cases hj : s = j
      · subst hj; simp [h]
      · simp [hj]
    simp [h, this]

theorem gather_single (raw off lo n : Nat) : gather raw off [⟨lo, n⟩] 0 = field raw (lo + off) n := by
  simp [gather]

theorem field_one_ne_zero (raw s : Nat) : (field raw s 1 != 0) = raw.testBit s := by
  unfold field
  rw [Nat.testBit_eq_decide_div_mod_eq, Nat.shiftRight_eq_div_pow]
  have : raw / 2 ^ s % 2 ^ 1 = raw / 2 ^ s % 2 := by simp
  rw [this]
  have h2 : raw / 2 ^ s % 2 < 2 := Nat.mod_lt _ (by decide)
  by_cases h : raw / 2 ^ s % 2 = 1
  · simp [h]
  · have : raw / 2 ^ s % 2 = 0 := by omega
    simp [this]

theorem castBits_narrow {src dst : ITy} {a : Nat} (h : dst.bits ≤ src.bits) (ha : a < 2 ^ dst.bits) :
    castBits src dst a = a := by
  simp [castBits, h, Nat.mod_eq_of_lt ha]

/-- evaluation of `extracted_bits` for every accepted field -/
theorem eval_extractedBits (Γ : CustomEnv) (chk : Bool) (ρ : Env) (B : Base) (fd : FieldDef) (raw i : Nat)
    (hB : B.WF) (hok : FieldOk B fd) (hwide : fd.totalBits ≤ B.internal)
    (hraw : ρ.raw = .int B.W raw) (hidx : fd.array.isSome → ρ.index = .int .usize i)
    (hi : ∀ c s, fd.array = some (c, s) → i < c) :
    ∃ e, extractedBits B fd = some e ∧
      eval Γ chk ρ e = .ok (present fd (gather raw (offOf i fd.stride) fd.ranges 0)) := by
  have hWb := hB.W_bits
  have hWs := hB.W_signed
  have hst := hok.stride_small hB
  have hidx' : fd.stride.isSome → ρ.index = .int .usize i := by
    intro h; apply hidx; unfold FieldDef.stride at h; cases ha : fd.array <;> simp_all
  have hexp := hB.exposed_le
  have hbound : ∀ r ∈ fd.ranges, r.lo + r.len + offOf i fd.stride ≤ B.internal :=
    fun r hr => Nat.le_trans (hok.elem_in_bounds hi hr) hexp
  have htot := totalBits_eq fd
  by_cases hbool : fd.fieldTypeSize = 0
  · -- bool
    obtain ⟨lo, hr⟩ := hok.bool_one hbool
    have hb := hbound ⟨lo, 1⟩ (by simp [hr])
    simp only at hb
    have hsh : lo + offOf i fd.stride < B.W.bits := by omega
    have h64 := lt_usize_of_lt_bits hsh
    refine ⟨.bin .ne (.bin .and (.var .raw) (.bin .shl (one B.W) (shiftE lo fd.stride))) (.lit B.W 0),
      by simp [extractedBits, hbool, hr, BITCOUNT_BOOL], ?_⟩
    have hpow : 2 ^ (lo + offOf i fd.stride) < 2 ^ B.W.bits := two_pow_lt_of_lt hsh
    simp only [eval, eval_shiftE Γ chk ρ i lo fd.stride hidx' hst h64, eval_one, eval_lit0, Env.get, hraw,
      evalBin, hsh, if_true, Nat.one_shiftLeft, Nat.mod_eq_of_lt hpow]
    simp [present, hbool, hr, gather_single, and_two_pow_ne_zero, field_one_ne_zero, Nat.two_pow_pos, evalBin]
  · have hwidth := hok.width_eq hbool
    by_cases hreg : fd.useRegularInt = true
    · -- native integer types
      have hprim := hok.regular_prim hreg hbool
      have hprimle : fd.primitiveType.bits ≤ B.W.bits := by omega
      -- the packed form, valid whenever no single range is as wide as the storage
      have packed : (∀ r ∈ fd.ranges, r.len < B.internal) →
          ∃ e, (getterPacked B.W fd.stride fd.ranges).map (fun p => Expr.cast p fd.primitiveType) = some e ∧
            eval Γ chk ρ e = .ok (present fd (gather raw (offOf i fd.stride) fd.ranges 0)) := by
        intro hlt
        have hro : RangesOk B.W.bits (offOf i fd.stride) fd.ranges 0 := by
          apply rangesOk_of
          · intro r hr; exact ⟨hok.len_pos r hr, by rw [hWb]; exact hlt r hr, by rw [hWb]; exact hbound r hr⟩
          · rw [hWb, ← htot]; omega
        cases hrs : fd.ranges with
        | nil => exact absurd hrs hok.nonempty
        | cons r rs =>
          obtain ⟨p, hp⟩ := getterPacked_isSome B.W fd.stride r rs
          refine ⟨.cast p fd.primitiveType, by simp [hp], ?_⟩
          have hev := eval_getterPacked Γ chk ρ B.W raw i fd.stride (r :: rs) p hraw hidx' hWs hst (hrs ▸ hro) hp
          have hg : gather raw (offOf i fd.stride) (r :: rs) 0 < 2 ^ fd.primitiveType.bits := by
            have := gather_lt raw (offOf i fd.stride) (r :: rs) 0
            rw [hprim, htot, hrs]; simpa using this
          simp [eval, hev, present, hbool, hreg, castBits_narrow hprimle hg]
      cases hrs : fd.ranges with
      | nil => exact absurd hrs hok.nonempty
      | cons r rs =>
        cases rs with
        | nil =>
          by_cases hfull : r.len = B.internal
          · -- the field is the whole storage
            have hb := hbound r (by simp [hrs])
            have hlo : r.lo = 0 := by omega
            have hoff : offOf i fd.stride = 0 := by omega
            refine ⟨.cast (.var .raw) fd.primitiveType, ?_, ?_⟩
            · unfold extractedBits
              rw [if_neg (show ¬ fd.fieldTypeSize = BITCOUNT_BOOL from hbool), if_pos hreg, hrs]
              simp only [if_pos hfull, if_pos hlo]
            have hpb : fd.primitiveType.bits = B.W.bits := by
              rw [hprim, htot, hrs]; simp [totalLen, hfull, hWb]
            · have : r = ⟨0, B.W.bits⟩ := by
                cases r; simp only [Rng.mk.injEq]; exact ⟨hlo, by rw [hWb]; exact hfull⟩
              simp [eval, Env.get, hraw, present, hbool, hreg, hoff, this, gather_single, field, castBits, hpb]
          · have hlt : ∀ q ∈ fd.ranges, q.len < B.internal := by
              intro q hq; rw [hrs] at hq; simp at hq; subst hq
              have := hbound q (by simp [hrs]); omega
            obtain ⟨e, he, hev⟩ := packed hlt
            refine ⟨e, ?_, by simpa [hrs] using hev⟩
            simpa [extractedBits, hbool, hreg, hrs, hfull, BITCOUNT_BOOL] using he
        | cons r2 rs2 =>
          have hlt : ∀ q ∈ fd.ranges, q.len < B.internal := by
            intro q hq
            have := len_lt_totalLen hok.len_pos (by rw [hrs]; simp) hq
            omega
          obtain ⟨e, he, hev⟩ := packed hlt
          refine ⟨e, ?_, by simpa [hrs] using hev⟩
          simpa [extractedBits, hbool, hreg, hrs, BITCOUNT_BOOL] using he
    · -- arbitrary-int types
      have hreg' : fd.useRegularInt = false := by simpa using hreg
      cases hrs : fd.ranges with
      | nil => exact absurd hrs hok.nonempty
      | cons r rs =>
        cases rs with
        | nil =>
          have hb := hbound r (by simp [hrs])
          have htb : fd.totalBits = r.len := by rw [htot, hrs]; simp [totalLen]
          have hsh : r.lo + offOf i fd.stride + r.len ≤ B.W.bits := by omega
          have h64 : r.lo + offOf i fd.stride < 2 ^ 64 := le_usize_of_le_bits (W := B.W) (by omega)
          have h64' : r.lo + offOf i fd.stride + r.len < 2 ^ 64 := le_usize_of_le_bits hsh
          refine ⟨.extract B.W fd.totalBits (.var .raw) (shiftE r.lo fd.stride), by simp [extractedBits, hbool, hreg', hrs, BITCOUNT_BOOL], ?_⟩
          simp only [eval, eval_shiftE Γ chk ρ i r.lo fd.stride hidx' hst h64, Env.get, hraw, evalExtract]
          simp [hWs, htb, h64', hsh, present, hbool, hreg', hrs, gather, field]
        | cons r2 rs2 =>
          have hlt : ∀ q ∈ fd.ranges, q.len < B.internal := by
            intro q hq
            have := len_lt_totalLen hok.len_pos (by rw [hrs]; simp) hq
            omega
          have hro : RangesOk B.W.bits (offOf i fd.stride) fd.ranges 0 := by
            apply rangesOk_of
            · intro q hq; exact ⟨hok.len_pos q hq, by rw [hWb]; exact hlt q hq, by rw [hWb]; exact hbound q hq⟩
            · rw [hWb, ← htot]; omega
          obtain ⟨p, hp⟩ := getterPacked_isSome B.W fd.stride r (r2 :: rs2)
          have hev := eval_getterPacked Γ chk ρ B.W raw i fd.stride _ p hraw hidx' hWs hst (hrs ▸ hro) hp
          refine ⟨.extract B.W fd.totalBits p (usz 0), by simp [extractedBits, hbool, hreg', hrs, hp, BITCOUNT_BOOL], ?_⟩
          have hg : gather raw (offOf i fd.stride) (r :: r2 :: rs2) 0 < 2 ^ fd.totalBits := by
            have := gather_lt raw (offOf i fd.stride) (r :: r2 :: rs2) 0
            rw [htot, hrs]; simpa using this
          have h1 : fd.totalBits < 2 ^ 64 := le_usize_of_le_bits (W := B.W) (by omega)
          have h2 : fd.totalBits ≤ B.W.bits := by omega
          simp only [eval, hev, eval_usz Γ chk ρ 0 (by decide), evalExtract]
          simp [hWs, h1, h2, present, hbool, hreg', Nat.mod_eq_of_lt hg]

end Bb
