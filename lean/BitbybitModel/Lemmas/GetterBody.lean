import BitbybitModel.Lemmas.Getter
/-! # The whole getter body: index assertion, extraction, custom-type conversion -/
namespace Bb
open Expr BinOp

/-- the result of a getter for extracted bits `bits`: the presented value, passed through
    `T::new_with_raw_value` for custom types -/
def getterResult (Γ : CustomEnv) (fd : FieldDef) (bits : Nat) : R :=
  match fd.custom with
  | none => .ok (present fd bits)
  | some c => Γ.new c.ty (present fd bits)

theorem FieldOk.single_wide {B : Base} {fd : FieldDef} (hB : B.WF) (hok : FieldOk B fd) {r : Rng}
    (hr : fd.ranges = [r]) : fd.totalBits ≤ B.internal := by
  have h1 : r.lo + r.len ≤ maxEnd fd.ranges := le_maxEnd (by simp [hr])
  have h2 := hok.reach_le
  have h3 := hB.exposed_le
  have h4 : maxEnd fd.ranges ≤ fd.reach := by
    unfold FieldDef.reach; cases fd.array with
    | none => simp
    | some cs => simp
  rw [totalBits_eq, hr]; simp [totalLen]; omega

/-- in-range index (or scalar): the getter returns the gathered bits -/
theorem eval_getterBody (Γ : CustomEnv) (chk : Bool) (B : Base) (fd : FieldDef) (raw i : Nat)
    (hB : B.WF) (hok : FieldOk B fd) (hwide : fd.totalBits ≤ B.internal)
    (hi : ∀ c s, fd.array = some (c, s) → i < c) :
    ∃ e, getterBody B fd = some e ∧
      eval Γ chk { raw := .int B.W raw, index := .int .usize i } e
        = getterResult Γ fd (gather raw (offOf i fd.stride) fd.ranges 0) := by
  let ρ : Env := { raw := .int B.W raw, index := .int .usize i }
  obtain ⟨eb, heb, hev⟩ := eval_extractedBits Γ chk ρ B fd raw i hB hok hwide rfl (fun _ => rfl) hi
  have hconv : ∀ (ρ' : Env), ρ'.raw = .int B.W raw → ρ'.index = .int .usize i →
      eval Γ chk ρ' (match fd.custom with
        | none => eb
        | some c => .letE .extracted eb (.customNew c.ty (.var .extracted)))
      = getterResult Γ fd (gather raw (offOf i fd.stride) fd.ranges 0) := by
    intro ρ' h1 h2
    obtain ⟨eb', heb', hev'⟩ := eval_extractedBits Γ chk ρ' B fd raw i hB hok hwide h1 (fun _ => h2) hi
    have : eb' = eb := by rw [heb] at heb'; exact (Option.some.inj heb').symm
    subst this
    cases hc : fd.custom with
    | none => simp [getterResult, hc, hev']
    | some c => simp [getterResult, hc, eval, hev', Env.set, Env.get]
  cases ha : fd.array with
  | none =>
    refine ⟨_, by simp [getterBody, heb, ha]; rfl, ?_⟩
    exact hconv _ rfl rfl
  | some cs =>
    obtain ⟨c, s⟩ := cs
    have hic := hi c s ha
    have hc64 := hok.count_lt c s ha
    refine ⟨_, by simp [getterBody, heb, ha]; rfl, ?_⟩
    have hi64 : i < 2 ^ 64 := by omega
    simp only [eval, eval_usz Γ chk _ c hc64, Env.get, evalBin]
    simp [hic]
    exact hconv _ rfl rfl

/-- out-of-range index: the `assert!` at the head of the body panics, under both profiles, before
    anything else is evaluated -/
theorem eval_getterBody_oob (Γ : CustomEnv) (chk : Bool) (B : Base) (fd : FieldDef) (raw i c s : Nat)
    (hB : B.WF) (hok : FieldOk B fd) (hwide : fd.totalBits ≤ B.internal)
    (ha : fd.array = some (c, s)) (hi : c ≤ i) :
    ∃ e, getterBody B fd = some e ∧
      eval Γ chk { raw := .int B.W raw, index := .int .usize i } e = .error (.panic "assertion failed") := by
  have hc2 := hok.count_ge c s ha
  obtain ⟨eb, heb, _⟩ := eval_extractedBits Γ chk { raw := .int B.W raw, index := .int .usize 0 } B fd raw 0 hB hok hwide rfl (fun _ => rfl)
    (fun c' s' h => by rw [ha] at h; cases h; omega)
  have hc64 := hok.count_lt c s ha
  refine ⟨_, by simp [getterBody, heb, ha]; rfl, ?_⟩
  have : ¬ i < c := by omega
  simp [eval, eval_usz Γ chk _ c hc64, Env.get, evalBin, this]

end Bb
