import BitbybitModel.Lemmas.SetterBody
import BitbybitModel.Lemmas.ReadBack
/-! # Histories of writes -/
namespace Bb

/-- the register after a history of reference writes (oldest first) -/
def applyWrites (W : Nat) (init : Nat) (ops : List WriteOp) : Nat :=
  ops.foldl (fun s op => writeSpec W s op.v op.off op.rs) init

/-- **last write wins, bit by bit** -/
theorem testBit_applyWrites (W : Nat) : ∀ (ops : List WriteOp) (init k : Nat), init < 2 ^ W →
    (applyWrites W init ops).testBit k = (decide (k < W) && lastWrite init ops k) := by
  intro ops
  induction ops with
  | nil =>
    intro init k h
    by_cases hk : k < W
    · simp [applyWrites, lastWrite, lastWriteIn, hk]
    · simp [applyWrites, lastWrite, lastWriteIn, hk, testBit_eq_false_of_lt h (by omega : W ≤ k)]
  | cons op rest ih =>
    intro init k h
    have h' : writeSpec W init op.v op.off op.rs < 2 ^ W := writeSpec_lt _ _ _ _ _
    have := ih (writeSpec W init op.v op.off op.rs) k h'
    simp only [applyWrites, List.foldl] at this ⊢
    rw [this]
    simp only [lastWrite, lastWriteIn]
    cases hl : lastWriteIn rest k with
    | some b => simp
    | none =>
      simp only [Option.getD_none, testBit_writeSpec]
      by_cases hk : k < W <;> simp [hk]

theorem applyWrites_lt (W init : Nat) (ops : List WriteOp) (h : init < 2 ^ W) : applyWrites W init ops < 2 ^ W := by
  induction ops generalizing init with
  | nil => simpa [applyWrites] using h
  | cons op rest ih => exact ih _ (writeSpec_lt _ _ _ _ _)

/-- one `with_` / `set_` call of an accepted declaration -/
structure Step where
  fd : FieldDef
  i : Nat
  fv : Val
  v : Nat

def Step.toOp (s : Step) : WriteOp := { rs := s.fd.ranges, off := offOf s.i s.fd.stride, v := s.v }

/-- a step is legal: accepted field, in-range index, a value of the field's type, no self-overlapping list -/
structure Step.Ok (Γ : CustomEnv) (B : Base) (s : Step) : Prop where
  field_ok : FieldOk B s.fd
  wide : s.fd.totalBits ≤ B.internal
  index : ∀ c st, s.fd.array = some (c, st) → s.i < c
  arg : ArgOk Γ s.fd s.fv s.v
  disjoint : pairwiseDisjoint s.fd.ranges = true

/-- executing the generated bodies one after the other -/
inductive Runs (Γ : CustomEnv) (chk : Bool) (B : Base) : Nat → List Step → Nat → Prop where
  | nil (s : Nat) : Runs Γ chk B s [] s
  | cons (s x t : Nat) (st : Step) (rest : List Step) (e : Expr) :
      setterBody B st.fd = some e →
      eval Γ chk { raw := .int B.W s, index := .int .usize st.i, fieldValue := st.fv } e = .ok (.int B.W x) →
      Runs Γ chk B x rest t → Runs Γ chk B s (st :: rest) t

/-- every legal history can be executed (no panic, under either profile) and ends in the reference state -/
theorem runs_exists (Γ : CustomEnv) (chk : Bool) (B : Base) (hB : B.WF) : ∀ (steps : List Step) (s : Nat),
    s < 2 ^ B.internal → (∀ st ∈ steps, st.Ok Γ B) →
    Runs Γ chk B s steps (applyWrites B.internal s (steps.map Step.toOp)) := by
  intro steps
  induction steps with
  | nil => intro s _ _; exact Runs.nil s
  | cons st rest ih =>
    intro s hs hok
    have h := hok st (by simp)
    obtain ⟨e, he, x, hev, hx, hsp, _⟩ := eval_setterBody Γ chk B st.fd s st.i st.fv st.v hB h.field_ok h.wide hs h.index h.arg
    have hxe := hsp h.disjoint
    refine Runs.cons s x _ st rest e he hev ?_
    have := ih x hx (fun q hq => hok q (by simp [hq]))
    simpa [applyWrites, List.foldl, Step.toOp, hxe] using this

/-- execution is deterministic: whatever run exists ends in the reference state -/
theorem runs_unique (Γ : CustomEnv) (chk : Bool) (B : Base) (hB : B.WF) : ∀ (steps : List Step) (s t : Nat),
    s < 2 ^ B.internal → (∀ st ∈ steps, st.Ok Γ B) → Runs Γ chk B s steps t →
    t = applyWrites B.internal s (steps.map Step.toOp) := by
  intro steps
  induction steps with
  | nil => intro s t _ _ h; cases h; rfl
  | cons st rest ih =>
    intro s t hs hok hrun
    cases hrun with
    | cons _ x _ _ _ e he hev hrest =>
      have h := hok st (by simp)
      obtain ⟨e', he', x', hev', hx', hsp, _⟩ := eval_setterBody Γ chk B st.fd s st.i st.fv st.v hB h.field_ok h.wide hs h.index h.arg
      have hee : e = e' := by rw [he] at he'; exact Option.some.inj he'
      subst hee
      have hxx : x = x' := by rw [hev] at hev'; cases hev'; rfl
      subst hxx
      have := ih x t hx' (fun q hq => hok q (by simp [hq])) hrest
      simpa [applyWrites, List.foldl, Step.toOp, hsp h.disjoint] using this

end Bb
