import BitbybitModel.Macro.Valid
/-! # Arithmetic facts about accepted layouts -/
namespace Bb

theorem foldl_add_len (rs : List Rng) (a : Nat) : rs.foldl (fun a r => a + r.len) a = a + totalLen rs := by
  induction rs generalizing a with
  | nil => simp [totalLen]
  | cons r rs ih => simp [List.foldl, ih, totalLen]; omega

theorem totalBits_eq (fd : FieldDef) : fd.totalBits = totalLen fd.ranges := by
  simp [FieldDef.totalBits, foldl_add_len]

theorem sumLens_eq (rs : List Rng) : sumLens rs = totalLen rs := by
  simp [sumLens, foldl_add_len]

theorem foldl_max_ge (rs : List Rng) (a : Nat) : a ≤ rs.foldl (fun a r => max a (r.lo + r.len)) a := by
  induction rs generalizing a with
  | nil => simp
  | cons r rs ih => simp only [List.foldl]; exact Nat.le_trans (Nat.le_max_left _ _) (ih _)

theorem le_maxEnd {rs : List Rng} {r : Rng} (h : r ∈ rs) : r.lo + r.len ≤ maxEnd rs := by
  unfold maxEnd
  suffices ∀ a, r.lo + r.len ≤ rs.foldl (fun a r => max a (r.lo + r.len)) a from this 0
  induction rs with
  | nil => cases h
  | cons q rs ih =>
    intro a
    simp only [List.foldl]
    cases h with
    | head => exact Nat.le_trans (Nat.le_max_right _ _) (foldl_max_ge _ _)
    | tail _ h' => exact ih h' _

theorem len_le_totalLen {rs : List Rng} {r : Rng} (h : r ∈ rs) : r.len ≤ totalLen rs := by
  induction rs with
  | nil => cases h
  | cons q rs ih =>
    cases h with
    | head => simp [totalLen]
    | tail _ h' => have := ih h'; simp [totalLen]; omega

/-- in a list of at least two non-empty ranges every range is strictly shorter than the total -/
theorem len_lt_totalLen {rs : List Rng} (hpos : ∀ r ∈ rs, 1 ≤ r.len) (h2 : 2 ≤ rs.length) {r : Rng} (h : r ∈ rs) :
    r.len < totalLen rs := by
  match rs, h2 with
  | a :: b :: rest, _ =>
    have ha := hpos a (by simp)
    have hb := hpos b (by simp)
    simp only [totalLen]
    rcases List.mem_cons.mp h with rfl | h'
    · omega
    · rcases List.mem_cons.mp h' with rfl | h''
      · omega
      · have := len_le_totalLen h''; omega

/-- `RangesOk` from per-range bounds -/
theorem rangesOk_of (W off : Nat) : ∀ (rs : List Rng) (t : Nat),
    (∀ r ∈ rs, 1 ≤ r.len ∧ r.len < W ∧ r.lo + r.len + off ≤ W) → t + totalLen rs ≤ W → RangesOk W off rs t := by
  intro rs
  induction rs with
  | nil => intro t _ _; trivial
  | cons r rs ih =>
    intro t h ht
    have hr := h r (by simp)
    simp only [totalLen] at ht
    refine ⟨hr.2.1, by omega, by omega, by omega, ih (t + r.len) (fun q hq => h q (by simp [hq])) (by omega)⟩

/-- offset of element `i` plus the end of any range stays inside the exposed width -/
theorem FieldOk.elem_in_bounds {B : Base} {fd : FieldDef} (hok : FieldOk B fd) {i : Nat}
    (hi : ∀ c s, fd.array = some (c, s) → i < c) {r : Rng} (hr : r ∈ fd.ranges) :
    r.lo + r.len + offOf i fd.stride ≤ B.exposed := by
  have hm := le_maxEnd hr
  have hreach := hok.reach_le
  unfold FieldDef.reach at hreach
  unfold FieldDef.stride
  cases ha : fd.array with
  | none => simp [ha, offOf] at hreach ⊢; omega
  | some cs =>
    obtain ⟨c, s⟩ := cs
    simp only [ha, Option.map, offOf] at hreach ⊢
    have hic := hi c s ha
    have : i * s ≤ (c - 1) * s := Nat.mul_le_mul_right s (by omega)
    omega

theorem FieldOk.stride_small {B : Base} {fd : FieldDef} (hB : B.WF) (hok : FieldOk B fd) :
    ∀ s, fd.stride = some s → s < 2 ^ 64 := by
  intro s hs
  unfold FieldDef.stride at hs
  cases ha : fd.array with
  | none => simp [ha] at hs
  | some cs =>
    obtain ⟨c, s'⟩ := cs
    simp [ha] at hs; subst hs
    have hc := hok.count_ge c s' ha
    have hreach := hok.reach_le
    simp only [FieldDef.reach, ha] at hreach
    have : 1 * s' ≤ (c - 1) * s' := Nat.mul_le_mul_right s' (by omega)
    have := hB.le128
    have : (128 : Nat) < 2 ^ 64 := by decide
    omega

end Bb
