import BitbybitModel.Macro.Decl
/-! # Literal text: `Literal::to_string()` of an unsuffixed decimal literal and `str::parse::<usize>` -/
namespace Bb
theorem digits_value (n : Nat) : (Nat.toDigits 10 n).foldl (fun a c => a * 10 + (c.toNat - '0'.toNat)) 0 = n := by
  have h := @Nat.ofDigitChars_ten_toDigits n
  rw [Nat.ofDigitChars_eq_foldl] at h
  have e : (fun (a : Nat) (c : Char) => a * 10 + (c.toNat - '0'.toNat)) = (fun sofar c => 10 * sofar + (c.toNat - '0'.toNat)) := by
    funext a c; rw [Nat.mul_comm]
  rw [e]; exact h

theorem parseDigits_repr (n : Nat) : parseDigits (Nat.repr n) = some n := by
  unfold parseDigits
  simp only [Nat.toList_repr]
  have hne : (Nat.toDigits 10 n).isEmpty = false := by
    cases hd : Nat.toDigits 10 n with
    | nil => exact absurd hd Nat.toDigits_ne_nil
    | cons a b => rfl
  have hall : (Nat.toDigits 10 n).all Char.isDigit = true := by
    rw [List.all_eq_true]; intro c hc
    exact Nat.isDigit_of_mem_toDigits (by decide) (by decide) hc
  rw [hne, hall, digits_value]; rfl

/-- the decimal text of a number below `2^64` (what `proc_macro2::Literal::to_string` yields for an unsuffixed
    decimal literal) is read back by `str::parse::<usize>` to that number -/
theorem parseUsize_repr (n : Nat) (h : n < 2 ^ 64) : parseUsize (Nat.repr n) = some n := by
  unfold parseUsize; rw [parseDigits_repr]; simp [h]

/-- decimal text too large for `usize` is not a number for the macro -/
theorem parseUsize_repr_large (n : Nat) (h : 2 ^ 64 ≤ n) : parseUsize (Nat.repr n) = none := by
  unfold parseUsize; rw [parseDigits_repr]
  have : ¬ n < 2 ^ 64 := by omega
  simp [this]

/-- **text level of the attribute tokens**: a literal written in decimal with a value below `2^64` is the token
    `.lit (some n)` of the token-level theorems; one that is too large is `.lit none` (and rejected as "not a number") -/
theorem Tok.ofLiteralText_repr (n : Nat) (h : n < 2 ^ 64) : Tok.ofLiteralText (Nat.repr n) = .lit (some n) := by
  unfold Tok.ofLiteralText; rw [parseUsize_repr n h]

theorem Tok.ofLiteralText_repr_large (n : Nat) (h : 2 ^ 64 ≤ n) : Tok.ofLiteralText (Nat.repr n) = .lit none := by
  unfold Tok.ofLiteralText; rw [parseUsize_repr_large n h]
end Bb
