import BitbybitModel.Macro.Valid
/-! # Every field definition `parseField` returns satisfies `FieldOk` -/
namespace Bb

/-- all ranges collected so far are non-empty -/
def PState.RangesPos (ps : PState) : Prop := ∀ r ∈ ps.ranges, 1 ≤ r.len

theorem finishedArgument_pos (isRange hasCount : Bool) (ps ps' : PState) (st : AP) (inArr : Bool) (tok : Nat)
    (h : finishedArgument isRange hasCount ps st inArr tok = .ok ps') (hp : ps.RangesPos) : ps'.RangesPos := by
  unfold finishedArgument at h
  simp only [bind, Except.bind] at h
  -- the first stage only touches `rangesToken`
  split at h
  · cases h
  · rename_i ps1 hps1
    have h1 : ps1.ranges = ps.ranges := by
      (repeat' split at hps1) <;> (try (cases hps1)) <;> rfl
    have hp1 : ps1.RangesPos := by intro r hr; rw [h1] at hr; exact hp r hr
    (repeat' split at h) <;> (try (cases h)) <;> (try exact hp1)
    all_goals
      intro r hr
      simp only [List.mem_append, List.mem_cons, List.mem_nil_iff, or_false] at hr
      rcases hr with hr | rfl
      · exact hp1 r hr
      · simp only; omega

theorem parseElemTokens_pos (isRange hasCount : Bool) (outer : Nat) : ∀ (ts : List Tok) (st : AP) (ps ps' : PState),
    parseElemTokens isRange hasCount outer ts st ps = .ok ps' → ps.RangesPos → ps'.RangesPos := by
  intro ts
  induction ts with
  | nil => intro st ps ps' h hp; exact finishedArgument_pos _ _ _ _ _ _ _ h hp
  | cons t ts ih =>
    intro st ps ps' h hp
    cases t with
    | group d inner => simp [parseElemTokens] at h
    | ident s =>
      simp only [parseElemTokens, bind, Except.bind] at h
      split at h
      · cases h
      · exact ih _ _ _ h hp
    | punct c =>
      simp only [parseElemTokens] at h
      split at h
      · simp only [bind, Except.bind] at h
        split at h
        · cases h
        · rename_i ps1 h1
          exact ih _ _ _ h (finishedArgument_pos _ _ _ _ _ _ _ h1 hp)
      · simp only [bind, Except.bind] at h
        split at h
        · cases h
        · exact ih _ _ _ h hp
    | lit l =>
      simp only [parseElemTokens, bind, Except.bind] at h
      split at h
      · cases h
      · exact ih _ _ _ h hp

theorem parseElems_pos (isRange hasCount : Bool) (outer : Nat) : ∀ (es : List (List Tok)) (ps ps' : PState),
    parseElems isRange hasCount outer es ps = .ok ps' → ps.RangesPos → ps'.RangesPos := by
  intro es
  induction es with
  | nil => intro ps ps' h hp; simp [parseElems] at h; subst h; exact hp
  | cons e es ih =>
    intro ps ps' h hp
    simp only [parseElems, bind, Except.bind] at h
    split at h
    · cases h
    · rename_i ps1 h1
      exact ih _ _ h (parseElemTokens_pos _ _ _ _ _ _ _ h1 hp)

theorem parseTopTokens_pos (isRange hasCount : Bool) : ∀ (ts : List Tok) (tok : Nat) (st : AP) (ps ps' : PState),
    parseTopTokens isRange hasCount ts tok st ps = .ok ps' → ps.RangesPos → ps'.RangesPos := by
  intro ts
  induction ts with
  | nil => intro tok st ps ps' h hp; exact finishedArgument_pos _ _ _ _ _ _ _ h hp
  | cons t ts ih =>
    intro tok st ps ps' h hp
    cases t with
    | group d inner =>
      simp only [parseTopTokens] at h
      split at h
      · cases h
      · simp only [bind, Except.bind] at h
        split at h
        · cases h
        · rename_i ps1 h1
          exact ih _ _ _ _ h (parseElems_pos _ _ _ _ _ _ h1 hp)
    | ident s =>
      simp only [parseTopTokens, bind, Except.bind] at h
      split at h
      · cases h
      · exact ih _ _ _ _ h hp
    | punct c =>
      simp only [parseTopTokens] at h
      split at h
      · simp only [bind, Except.bind] at h
        split at h
        · cases h
        · rename_i ps1 h1
          exact ih _ _ _ _ h (finishedArgument_pos _ _ _ _ _ _ _ h1 hp)
      · simp only [bind, Except.bind] at h
        split at h
        · cases h
        · exact ih _ _ _ _ h hp
    | lit l =>
      simp only [parseTopTokens, bind, Except.bind] at h
      split at h
      · cases h
      · exact ih _ _ _ _ h hp

theorem parseAttrs_pos (hasCount : Bool) : ∀ (as : List Attr) (ps : PState) (docs : Nat) (ps' : PState) (docs' : Nat),
    parseAttrs hasCount as ps docs = .ok (ps', docs') → ps.RangesPos → ps'.RangesPos := by
  intro as
  induction as with
  | nil => intro ps docs ps' docs' h hp; simp [parseAttrs] at h; rw [← h.1]; exact hp
  | cons a as ih =>
    intro ps docs ps' docs' h hp
    simp only [parseAttrs] at h
    split at h
    · split at h
      · cases h
      · simp only [bind, Except.bind] at h
        split at h
        · cases h
        · rename_i ps1 h1
          split at h
          · cases h
          · exact ih _ _ _ _ h (parseTopTokens_pos _ _ _ _ _ _ _ h1 hp)
    · split at h
      · exact ih _ _ _ _ h hp
      · cases h

/-- consistency of what the field's type tells the macro -/
structure TyInfo.WF (ti : TyInfo) : Prop where
  custom_iff : ti.custom.isSome ↔ ti.fromDT = none
  le128 : ∀ b, ti.fromDT = some b → b ≤ 128
  signed_native : ti.isSigned = true → ∃ b, ti.fromDT = some b ∧ (b = 8 ∨ b = 16 ∨ b = 32 ∨ b = 64 ∨ b = 128)

theorem tryParseArbitraryIntType_lt (s : String) (n : Nat) (h : tryParseArbitraryIntType s = some n) : n < 128 := by
  unfold tryParseArbitraryIntType at h
  split at h
  · split at h
    · cases h
    · simp only at h
      split at h
      · split at h
        · rename_i hc; cases h; exact hc.2.1
        · cases h
      · cases h
  · cases h

theorem parseScalarField_wf (ty : TySyn) (fromDT : Option Nat) (sg : Bool) (h : parseScalarField ty = .ok (fromDT, sg)) :
    (∀ b, fromDT = some b → b ≤ 128) ∧ (sg = true → ∃ b, fromDT = some b ∧ (b = 8 ∨ b = 16 ∨ b = 32 ∨ b = 64 ∨ b = 128)) := by
  unfold parseScalarField at h
  simp only at h
  split at h
  · cases h
  · split at h
    · rename_i v hv
      cases h
      (repeat' split at hv) <;> (try (cases hv)) <;> simp [BITCOUNT_BOOL]
    · split at h
      · rename_i last hl
        cases h
        refine ⟨?_, by simp⟩
        intro b hb
        have := tryParseArbitraryIntType_lt _ _ hb
        omega
      · cases h

theorem typeInfo_wf (resolve : List String → Nat) (ty : TySyn) (ti : TyInfo) (h : typeInfo resolve ty = .ok ti) : ti.WF := by
  unfold typeInfo at h
  split at h
  · cases h
  · rename_i fromDT sg hps
    obtain ⟨h1, h2⟩ := parseScalarField_wf ty fromDT sg hps
    split at h
    · cases h
      exact ⟨by simp, fun b hb => h1 b hb, h2⟩
    · (repeat' split at h) <;> (try (cases h))
      all_goals
        refine ⟨by simp, by simp, ?_⟩
        intro hsg
        obtain ⟨b, hb, _⟩ := h2 hsg
        cases hb

end Bb

namespace Bb

theorem bits_nativeOfScalar (b : Nat) (sg : Bool) (hb : b = 8 ∨ b = 16 ∨ b = 32 ∨ b = 64 ∨ b = 128) :
    (nativeOfScalar b sg).bits = b := by
  rcases hb with rfl | rfl | rfl | rfl | rfl <;> cases sg <;> rfl

theorem signed_nativeOfScalar (b : Nat) (sg : Bool) : (nativeOfScalar b sg).signed = sg := by
  cases sg
  · simp [nativeOfScalar, signed_unsignedOf]
  · simp only [nativeOfScalar, if_true]; unfold ITy.signedOf; (repeat' split) <;> rfl

theorem toUnsigned_signedOf (b : Nat) : (ITy.signedOf b).toUnsigned = ITy.unsignedOf b := by
  unfold ITy.signedOf ITy.unsignedOf; (repeat' split) <;> first | rfl | omega

theorem primitiveByWidth_eq (n : Nat) (h : n ≤ 128) : primitiveByWidth n = some (ITy.unsignedOf n) := by
  unfold primitiveByWidth ITy.unsignedOf; (repeat' split) <;> first | rfl | omega

theorem regular_cases (n : Nat) (h : isIntSizeRegularType n = true) (h0 : n ≠ 0) :
    n = 8 ∨ n = 16 ∨ n = 32 ∨ n = 64 ∨ n = 128 := by
  simp [isIntSizeRegularType, BITCOUNT_BOOL] at h; omega

theorem bits_unsignedOf_regular (n : Nat) (h : n = 8 ∨ n = 16 ∨ n = 32 ∨ n = 64 ∨ n = 128) : (ITy.unsignedOf n).bits = n := by
  rcases h with rfl | rfl | rfl | rfl | rfl <;> rfl

theorem maxEnd_le_reach (fd : FieldDef) : maxEnd fd.ranges ≤ fd.reach := by
  unfold FieldDef.reach; cases fd.array with
  | none => simp
  | some cs => simp

/-- **the checks of `parse_field` establish `FieldOk`** -/
theorem fieldOk_of_firstError (B : Base) (name : String) (ti : TyInfo) (count : Option Nat) (ps : PState) (docs : Nat)
    (hti : ti.WF) (hpos : ps.RangesPos) (hcount : ∀ c, count = some c → c < 2 ^ 64)
    (h : firstError B.exposed ti count ps = none) : FieldOk B (mkFieldDef name ti count ps docs) := by
  unfold firstError at h
  simp only at h
  -- peel the checks off one by one
  by_cases h1 : sumLens ps.ranges ≥ 2 ^ 64
  · simp [h1] at h
  rw [if_neg h1] at h
  by_cases h2 : ti.fromDT = none ∧ sumLens ps.ranges > 128
  · simp [h2] at h
  rw [if_neg h2] at h
  by_cases h3 : fieldTypeSizeOf ti (sumLens ps.ranges) = BITCOUNT_BOOL ∧ (sumLens ps.ranges ≠ 1 ∨ ps.ranges.length ≠ 1)
  · rw [if_pos h3] at h; split at h <;> cases h
  rw [if_neg h3] at h
  by_cases h4 : fieldTypeSizeOf ti (sumLens ps.ranges) ≠ BITCOUNT_BOOL ∧ sumLens ps.ranges ≠ fieldTypeSizeOf ti (sumLens ps.ranges)
  · simp [h4] at h
  rw [if_neg h4] at h
  -- abbreviations
  have hsize0 : fieldTypeSizeOf ti (sumLens ps.ranges) = 0 → sumLens ps.ranges = 1 ∧ ps.ranges.length = 1 := by
    intro hz
    by_cases ha : sumLens ps.ranges = 1
    · by_cases hb : ps.ranges.length = 1
      · exact ⟨ha, hb⟩
      · exact absurd ⟨hz, Or.inr hb⟩ h3
    · exact absurd ⟨hz, Or.inl ha⟩ h3
  have hsizeN : fieldTypeSizeOf ti (sumLens ps.ranges) ≠ 0 → sumLens ps.ranges = fieldTypeSizeOf ti (sumLens ps.ranges) := by
    intro hz
    by_cases ha : sumLens ps.ranges = fieldTypeSizeOf ti (sumLens ps.ranges)
    · exact ha
    · exact absurd ⟨hz, ha⟩ h4
  -- bool ⇒ the data type says so
  have hboolDT : fieldTypeSizeOf ti (sumLens ps.ranges) = 0 → ti.fromDT = some 0 := by
    intro hz
    cases hf : ti.fromDT with
    | some b => simp [fieldTypeSizeOf, hf] at hz; rw [hz]
    | none =>
      have := (hsize0 hz).1
      simp [fieldTypeSizeOf, hf] at hz
      omega
  have htotal : sumLens ps.ranges ≤ 128 := by
    cases hf : ti.fromDT with
    | none =>
      by_cases hx : sumLens ps.ranges > 128
      · exact absurd ⟨hf, hx⟩ h2
      · omega
    | some b =>
      have hb := hti.le128 b hf
      by_cases hz : fieldTypeSizeOf ti (sumLens ps.ranges) = 0
      · have := (hsize0 hz).1; omega
      · have := hsizeN hz; simp [fieldTypeSizeOf, hf] at this; omega
  have hnonempty : ps.ranges ≠ [] := by
    intro he
    by_cases hz : fieldTypeSizeOf ti (sumLens ps.ranges) = 0
    · have := (hsize0 hz).2; simp [he] at this
    · have := hsizeN hz
      simp [he, sumLens] at this hz
      exact hz this.symm
  -- the array / scalar bound checks
  have hreach : (mkFieldDef name ti count ps docs).reach ≤ B.exposed ∧
      (∀ c s, (mkFieldDef name ti count ps docs).array = some (c, s) → 2 ≤ c) ∧
      (∀ c s r, (mkFieldDef name ti count ps docs).array = some (c, s) → ps.ranges = [r] → r.len ≤ s) := by
    cases hc : count with
    | none =>
      simp only [hc] at h
      by_cases hb : maxEnd ps.ranges > B.exposed
      · simp [hb] at h
      · refine ⟨by simp [mkFieldDef, FieldDef.reach, hc]; omega, by simp [mkFieldDef, hc], by simp [mkFieldDef, hc]⟩
    | some c =>
      simp only [hc] at h
      by_cases a1 : ps.ranges.length = 1 ∧ sumLens ps.ranges > strideOf ps (sumLens ps.ranges)
      · simp [a1] at h
      rw [if_neg a1] at h
      by_cases a2 : ps.ranges.length ≠ 1 ∧ ps.indexedStride = none
      · simp [a2] at h
      rw [if_neg a2] at h
      by_cases a3 : c = 0
      · simp [a3] at h
      rw [if_neg a3] at h
      by_cases a4 : (c - 1) * strideOf ps (sumLens ps.ranges) + maxEnd ps.ranges ≥ 2 ^ 64
      · simp [a4] at h
      rw [if_neg a4] at h
      by_cases a5 : (c - 1) * strideOf ps (sumLens ps.ranges) + maxEnd ps.ranges > B.exposed
      · simp [a5] at h
      rw [if_neg a5] at h
      by_cases a6 : c < 2
      · simp [a6] at h
      refine ⟨by simp [mkFieldDef, FieldDef.reach, hc]; omega, ?_, ?_⟩
      · intro c' s' hcs; simp [mkFieldDef, hc] at hcs; omega
      · intro c' s' r hcs hr
        simp [mkFieldDef, hc] at hcs
        have hl : ps.ranges.length = 1 := by simp [hr]
        have hsum : sumLens ps.ranges = r.len := by simp [hr, sumLens]
        by_cases hx : sumLens ps.ranges > strideOf ps (sumLens ps.ranges)
        · exact absurd ⟨hl, hx⟩ a1
        · rw [← hcs.2, ← hsum]; omega
  have hfts : (mkFieldDef name ti count ps docs).fieldTypeSize = fieldTypeSizeOf ti (sumLens ps.ranges) := rfl
  have htb : (mkFieldDef name ti count ps docs).totalBits = sumLens ps.ranges := rfl
  refine {
    nonempty := hnonempty
    len_pos := hpos
    reach_le := hreach.1
    count_ge := hreach.2.1
    count_lt := ?_
    stride_ge := fun c s r hcs hr => hreach.2.2 c s r hcs hr
    bool_one := ?_
    bool_iff := ?_
    bool_regular := ?_
    width_eq := fun hz => by rw [htb, hfts]; exact hsizeN (by rw [← hfts]; exact hz)
    total_le := by rw [htb]; exact htotal
    regular_prim := ?_
    signed_iff := ?_
    unsigned_twin := ?_
    custom_prim := ?_ }
  · intro c s hcs
    cases hc : count with
    | none => simp [mkFieldDef, hc] at hcs
    | some c' => simp [mkFieldDef, hc] at hcs; rw [← hcs.1]; exact hcount c' hc
  · intro hz
    rw [hfts] at hz
    obtain ⟨hs1, hl1⟩ := hsize0 hz
    match hr : ps.ranges, hl1 with
    | [r], _ =>
      have : r.len = 1 := by simpa [hr, sumLens] using hs1
      exact ⟨r.lo, by show ps.ranges = _; rw [hr]; cases r; simp_all⟩
  · constructor
    · intro hz; exact hboolDT (by rw [← hfts]; exact hz)
    · intro hf; show fieldTypeSizeOf ti _ = 0; simp [fieldTypeSizeOf, show ti.fromDT = some 0 from hf]
  · intro hz
    have hf := hboolDT (by rw [← hfts]; exact hz)
    refine ⟨by simp [mkFieldDef, hf, isIntSizeRegularType, BITCOUNT_BOOL], ?_, ?_⟩
    · show (if ti.isSigned = true then _ else none) = none
      cases hs : ti.isSigned with
      | false => simp
      | true =>
        obtain ⟨b, hb, hb'⟩ := hti.signed_native hs
        rw [hf] at hb; cases hb; omega
    · show ti.custom = none
      cases hcu : ti.custom with
      | none => rfl
      | some c => have := hti.custom_iff.mp (by simp [hcu]); rw [hf] at this; cases this
  · intro hreg hz
    rw [hfts] at hz
    have hsum := hsizeN hz
    show (primitiveTypeOf ti (sumLens ps.ranges)).bits = sumLens ps.ranges
    cases hf : ti.fromDT with
    | some b =>
      have hb : sumLens ps.ranges = b := by rw [hsum]; simp [fieldTypeSizeOf, hf]
      have hregb : isIntSizeRegularType b = true := by simpa [mkFieldDef, hf] using hreg
      have hb0 : b ≠ 0 := by simp [fieldTypeSizeOf, hf] at hz; exact hz
      simp only [primitiveTypeOf, hf]
      rw [bits_nativeOfScalar b ti.isSigned (regular_cases b hregb hb0), hb]
    | none =>
      have hreg' : (sumLens ps.ranges ≠ 1 && isIntSizeRegularType (sumLens ps.ranges)) = true := by simpa [mkFieldDef, hf] using hreg
      simp only [Bool.and_eq_true, decide_eq_true_eq] at hreg'
      have hn0 : sumLens ps.ranges ≠ 0 := by simp [fieldTypeSizeOf, hf] at hz; exact hz
      simp only [primitiveTypeOf, hf, primitiveByWidth_eq _ htotal, Option.getD_some]
      exact bits_unsignedOf_regular _ (regular_cases _ hreg'.2 hn0)
  · show (primitiveTypeOf ti (sumLens ps.ranges)).signed = true ↔ (if ti.isSigned = true then some _ else none).isSome = true
    cases hf : ti.fromDT with
    | some b =>
      simp only [primitiveTypeOf, hf, signed_nativeOfScalar]
      cases ti.isSigned <;> simp
    | none =>
      have hns : ti.isSigned = false := by
        cases hs : ti.isSigned with
        | false => rfl
        | true => obtain ⟨b, hb, _⟩ := hti.signed_native hs; rw [hf] at hb; cases hb
      simp [primitiveTypeOf, hf, primitiveByWidth_eq _ htotal, signed_unsignedOf, hns]
  · intro u hu
    have hu' : (if ti.isSigned = true then some (ITy.unsignedOf (ti.fromDT.getD 0)) else none) = some u := hu
    cases hs : ti.isSigned with
    | false => simp [hs] at hu'
    | true =>
      obtain ⟨b, hb, hbn⟩ := hti.signed_native hs
      simp only [hs, if_true, hb, Option.getD_some, Option.some.injEq] at hu'
      refine ⟨?_, ?_, ?_⟩
      · show u = (primitiveTypeOf ti (sumLens ps.ranges)).toUnsigned
        simp only [primitiveTypeOf, hb, nativeOfScalar, hs, if_true, toUnsigned_signedOf]
        exact hu'.symm
      · have : isIntSizeRegularType b = true := by
          rcases hbn with rfl | rfl | rfl | rfl | rfl <;> rfl
        simp [mkFieldDef, hb, this]
      · show ti.custom = none
        cases hcu : ti.custom with
        | none => rfl
        | some c => have := hti.custom_iff.mp (by simp [hcu]); rw [hb] at this; cases this
  · intro hcs _
    have hf : ti.fromDT = none := hti.custom_iff.mp hcs
    show primitiveTypeOf ti (sumLens ps.ranges) = ITy.unsignedOf (sumLens ps.ranges)
    simp [primitiveTypeOf, hf, primitiveByWidth_eq _ htotal]

/-- **C09, second sentence (premise of C01–C05, C08, C11–C14, C16): every accepted field satisfies `FieldOk`** -/
theorem parseField_ok (resolve : List String → Nat) (B : Base) (f : FieldSyn) (fd : FieldDef)
    (h : parseField resolve B.exposed f = .ok fd) : FieldOk B fd := by
  unfold parseField at h
  by_cases hcnt : countTooLarge f.count = true
  · rw [if_pos hcnt] at h; cases h
  rw [if_neg hcnt] at h
  cases hti : typeInfo resolve f.ty with
  | error r => rw [hti] at h; cases h
  | ok ti =>
    rw [hti] at h
    simp only at h
    cases hps : parseAttrs f.count.isSome f.attrs {} 0 with
    | error r => rw [hps] at h; cases h
    | ok pd =>
      obtain ⟨ps, docs⟩ := pd
      rw [hps] at h
      simp only at h
      cases hfe : firstError B.exposed ti f.count ps with
      | some r => rw [hfe] at h; cases h
      | none =>
        rw [hfe] at h
        simp only at h
        cases h
        refine fieldOk_of_firstError B f.name ti f.count ps docs (typeInfo_wf resolve f.ty ti hti) ?_ ?_ hfe
        · exact parseAttrs_pos _ _ _ _ _ _ hps (fun r hr => by cases hr)
        · intro c hc
          simp only [hc, countTooLarge, decide_eq_true_eq] at hcnt
          omega

end Bb
