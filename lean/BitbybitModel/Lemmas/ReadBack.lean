import BitbybitModel.Lemmas.Scatter
/-! # Write followed by read; writes leave uncovered positions alone -/
namespace Bb

theorem totalLen_append (a b : List Rng) : totalLen (a ++ b) = totalLen a + totalLen b := by
  induction a with
  | nil => simp [totalLen]
  | cons r a ih => simp [totalLen, ih]; omega

/-- every target bit below the total width belongs to exactly one range -/
theorem split_at_bit : ∀ (rs : List Rng) (k : Nat), k < totalLen rs →
    ∃ pre r post b, rs = pre ++ r :: post ∧ b < r.len ∧ k = totalLen pre + b := by
  intro rs
  induction rs with
  | nil => intro k h; simp [totalLen] at h
  | cons r rs ih =>
    intro k h
    by_cases hk : k < r.len
    · exact ⟨[], r, rs, k, rfl, hk, by simp [totalLen]⟩
    · simp only [totalLen] at h
      obtain ⟨pre, q, post, b, h1, h2, h3⟩ := ih (k - r.len) (by omega)
      exact ⟨r :: pre, q, post, b, by simp [h1], h2, by simp [totalLen]; omega⟩

theorem pairwiseDisjoint_append_right {a b : List Rng} (h : pairwiseDisjoint (a ++ b) = true) : pairwiseDisjoint b = true := by
  induction a with
  | nil => simpa using h
  | cons r a ih =>
    simp only [List.cons_append, pairwiseDisjoint, Bool.and_eq_true] at h
    exact ih h.2

/-- in a pairwise disjoint list, the ranges before `r` do not cover `r`'s positions -/
theorem not_covered_by_prefix {pre : List Rng} {r : Rng} {post : List Rng} (h : pairwiseDisjoint (pre ++ r :: post) = true)
    (off b : Nat) (hb : b < r.len) : ∀ q ∈ pre, q.covers off (r.lo + off + b) = false := by
  induction pre with
  | nil => intro q hq; cases hq
  | cons a pre ih =>
    intro q hq
    simp only [List.cons_append, pairwiseDisjoint, Bool.and_eq_true, List.all_eq_true] at h
    rcases List.mem_cons.mp hq with rfl | hq'
    · have := h.1 r (by simp)
      simp only [Rng.disj, Bool.or_eq_true, decide_eq_true_eq] at this
      simp only [Rng.covers, Bool.and_eq_false_iff, decide_eq_false_iff_not]
      omega
    · exact ih h.2 q hq'

/-- the bit a write supplies for position `lo_j + off + b` is bit `t_j + b` of the value -/
theorem written_at (v off : Nat) : ∀ (pre : List Rng) (r : Rng) (post : List Rng) (t b : Nat),
    pairwiseDisjoint (pre ++ r :: post) = true → b < r.len →
    written v off (pre ++ r :: post) t (r.lo + off + b) = some (v.testBit (t + totalLen pre + b)) := by
  intro pre
  induction pre with
  | nil =>
    intro r post t b _ hb
    have hc : r.covers off (r.lo + off + b) = true := by simp [Rng.covers]; omega
    simp [written, hc, totalLen]
  | cons a pre ih =>
    intro r post t b h hb
    have hna := not_covered_by_prefix h off b hb a (by simp)
    simp only [List.cons_append, pairwiseDisjoint, Bool.and_eq_true] at h
    have := ih r post (t + a.len) b h.2 hb
    simp only [List.cons_append, written, hna, Bool.false_eq_true, if_false, this, totalLen]
    congr 2; omega

/-- **write then read is the identity** (pairwise disjoint ranges inside the register) -/
theorem gather_writeSpec (W raw v off : Nat) (rs : List Rng)
    (hfit : ∀ r ∈ rs, r.lo + r.len + off ≤ W) (hd : pairwiseDisjoint rs = true) (hv : v < 2 ^ totalLen rs) :
    gather (writeSpec W raw v off rs) off rs 0 = v := by
  apply Nat.eq_of_testBit_eq
  intro k
  by_cases hk : k < totalLen rs
  · obtain ⟨pre, r, post, b, h1, h2, h3⟩ := split_at_bit rs k hk
    subst h1; subst h3
    rw [gather_bit _ off pre r post b h2, testBit_writeSpec, written_at v off pre r post 0 b hd h2]
    have := hfit r (by simp)
    have : r.lo + off + b < W := by omega
    simp [this]
  · have h1 : (gather (writeSpec W raw v off rs) off rs 0).testBit k = false :=
      testBit_eq_false_of_lt (by simpa using gather_lt _ off rs 0) (by omega)
    rw [h1, testBit_eq_false_of_lt hv (by omega)]

/-- a write leaves every position outside the field's ranges unchanged -/
theorem writeSpec_outside (W raw v off : Nat) (rs : List Rng) (p : Nat) (hraw : raw < 2 ^ W)
    (hp : rs.any (·.covers off p) = false) : (writeSpec W raw v off rs).testBit p = raw.testBit p := by
  rw [testBit_writeSpec, written_none_of_not_covered v off rs 0 p hp]
  by_cases h : p < W
  · simp [h]
  · simp [h, testBit_eq_false_of_lt hraw (by omega : W ≤ p)]

/-- a position inside the field takes the value's bit -/
theorem writeSpec_inside (W raw v off : Nat) (pre : List Rng) (r : Rng) (post : List Rng) (b : Nat)
    (hfit : r.lo + r.len + off ≤ W) (hd : pairwiseDisjoint (pre ++ r :: post) = true) (hb : b < r.len) :
    (writeSpec W raw v off (pre ++ r :: post)).testBit (r.lo + off + b) = v.testBit (totalLen pre + b) := by
  rw [testBit_writeSpec, written_at v off pre r post 0 b hd hb]
  have : r.lo + off + b < W := by omega
  simp [this]

/-- reading depends only on the positions of the field's own ranges -/
theorem gather_congr (x y off : Nat) : ∀ (rs : List Rng) (t : Nat),
    (∀ p, rs.any (·.covers off p) = true → x.testBit p = y.testBit p) → gather x off rs t = gather y off rs t := by
  intro rs
  induction rs with
  | nil => intro t _; rfl
  | cons r rs ih =>
    intro t h
    simp only [gather]
    have hf : field x (r.lo + off) r.len = field y (r.lo + off) r.len := by
      apply Nat.eq_of_testBit_eq
      intro k
      rw [testBit_field, testBit_field]
      by_cases hk : k < r.len
      · have := h (r.lo + off + k) (by simp [Rng.covers]; left; omega)
        simp [hk, this]
      · simp [hk]
    rw [hf, ih (t + r.len) (fun p hp => h p (by simp [hp]))]

/-- a write to one field (or element) does not change what another reads, when their positions are disjoint -/
theorem gather_writeSpec_other (W raw v off off' : Nat) (rs rs' : List Rng) (hraw : raw < 2 ^ W)
    (hdis : ∀ p, rs'.any (·.covers off' p) = true → rs.any (·.covers off p) = false) :
    gather (writeSpec W raw v off rs) off' rs' 0 = gather raw off' rs' 0 :=
  gather_congr _ _ off' rs' 0 (fun p hp => writeSpec_outside W raw v off rs p hraw (hdis p hp))

end Bb
