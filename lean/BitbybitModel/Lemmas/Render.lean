import BitbybitModel.Macro.Parse
/-!
# Well-formed `bit` / `bits` attributes and their token rendering

`AttrSpec` is the abstract syntax of a well-formed attribute (what the documentation describes);
`AttrSpec.render` produces the tokens the macro receives. `parse_render` (below) shows that the `ArgumentParser`
state machine reads such tokens back to exactly the content of the attribute, or rejects them for exactly the two
reasons a well-formed attribute can still be wrong at this level (a reversed range, a stride on a non-array field).
-/
namespace Bb

inductive Access where
  | r | w | rw | none
  deriving Repr, DecidableEq, Inhabited

/-- one range as written: `lo..=hi`, or – `short` – the single number `lo` -/
structure RangeSpec where
  lo : Nat
  hi : Nat
  short : Bool
  deriving Repr, DecidableEq, Inhabited

structure AttrSpec where
  ranges : List RangeSpec
  /-- written as `[r, r, …]` -/
  asList : Bool
  access : Access
  stride : Option Nat
  deriving Repr, DecidableEq, Inhabited

def RangeSpec.toks (r : RangeSpec) : List Tok :=
  if r.short then [.lit (some r.lo)] else [.lit (some r.lo), .punct '.', .punct '.', .punct '=', .lit (some r.hi)]

/-- the range the macro records for it (`start..end` with `end = upper + 1`) -/
def RangeSpec.rng (r : RangeSpec) : Rng := if r.short then ⟨r.lo, 1⟩ else ⟨r.lo, r.hi + 1 - r.lo⟩

def commaSep : List (List Tok) → List Tok
  | [] => []
  | [x] => x
  | x :: y :: xs => x ++ [.punct ','] ++ commaSep (y :: xs)

def accessToks : Access → List Tok
  | .r => [.punct ',', .ident "r"]
  | .w => [.punct ',', .ident "w"]
  | .rw => [.punct ',', .ident "rw"]
  | .none => []

def strideToks : Option Nat → List Tok
  | none => []
  | some s => [.punct ',', .ident "stride", .punct '=', .lit (some s)]

/-- `bit(n, …)` for a single number outside a list, `bits(…)` otherwise -/
def AttrSpec.isRange (a : AttrSpec) : Bool :=
  a.asList || (match a.ranges with | [r] => !r.short | _ => true)

def AttrSpec.bodyToks (a : AttrSpec) : List Tok :=
  if a.asList then [.group '[' (commaSep (a.ranges.map RangeSpec.toks))]
  else match a.ranges with
    | [r] => r.toks
    | _ => []

def AttrSpec.render (a : AttrSpec) : Attr :=
  { name := if a.isRange then "bits" else "bit", isList := true, delim := '(',
    toks := a.bodyToks ++ accessToks a.access ++ strideToks a.stride }

/-- syntactic well-formedness: at least one range, a bare range only when there is exactly one, every literal a
    `usize` (so that `upper + 1` does not overflow either), a single number really is one bit -/
structure AttrSpec.WF (a : AttrSpec) : Prop where
  nonempty : a.ranges ≠ []
  single : a.asList = false → ∃ r, a.ranges = [r]
  lits : ∀ r ∈ a.ranges, r.lo + 1 < 2 ^ 64 ∧ r.hi + 1 < 2 ^ 64
  short_eq : ∀ r ∈ a.ranges, r.short = true → r.hi = r.lo

def Access.getter : Access → Bool | .r | .rw => true | _ => false
def Access.setter : Access → Bool | .w | .rw => true | _ => false

/-! ## running the state machine over the pieces -/

/-- the parser state after the tokens of a range -/
def RangeSpec.finalState (r : RangeSpec) : AP :=
  if r.short then .rangeGotLowerLimit r.lo else .rangeGotBothLimits r.lo r.hi

/-- top level: the tokens of a range take `Reset` to the range's final state (whatever follows) -/
theorem top_range (isRange hasCount : Bool) (r : RangeSpec) (rest : List Tok) (tok : Nat) (ps : PState) :
    parseTopTokens isRange hasCount (r.toks ++ rest) tok .reset ps
      = parseTopTokens isRange hasCount rest (tok + r.toks.length) r.finalState ps := by
  unfold RangeSpec.toks RangeSpec.finalState
  cases r.short
  · simp [parseTopTokens, AP.takeLiteral, AP.takePunct, bind, Except.bind, Nat.add_assoc]
  · simp [parseTopTokens, AP.takeLiteral, bind, Except.bind]

/-- inside `[…]`: the tokens of one element, then its end -/
theorem elem_range (isRange hasCount : Bool) (outer : Nat) (r : RangeSpec) (ps : PState) :
    parseElemTokens isRange hasCount outer r.toks .resetOnlyRangeAllowed ps
      = finishedArgument isRange hasCount ps r.finalState true outer := by
  unfold RangeSpec.toks RangeSpec.finalState
  cases r.short
  · simp [parseElemTokens, AP.takeLiteral, AP.takePunct, bind, Except.bind]
  · simp [parseElemTokens, AP.takeLiteral, bind, Except.bind]

def Access.state : Access → AP
  | .r => .read | .w => .write | .rw => .readWrite | .none => .reset

/-- recording one range (outside a list: the first and only one; inside a list: any number under one token id) -/
theorem finish_range (isRange hasCount : Bool) (ps : PState) (r : RangeSpec) (inArr : Bool) (tok : Nat)
    (hlit : r.lo + 1 < 2 ^ 64 ∧ r.hi + 1 < 2 ^ 64) (hord : r.short = false → r.lo ≤ r.hi)
    (hname : inArr = false → isRange = !r.short)
    (hfirst : if inArr then (ps.rangesToken = none ∨ ps.rangesToken = some tok) else ps.ranges = []) :
    finishedArgument isRange hasCount ps r.finalState inArr tok
      = .ok { ps with ranges := ps.ranges ++ [r.rng], rangesToken := some tok } := by
  unfold finishedArgument RangeSpec.finalState RangeSpec.rng
  cases hsh : r.short
  · -- lo..=hi
    have hle := hord hsh
    have h1 : ¬ r.lo > r.hi := by omega
    have h2 : ¬ r.hi + 1 ≥ 2 ^ 64 := by omega
    cases inArr
    · have hn := hname rfl; simp [hsh] at hn
      simp only [Bool.false_eq_true, if_false] at hfirst
      simp [bind, Except.bind, hfirst, h1, h2, hn]
    · simp only [if_true] at hfirst
      rcases hfirst with h | h <;> simp [bind, Except.bind, h, h1, h2]
  · -- single number
    have h2 : ¬ r.lo + 1 ≥ 2 ^ 64 := by omega
    cases inArr
    · have hn := hname rfl; simp [hsh] at hn
      simp only [Bool.false_eq_true, if_false] at hfirst
      simp [bind, Except.bind, hfirst, h2, hn]
    · simp only [if_true] at hfirst
      rcases hfirst with h | h <;> simp [bind, Except.bind, h, h2]

/-- a reversed range is rejected -/
theorem finish_range_reversed (isRange hasCount : Bool) (ps : PState) (r : RangeSpec) (inArr : Bool) (tok : Nat)
    (hsh : r.short = false) (hrev : r.lo > r.hi) :
    ∃ e, finishedArgument isRange hasCount ps r.finalState inArr tok = .error e := by
  unfold finishedArgument RangeSpec.finalState
  simp only [hsh, Bool.false_eq_true, if_false, bind, Except.bind]
  split
  · exact ⟨_, rfl⟩
  · simp [hrev]

end Bb

namespace Bb

theorem splitCommas_append (x : List Tok) (hx : ∀ t ∈ x, t.isComma = false) : ∀ (rest cur : List Tok),
    splitCommas (x ++ rest) cur = splitCommas rest (x.reverse ++ cur) := by
  induction x with
  | nil => intro rest cur; rfl
  | cons t x ih =>
    intro rest cur
    have ht := hx t (by simp)
    have hx' : ∀ u ∈ x, u.isComma = false := fun u hu => hx u (by simp [hu])
    simp only [List.cons_append, splitCommas, ht, Bool.false_eq_true, if_false]
    rw [ih hx']; simp

theorem toks_no_comma (r : RangeSpec) : ∀ t ∈ r.toks, t.isComma = false := by
  intro t ht
  cases hs : r.short
  · simp only [RangeSpec.toks, hs, Bool.false_eq_true, if_false, List.mem_cons, List.mem_nil_iff, or_false] at ht
    rcases ht with rfl | rfl | rfl | rfl | rfl <;> first | rfl | decide
  · simp only [RangeSpec.toks, hs, if_true, List.mem_cons, List.mem_nil_iff, or_false] at ht
    subst ht; rfl

theorem toks_ne_nil (r : RangeSpec) : r.toks ≠ [] := by
  unfold RangeSpec.toks; cases r.short <;> simp

/-- splitting the rendered list at its commas gives back the elements -/
theorem splitCommas_commaSep : ∀ (rs : List RangeSpec), splitCommas (commaSep (rs.map RangeSpec.toks)) [] = rs.map RangeSpec.toks := by
  intro rs
  induction rs with
  | nil => rfl
  | cons r rs ih =>
    cases rs with
    | nil =>
      simp only [List.map, commaSep]
      have := splitCommas_append r.toks (toks_no_comma r) [] []
      simp only [List.append_nil] at this
      rw [this]
      simp [splitCommas, toks_ne_nil r]
    | cons r2 rs2 =>
      simp only [List.map, commaSep] at ih ⊢
      rw [List.append_assoc, splitCommas_append r.toks (toks_no_comma r)]
      simp only [List.cons_append, List.nil_append, List.append_nil, splitCommas, Tok.isComma, beq_self_eq_true, if_true,
        List.reverse_reverse]
      rw [ih]

/-- all elements of a list: each records its range under the list's token id -/
theorem parseElems_ranges (isRange hasCount : Bool) (outer : Nat) : ∀ (rs : List RangeSpec) (ps : PState),
    (∀ r ∈ rs, r.lo + 1 < 2 ^ 64 ∧ r.hi + 1 < 2 ^ 64) → (∀ r ∈ rs, r.short = false → r.lo ≤ r.hi) →
    (ps.rangesToken = none ∨ ps.rangesToken = some outer) →
    ∃ ps', parseElems isRange hasCount outer (rs.map RangeSpec.toks) ps = .ok ps' ∧
      ps'.ranges = ps.ranges ++ rs.map RangeSpec.rng ∧ ps'.provideGetter = ps.provideGetter ∧
      ps'.provideSetter = ps.provideSetter ∧ ps'.indexedStride = ps.indexedStride ∧
      (ps'.rangesToken = none ∨ ps'.rangesToken = some outer) := by
  intro rs
  induction rs with
  | nil => intro ps _ _ ht; exact ⟨ps, rfl, by simp, rfl, rfl, rfl, ht⟩
  | cons r rs ih =>
    intro ps hl ho ht
    have h1 := finish_range isRange hasCount ps r true outer (hl r (by simp)) (ho r (by simp)) (by simp) (by simpa using ht)
    obtain ⟨ps', hp, hr, hg, hs, hst, htk⟩ := ih { ps with ranges := ps.ranges ++ [r.rng], rangesToken := some outer }
      (fun q hq => hl q (by simp [hq])) (fun q hq => ho q (by simp [hq])) (Or.inr rfl)
    refine ⟨ps', ?_, ?_, hg, hs, hst, htk⟩
    · simp only [List.map, parseElems, elem_range, h1, bind, Except.bind]
      exact hp
    · rw [hr]; simp

/-- an element with a reversed range makes the whole list fail -/
theorem parseElems_reversed (isRange hasCount : Bool) (outer : Nat) : ∀ (rs : List RangeSpec) (ps : PState),
    (∃ r ∈ rs, r.short = false ∧ r.lo > r.hi) →
    ∃ e, parseElems isRange hasCount outer (rs.map RangeSpec.toks) ps = .error e := by
  intro rs
  induction rs with
  | nil => intro ps h; obtain ⟨r, hr, _⟩ := h; cases hr
  | cons q rs ih =>
    intro ps h
    simp only [List.map, parseElems, elem_range, bind, Except.bind]
    cases hq : finishedArgument isRange hasCount ps q.finalState true outer with
    | error e => exact ⟨e, rfl⟩
    | ok ps1 =>
      obtain ⟨r, hr, hsh, hrev⟩ := h
      rcases List.mem_cons.mp hr with rfl | hr'
      · obtain ⟨e, he⟩ := finish_range_reversed isRange hasCount ps r true outer hsh hrev
        rw [he] at hq; cases hq
      · exact ih ps1 ⟨r, hr', hsh, hrev⟩

theorem fin_read (isRange hasCount : Bool) (ps : PState) (inArr : Bool) (tok : Nat) :
    finishedArgument isRange hasCount ps .read inArr tok = .ok { ps with provideGetter := true } := by
  simp [finishedArgument, bind, Except.bind]
theorem fin_write (isRange hasCount : Bool) (ps : PState) (inArr : Bool) (tok : Nat) :
    finishedArgument isRange hasCount ps .write inArr tok = .ok { ps with provideSetter := true } := by
  simp [finishedArgument, bind, Except.bind]
theorem fin_readWrite (isRange hasCount : Bool) (ps : PState) (inArr : Bool) (tok : Nat) :
    finishedArgument isRange hasCount ps .readWrite inArr tok = .ok { ps with provideGetter := true, provideSetter := true } := by
  simp [finishedArgument, bind, Except.bind]
theorem fin_reset (isRange hasCount : Bool) (ps : PState) (inArr : Bool) (tok : Nat) :
    finishedArgument isRange hasCount ps .reset inArr tok = .ok ps := by
  simp [finishedArgument, bind, Except.bind]
theorem fin_stride (isRange hasCount : Bool) (ps : PState) (s : Nat) (inArr : Bool) (tok : Nat) :
    finishedArgument isRange hasCount ps (.strideComplete s) inArr tok
      = if hasCount = false then .error (.error "stride is only supported for indexed properties")
        else .ok { ps with indexedStride := some s } := by
  cases hasCount <;> simp [finishedArgument, bind, Except.bind]

/-- the arguments after the range(s): an optional access specifier, an optional stride. `st` is the state of the
    argument still pending when the tail begins (the range outside a list, `Reset` after a list). -/
theorem tail_ok (isRange hasCount : Bool) (acc : Access) (stride : Option Nat) (tok : Nat) (st : AP) (ps ps1 : PState)
    (hfin : finishedArgument isRange hasCount ps st false tok = .ok ps1)
    (hs : stride.isSome = true → hasCount = true) :
    ∃ ps2, parseTopTokens isRange hasCount (accessToks acc ++ strideToks stride) tok st ps = .ok ps2 ∧
      ps2.ranges = ps1.ranges ∧ ps2.provideGetter = (ps1.provideGetter || acc.getter) ∧
      ps2.provideSetter = (ps1.provideSetter || acc.setter) ∧
      ps2.indexedStride = stride.or ps1.indexedStride := by
  cases acc <;> cases stride <;>
    simp [accessToks, strideToks, parseTopTokens, hfin, bind, Except.bind, AP.takeIdent, AP.takePunct, AP.takeLiteral,
      fin_read, fin_write, fin_readWrite, fin_reset, fin_stride, Access.getter, Access.setter] <;>
    (try (have := hs rfl; simp [this]))

/-- a stride on a non-array field is rejected -/
theorem tail_stride_scalar (isRange : Bool) (acc : Access) (s : Nat) (tok : Nat) (st : AP) (ps ps1 : PState)
    (hfin : finishedArgument isRange false ps st false tok = .ok ps1) :
    ∃ e, parseTopTokens isRange false (accessToks acc ++ strideToks (some s)) tok st ps = .error e := by
  cases acc <;>
    simp [accessToks, strideToks, parseTopTokens, hfin, bind, Except.bind, AP.takeIdent, AP.takePunct, AP.takeLiteral,
      fin_read, fin_write, fin_readWrite, fin_reset, fin_stride]

end Bb

namespace Bb

/-- the content of a well-formed attribute as `parse_field` sees it -/
def AttrSpec.Content (a : AttrSpec) (ps : PState) : Prop :=
  ps.ranges = a.ranges.map RangeSpec.rng ∧ ps.provideGetter = a.access.getter ∧
  ps.provideSetter = a.access.setter ∧ ps.indexedStride = a.stride

theorem render_name (a : AttrSpec) : (decide (a.render.name = "bits")) = a.isRange := by
  unfold AttrSpec.render
  cases a.isRange <;> simp <;> decide

/-- **tokens → content.** The `ArgumentParser` reads the rendering of a well-formed attribute back to exactly its
    content, provided no range is reversed and a stride is only given for an array field. -/
theorem parse_render_ok (hasCount : Bool) (a : AttrSpec) (hwf : a.WF)
    (hord : ∀ r ∈ a.ranges, r.short = false → r.lo ≤ r.hi) (hs : a.stride.isSome = true → hasCount = true) :
    ∃ ps, parseTopTokens a.isRange hasCount a.render.toks 0 .reset {} = .ok ps ∧ a.Content ps := by
  unfold AttrSpec.Content
  cases hl : a.asList with
  | true =>
    have hbody : a.render.toks = Tok.group '[' (commaSep (a.ranges.map RangeSpec.toks)) :: (accessToks a.access ++ strideToks a.stride) := by
      simp [AttrSpec.render, AttrSpec.bodyToks, hl]
    rw [hbody]
    simp only [parseTopTokens, ne_eq, not_true_eq_false, if_false, splitCommas_commaSep, bind, Except.bind]
    obtain ⟨ps', hp, hr, hg, hst, hsd, _⟩ := parseElems_ranges a.isRange hasCount 0 a.ranges {} hwf.lits hord (Or.inl rfl)
    rw [hp]
    simp only
    obtain ⟨ps2, h2, h2r, h2g, h2s, h2d⟩ := tail_ok a.isRange hasCount a.access a.stride 1 .reset ps' ps'
      (fin_reset _ _ _ _ _) hs
    refine ⟨ps2, h2, by rw [h2r, hr]; simp, by rw [h2g, hg]; simp, by rw [h2s, hst]; simp, ?_⟩
    rw [h2d, hsd]; cases a.stride <;> rfl
  | false =>
    obtain ⟨r, hr⟩ := hwf.single hl
    have hbody : a.render.toks = r.toks ++ (accessToks a.access ++ strideToks a.stride) := by
      simp [AttrSpec.render, AttrSpec.bodyToks, hl, hr]
    have hisr : a.isRange = !r.short := by simp [AttrSpec.isRange, hl, hr]
    rw [hbody, top_range]
    have hfin := finish_range a.isRange hasCount {} r false (0 + r.toks.length)
      (hwf.lits r (by simp [hr])) (hord r (by simp [hr])) (fun _ => hisr) (by simp)
    obtain ⟨ps2, h2, h2r, h2g, h2s, h2d⟩ := tail_ok a.isRange hasCount a.access a.stride (0 + r.toks.length) r.finalState {} _ hfin hs
    refine ⟨ps2, h2, by rw [h2r, hr]; simp, by rw [h2g]; simp, by rw [h2s]; simp, ?_⟩
    rw [h2d]; cases a.stride <;> rfl

/-- when the pending argument is in error, so is the whole argument list -/
theorem pending_error (isRange hasCount : Bool) (acc : Access) (stride : Option Nat) (tok : Nat) (st : AP) (ps : PState) (e : Reject)
    (he : finishedArgument isRange hasCount ps st false tok = .error e) :
    ∃ e', parseTopTokens isRange hasCount (accessToks acc ++ strideToks stride) tok st ps = .error e' := by
  cases acc <;> cases stride <;>
    simp [accessToks, strideToks, parseTopTokens, he, bind, Except.bind]

/-- a reversed range anywhere in the attribute makes the macro reject it -/
theorem parse_render_reversed (hasCount : Bool) (a : AttrSpec) (hwf : a.WF)
    (hrev : ∃ r ∈ a.ranges, r.short = false ∧ r.lo > r.hi) :
    ∃ e, parseTopTokens a.isRange hasCount a.render.toks 0 .reset {} = .error e := by
  cases hl : a.asList with
  | true =>
    have hbody : a.render.toks = Tok.group '[' (commaSep (a.ranges.map RangeSpec.toks)) :: (accessToks a.access ++ strideToks a.stride) := by
      simp [AttrSpec.render, AttrSpec.bodyToks, hl]
    rw [hbody]
    simp only [parseTopTokens, ne_eq, not_true_eq_false, if_false, splitCommas_commaSep, bind, Except.bind]
    obtain ⟨e, he⟩ := parseElems_reversed a.isRange hasCount 0 a.ranges {} hrev
    exact ⟨e, by rw [he]⟩
  | false =>
    obtain ⟨r, hr⟩ := hwf.single hl
    have hbody : a.render.toks = r.toks ++ (accessToks a.access ++ strideToks a.stride) := by
      simp [AttrSpec.render, AttrSpec.bodyToks, hl, hr]
    obtain ⟨q, hq, hsh, hgt⟩ := hrev
    have hqr : q = r := by rw [hr] at hq; simpa using hq
    subst hqr
    rw [hbody, top_range]
    obtain ⟨e, he⟩ := finish_range_reversed a.isRange hasCount {} q false (0 + q.toks.length) hsh hgt
    -- the pending range is finished either by the next comma or by the end of the arguments: both fail
    exact pending_error a.isRange hasCount a.access a.stride _ _ _ e he

/-- a stride on a non-array field makes the macro reject the attribute -/
theorem parse_render_stride_scalar (a : AttrSpec) (hwf : a.WF) (hord : ∀ r ∈ a.ranges, r.short = false → r.lo ≤ r.hi)
    (s : Nat) (hs : a.stride = some s) :
    ∃ e, parseTopTokens a.isRange false a.render.toks 0 .reset {} = .error e := by
  cases hl : a.asList with
  | true =>
    have hbody : a.render.toks = Tok.group '[' (commaSep (a.ranges.map RangeSpec.toks)) :: (accessToks a.access ++ strideToks a.stride) := by
      simp [AttrSpec.render, AttrSpec.bodyToks, hl]
    rw [hbody]
    simp only [parseTopTokens, ne_eq, not_true_eq_false, if_false, splitCommas_commaSep, bind, Except.bind]
    obtain ⟨ps', hp, _⟩ := parseElems_ranges a.isRange false 0 a.ranges {} hwf.lits hord (Or.inl rfl)
    rw [hp, hs]
    exact tail_stride_scalar a.isRange a.access s 1 .reset ps' ps' (fin_reset _ _ _ _ _)
  | false =>
    obtain ⟨r, hr⟩ := hwf.single hl
    have hbody : a.render.toks = r.toks ++ (accessToks a.access ++ strideToks a.stride) := by
      simp [AttrSpec.render, AttrSpec.bodyToks, hl, hr]
    have hisr : a.isRange = !r.short := by simp [AttrSpec.isRange, hl, hr]
    rw [hbody, top_range, hs]
    have hfin := finish_range a.isRange false {} r false (0 + r.toks.length)
      (hwf.lits r (by simp [hr])) (hord r (by simp [hr])) (fun _ => hisr) (by simp)
    exact tail_stride_scalar a.isRange a.access s _ r.finalState {} _ hfin

end Bb
