import BitbybitModel.Lemmas.Render
/-! # The arguments of `bit(…)` / `bits(…)` in any order -/
namespace Bb
set_option linter.unusedSimpArgs false

/-- `parseElems` on well-formed elements, as an equation -/
theorem parseElems_eq (isRange hasCount : Bool) (outer : Nat) : ∀ (rs : List RangeSpec) (ps : PState),
    (∀ r ∈ rs, r.lo + 1 < 2 ^ 64 ∧ r.hi + 1 < 2 ^ 64) → (∀ r ∈ rs, r.short = false → r.lo ≤ r.hi) → rs ≠ [] →
    (ps.rangesToken = none ∨ ps.rangesToken = some outer) →
    parseElems isRange hasCount outer (rs.map RangeSpec.toks) ps
      = .ok { ps with ranges := ps.ranges ++ rs.map RangeSpec.rng, rangesToken := some outer } := by
  intro rs
  induction rs with
  | nil => intro ps _ _ h; exact absurd rfl h
  | cons r rs ih =>
    intro ps hl ho _ ht
    have h1 := finish_range isRange hasCount ps r true outer (hl r (by simp)) (ho r (by simp)) (by simp) (by simpa using ht)
    simp only [List.map, parseElems, elem_range, h1, bind, Except.bind]
    cases rs with
    | nil => simp [parseElems]
    | cons q qs =>
      rw [ih _ (fun x hx => hl x (by simp [hx])) (fun x hx => ho x (by simp [hx])) (by simp) (Or.inr rfl)]
      simp

/-- the order in which the range(s), the access specifier and the stride are written -/
inductive ArgOrder where
  | ras | rsa | ars | asr | sra | sar
  deriving Repr, DecidableEq

def accessPiece : Access → Option (List Tok)
  | .r => some [.ident "r"]
  | .w => some [.ident "w"]
  | .rw => some [.ident "rw"]
  | .none => none

def stridePiece : Option Nat → Option (List Tok)
  | some s => some [.ident "stride", .punct '=', .lit (some s)]
  | none => none

/-- comma-separated concatenation of the pieces that are present -/
def joinPieces (ps : List (Option (List Tok))) : List Tok := commaSep (ps.filterMap id)

def AttrSpec.toksIn (a : AttrSpec) : ArgOrder → List Tok
  | .ras => joinPieces [some a.bodyToks, accessPiece a.access, stridePiece a.stride]
  | .rsa => joinPieces [some a.bodyToks, stridePiece a.stride, accessPiece a.access]
  | .ars => joinPieces [accessPiece a.access, some a.bodyToks, stridePiece a.stride]
  | .asr => joinPieces [accessPiece a.access, stridePiece a.stride, some a.bodyToks]
  | .sra => joinPieces [stridePiece a.stride, some a.bodyToks, accessPiece a.access]
  | .sar => joinPieces [stridePiece a.stride, accessPiece a.access, some a.bodyToks]

theorem toksIn_ras (a : AttrSpec) (h : a.bodyToks ≠ []) : a.toksIn .ras = a.render.toks := by
  cases hb : a.bodyToks with
  | nil => exact absurd hb h
  | cons t ts =>
    cases ha : a.access <;> cases hs : a.stride <;>
      simp [AttrSpec.toksIn, AttrSpec.render, joinPieces, commaSep, accessPiece, stridePiece, accessToks, strideToks, hb, ha, hs]

end Bb

namespace Bb

/-- recording the single range outside a list, as a rewriting rule on any parser state that has no range yet -/
theorem finish_range_top (isRange hasCount : Bool) (ps : PState) (r : RangeSpec) (tok : Nat)
    (hlit : r.lo + 1 < 2 ^ 64 ∧ r.hi + 1 < 2 ^ 64) (hord : r.short = false → r.lo ≤ r.hi)
    (hname : isRange = !r.short) (hfirst : ps.ranges = []) :
    finishedArgument isRange hasCount ps r.finalState false tok
      = .ok { ps with ranges := [r.rng], rangesToken := some tok } := by
  rw [finish_range isRange hasCount ps r false tok hlit hord (fun _ => hname) (by simpa using hfirst), hfirst]
  rfl

/-- **the arguments may be written in any order**: every permutation of range(s), access specifier and stride is read
    back to the same content -/
theorem parse_any_order (hasCount : Bool) (a : AttrSpec) (hwf : a.WF)
    (hord : ∀ r ∈ a.ranges, r.short = false → r.lo ≤ r.hi) (hs : a.stride.isSome = true → hasCount = true) (o : ArgOrder) :
    ∃ ps, parseTopTokens a.isRange hasCount (a.toksIn o) 0 .reset {} = .ok ps ∧ a.Content ps := by
  unfold AttrSpec.Content
  cases hl : a.asList with
  | true =>
    have hb : a.bodyToks = [Tok.group '[' (commaSep (a.ranges.map RangeSpec.toks))] := by simp [AttrSpec.bodyToks, hl]
    have hpe : ∀ (outer : Nat) (ps : PState), ps.rangesToken = none →
        parseElems a.isRange hasCount outer (a.ranges.map RangeSpec.toks) ps
          = .ok { ps with ranges := ps.ranges ++ a.ranges.map RangeSpec.rng, rangesToken := some outer } :=
      fun outer ps h => parseElems_eq a.isRange hasCount outer a.ranges ps hwf.lits hord hwf.nonempty (Or.inl h)
    cases hst : a.stride with
    | none =>
      cases o <;> cases ha : a.access <;>
        simp [AttrSpec.toksIn, joinPieces, commaSep, accessPiece, stridePiece, hb, ha, hst, parseTopTokens, splitCommas_commaSep, hpe,
          bind, Except.bind, AP.takeIdent, AP.takePunct, AP.takeLiteral, fin_read, fin_write, fin_readWrite, fin_reset, fin_stride,
          Access.getter, Access.setter]
    | some s =>
      have hc := hs (by simp [hst])
      subst hc
      cases o <;> cases ha : a.access <;>
        simp [AttrSpec.toksIn, joinPieces, commaSep, accessPiece, stridePiece, hb, ha, hst, parseTopTokens, splitCommas_commaSep, hpe,
          bind, Except.bind, AP.takeIdent, AP.takePunct, AP.takeLiteral, fin_read, fin_write, fin_readWrite, fin_reset, fin_stride,
          Access.getter, Access.setter]
  | false =>
    obtain ⟨r, hr⟩ := hwf.single hl
    have hb : a.bodyToks = r.toks := by simp [AttrSpec.bodyToks, hl, hr]
    have hisr : a.isRange = !r.short := by simp [AttrSpec.isRange, hl, hr]
    have hlit := hwf.lits r (by simp [hr])
    have hor := hord r (by simp [hr])
    have hfr : ∀ (tok : Nat) (ps : PState), ps.ranges = [] →
        finishedArgument a.isRange hasCount ps r.finalState false tok = .ok { ps with ranges := [r.rng], rangesToken := some tok } :=
      fun tok ps h => finish_range_top a.isRange hasCount ps r tok hlit hor hisr h
    have htr : ∀ (rest : List Tok) (tok : Nat) (ps : PState),
        parseTopTokens a.isRange hasCount (r.toks ++ rest) tok .reset ps
          = parseTopTokens a.isRange hasCount rest (tok + r.toks.length) r.finalState ps :=
      fun rest tok ps => top_range a.isRange hasCount r rest tok ps
    have htr0 : ∀ (tok : Nat) (ps : PState),
        parseTopTokens a.isRange hasCount r.toks tok .reset ps
          = parseTopTokens a.isRange hasCount [] (tok + r.toks.length) r.finalState ps := by
      intro tok ps; have := htr [] tok ps; simpa using this
    cases hst : a.stride with
    | none =>
      cases o <;> cases ha : a.access <;>
        simp [AttrSpec.toksIn, joinPieces, commaSep, accessPiece, stridePiece, hb, ha, hst, hr, parseTopTokens, htr, htr0, hfr,
          bind, Except.bind, AP.takeIdent, AP.takePunct, AP.takeLiteral, fin_read, fin_write, fin_readWrite, fin_reset, fin_stride,
          Access.getter, Access.setter]
    | some s =>
      have hc := hs (by simp [hst])
      subst hc
      cases o <;> cases ha : a.access <;>
        simp [AttrSpec.toksIn, joinPieces, commaSep, accessPiece, stridePiece, hb, ha, hst, hr, parseTopTokens, htr, htr0, hfr,
          bind, Except.bind, AP.takeIdent, AP.takePunct, AP.takeLiteral, fin_read, fin_write, fin_readWrite, fin_reset, fin_stride,
          Access.getter, Access.setter]

end Bb

namespace Bb
set_option linter.unusedSimpArgs false

def errReversed : Reject := .error "Invalid bit-range: lower limit larger than upper limit"

theorem finish_reversed_eq (isRange hasCount : Bool) (ps : PState) (r : RangeSpec) (inArr : Bool) (tok : Nat)
    (hsh : r.short = false) (hrev : r.lo > r.hi)
    (hfirst : if inArr then (ps.rangesToken = none ∨ ps.rangesToken = some tok) else ps.ranges = []) :
    finishedArgument isRange hasCount ps r.finalState inArr tok = .error errReversed := by
  unfold finishedArgument RangeSpec.finalState errReversed
  cases inArr
  · simp only [Bool.false_eq_true, if_false] at hfirst
    simp [hsh, bind, Except.bind, hfirst, hrev]
  · simp only [if_true] at hfirst
    rcases hfirst with h | h <;> simp [hsh, bind, Except.bind, h, hrev]

theorem parseElems_reversed_eq (isRange hasCount : Bool) (outer : Nat) : ∀ (rs : List RangeSpec) (ps : PState),
    (∀ r ∈ rs, r.lo + 1 < 2 ^ 64 ∧ r.hi + 1 < 2 ^ 64) → (∃ r ∈ rs, r.short = false ∧ r.lo > r.hi) →
    (ps.rangesToken = none ∨ ps.rangesToken = some outer) →
    parseElems isRange hasCount outer (rs.map RangeSpec.toks) ps = .error errReversed := by
  intro rs
  induction rs with
  | nil => intro ps _ h; obtain ⟨r, hr, _⟩ := h; cases hr
  | cons q rs ih =>
    intro ps hl h ht
    simp only [List.map, parseElems, elem_range, bind, Except.bind]
    by_cases hq : q.short = false ∧ q.lo > q.hi
    · rw [finish_reversed_eq isRange hasCount ps q true outer hq.1 hq.2 (by simpa using ht)]
    · have hord : q.short = false → q.lo ≤ q.hi := by
        intro hs; by_cases hc : q.lo ≤ q.hi
        · exact hc
        · exact absurd ⟨hs, by omega⟩ hq
      rw [finish_range isRange hasCount ps q true outer (hl q (by simp)) hord (by simp) (by simpa using ht)]
      simp only
      obtain ⟨r, hr, hsh, hrev⟩ := h
      rcases List.mem_cons.mp hr with rfl | hr'
      · exact absurd ⟨hsh, hrev⟩ hq
      · exact ih _ (fun x hx => hl x (by simp [hx])) ⟨r, hr', hsh, hrev⟩ (Or.inr rfl)

/-- a reversed range is rejected wherever the range is written -/
theorem parse_any_order_reversed (hasCount : Bool) (a : AttrSpec) (hwf : a.WF)
    (hrev : ∃ r ∈ a.ranges, r.short = false ∧ r.lo > r.hi) (o : ArgOrder) :
    ∃ e, parseTopTokens a.isRange hasCount (a.toksIn o) 0 .reset {} = .error e := by
  cases hl : a.asList with
  | true =>
    have hb : a.bodyToks = [Tok.group '[' (commaSep (a.ranges.map RangeSpec.toks))] := by simp [AttrSpec.bodyToks, hl]
    have hpe : ∀ (outer : Nat) (ps : PState), ps.rangesToken = none →
        parseElems a.isRange hasCount outer (a.ranges.map RangeSpec.toks) ps = .error errReversed :=
      fun outer ps h => parseElems_reversed_eq a.isRange hasCount outer a.ranges ps hwf.lits hrev (Or.inl h)
    cases hasCount <;> cases o <;> cases ha : a.access <;> cases hst : a.stride <;>
      simp [AttrSpec.toksIn, joinPieces, commaSep, accessPiece, stridePiece, hb, ha, hst, parseTopTokens, splitCommas_commaSep, hpe,
        bind, Except.bind, AP.takeIdent, AP.takePunct, AP.takeLiteral, fin_read, fin_write, fin_readWrite, fin_reset, fin_stride]
  | false =>
    obtain ⟨r, hr⟩ := hwf.single hl
    have hb : a.bodyToks = r.toks := by simp [AttrSpec.bodyToks, hl, hr]
    obtain ⟨q, hq, hsh, hlt⟩ := hrev
    have hqr : q = r := by rw [hr] at hq; simpa using hq
    subst hqr
    have hfr : ∀ (tok : Nat) (ps : PState), ps.ranges = [] →
        finishedArgument a.isRange hasCount ps q.finalState false tok = .error errReversed :=
      fun tok ps h => finish_reversed_eq a.isRange hasCount ps q false tok hsh hlt (by simpa using h)
    have htr : ∀ (rest : List Tok) (tok : Nat) (ps : PState),
        parseTopTokens a.isRange hasCount (q.toks ++ rest) tok .reset ps
          = parseTopTokens a.isRange hasCount rest (tok + q.toks.length) q.finalState ps :=
      fun rest tok ps => top_range a.isRange hasCount q rest tok ps
    have htr0 : ∀ (tok : Nat) (ps : PState),
        parseTopTokens a.isRange hasCount q.toks tok .reset ps
          = parseTopTokens a.isRange hasCount [] (tok + q.toks.length) q.finalState ps := by
      intro tok ps; have := htr [] tok ps; simpa using this
    cases hasCount <;> cases o <;> cases ha : a.access <;> cases hst : a.stride <;>
      simp [AttrSpec.toksIn, joinPieces, commaSep, accessPiece, stridePiece, hb, ha, hst, hr, parseTopTokens, htr, htr0, hfr,
        bind, Except.bind, AP.takeIdent, AP.takePunct, AP.takeLiteral, fin_read, fin_write, fin_readWrite, fin_reset, fin_stride]

/-- a stride on a field that is not an array is rejected wherever it is written -/
theorem parse_any_order_stride_scalar (a : AttrSpec) (hwf : a.WF) (hord : ∀ r ∈ a.ranges, r.short = false → r.lo ≤ r.hi)
    (s : Nat) (hst : a.stride = some s) (o : ArgOrder) :
    ∃ e, parseTopTokens a.isRange false (a.toksIn o) 0 .reset {} = .error e := by
  cases hl : a.asList with
  | true =>
    have hb : a.bodyToks = [Tok.group '[' (commaSep (a.ranges.map RangeSpec.toks))] := by simp [AttrSpec.bodyToks, hl]
    have hpe : ∀ (outer : Nat) (ps : PState), ps.rangesToken = none →
        parseElems a.isRange false outer (a.ranges.map RangeSpec.toks) ps
          = .ok { ps with ranges := ps.ranges ++ a.ranges.map RangeSpec.rng, rangesToken := some outer } :=
      fun outer ps h => parseElems_eq a.isRange false outer a.ranges ps hwf.lits hord hwf.nonempty (Or.inl h)
    cases o <;> cases ha : a.access <;>
      simp [AttrSpec.toksIn, joinPieces, commaSep, accessPiece, stridePiece, hb, ha, hst, parseTopTokens, splitCommas_commaSep, hpe,
        bind, Except.bind, AP.takeIdent, AP.takePunct, AP.takeLiteral, fin_read, fin_write, fin_readWrite, fin_reset, fin_stride]
  | false =>
    obtain ⟨r, hr⟩ := hwf.single hl
    have hb : a.bodyToks = r.toks := by simp [AttrSpec.bodyToks, hl, hr]
    have hisr : a.isRange = !r.short := by simp [AttrSpec.isRange, hl, hr]
    have hfr : ∀ (tok : Nat) (ps : PState), ps.ranges = [] →
        finishedArgument a.isRange false ps r.finalState false tok = .ok { ps with ranges := [r.rng], rangesToken := some tok } :=
      fun tok ps h => finish_range_top a.isRange false ps r tok (hwf.lits r (by simp [hr])) (hord r (by simp [hr])) hisr h
    have htr : ∀ (rest : List Tok) (tok : Nat) (ps : PState),
        parseTopTokens a.isRange false (r.toks ++ rest) tok .reset ps
          = parseTopTokens a.isRange false rest (tok + r.toks.length) r.finalState ps :=
      fun rest tok ps => top_range a.isRange false r rest tok ps
    have htr0 : ∀ (tok : Nat) (ps : PState),
        parseTopTokens a.isRange false r.toks tok .reset ps
          = parseTopTokens a.isRange false [] (tok + r.toks.length) r.finalState ps := by
      intro tok ps; have := htr [] tok ps; simpa using this
    cases o <;> cases ha : a.access <;>
      simp [AttrSpec.toksIn, joinPieces, commaSep, accessPiece, stridePiece, hb, ha, hst, hr, parseTopTokens, htr, htr0, hfr,
        bind, Except.bind, AP.takeIdent, AP.takePunct, AP.takeLiteral, fin_read, fin_write, fin_readWrite, fin_reset, fin_stride]

end Bb
