import BitbybitModel.Lemmas.Layout
/-! # Closed form of the setter templates and its bit-level meaning -/
namespace Bb

/-- `(((1 << len_0) - 1) << lo_0) | …`: the bits the field occupies (each range moved up by `off`) -/
def maskBits (off : Nat) : List Rng → Nat
  | [] => 0
  | r :: rs => ((2 ^ r.len - 1) <<< (r.lo + off)) ||| maskBits off rs

/-- the value's bits moved to the ranges: range k receives bits `t_k …` of `v` -/
def scatterBits (v off : Nat) : List Rng → Nat → Nat
  | [], _ => 0
  | r :: rs, t => (field v t r.len) <<< (r.lo + off) ||| scatterBits v off rs (t + r.len)

/-- closed form of the mask-and-or setter templates on `W`-bit storage -/
def scatterResult (W raw v off : Nat) (rs : List Rng) : Nat :=
  (raw &&& (2 ^ W - 1 - maskBits off rs)) ||| scatterBits v off rs 0

theorem testBit_maskBits (off : Nat) (rs : List Rng) (p : Nat) :
    (maskBits off rs).testBit p = rs.any (·.covers off p) := by
  induction rs with
  | nil => simp [maskBits]
  | cons r rs ih =>
    simp only [maskBits, Nat.testBit_or, ih, List.any_cons, Nat.testBit_shiftLeft,
      Nat.testBit_two_pow_sub_one, Rng.covers]
    congr 1
    by_cases h : r.lo + off ≤ p
    · simp [h]; omega
    · simp [h]

/-- bit `p` of the scattered value -/
def scatterBit (v off : Nat) : List Rng → Nat → Nat → Bool
  | [], _, _ => false
  | r :: rs, t, p => (r.covers off p && v.testBit (t + (p - (r.lo + off)))) || scatterBit v off rs (t + r.len) p

theorem testBit_scatterBits (v off : Nat) (rs : List Rng) : ∀ (t p : Nat),
    (scatterBits v off rs t).testBit p = scatterBit v off rs t p := by
  induction rs with
  | nil => intro t p; simp [scatterBits, scatterBit]
  | cons r rs ih =>
    intro t p
    simp only [scatterBits, scatterBit, Nat.testBit_or, ih, Nat.testBit_shiftLeft, testBit_field, Rng.covers]
    congr 1
    by_cases h : r.lo + off ≤ p
    · by_cases h2 : p - (r.lo + off) < r.len
      · have : p < r.lo + off + r.len := by omega
        simp [h, h2, this]
      · have : ¬ p < r.lo + off + r.len := by omega
        simp [h, h2, this]
    · simp [h]

theorem scatterBit_not_covered (v off : Nat) (rs : List Rng) : ∀ (t p : Nat),
    rs.any (·.covers off p) = false → scatterBit v off rs t p = false := by
  induction rs with
  | nil => intro t p _; rfl
  | cons r rs ih =>
    intro t p h
    simp only [List.any_cons, Bool.or_eq_false_iff] at h
    simp [scatterBit, h.1, ih _ _ h.2]

theorem maskBits_lt (W off : Nat) (rs : List Rng) (h : ∀ r ∈ rs, r.lo + r.len + off ≤ W) : maskBits off rs < 2 ^ W := by
  induction rs with
  | nil => simp [maskBits, Nat.two_pow_pos]
  | cons r rs ih =>
    simp only [maskBits]
    apply Nat.or_lt_two_pow
    · have hr := h r (by simp)
      have : 2 ^ r.len - 1 < 2 ^ r.len := by have := Nat.two_pow_pos r.len; omega
      exact shiftLeft_lt_two_pow this (by omega)
    · exact ih (fun r hr => h r (by simp [hr]))

theorem scatterBits_lt (W v off : Nat) (rs : List Rng) : ∀ t, (∀ r ∈ rs, r.lo + r.len + off ≤ W) →
    scatterBits v off rs t < 2 ^ W := by
  induction rs with
  | nil => intro t _; simp [scatterBits, Nat.two_pow_pos]
  | cons r rs ih =>
    intro t h
    simp only [scatterBits]
    apply Nat.or_lt_two_pow
    · have hr := h r (by simp)
      exact shiftLeft_lt_two_pow (field_lt _ _ _) (by omega)
    · exact ih _ (fun r hr => h r (by simp [hr]))

theorem scatterResult_lt (W raw v off : Nat) (rs : List Rng) (hraw : raw < 2 ^ W)
    (h : ∀ r ∈ rs, r.lo + r.len + off ≤ W) : scatterResult W raw v off rs < 2 ^ W := by
  unfold scatterResult
  apply Nat.or_lt_two_pow
  · exact Nat.lt_of_le_of_lt Nat.and_le_left hraw
  · exact scatterBits_lt W v off rs 0 h

/-- writes inside the low `N` bits keep a register below `2^N` there (whatever the storage width) -/
theorem scatterResult_lt_of (W N raw v off : Nat) (rs : List Rng) (hraw : raw < 2 ^ N)
    (h : ∀ r ∈ rs, r.lo + r.len + off ≤ N) : scatterResult W raw v off rs < 2 ^ N := by
  unfold scatterResult
  apply Nat.or_lt_two_pow
  · exact Nat.lt_of_le_of_lt Nat.and_le_left hraw
  · exact scatterBits_lt N v off rs 0 h

theorem writeSpec_lt_of (W N raw v off : Nat) (rs : List Rng) (hraw : raw < 2 ^ N)
    (h : ∀ r ∈ rs, r.lo + r.len + off ≤ N) : writeSpec W raw v off rs < 2 ^ N := by
  apply Nat.lt_pow_two_of_testBit
  intro p hp
  rw [testBit_writeSpec]
  have hnc : rs.any (·.covers off p) = false := by
    rw [List.any_eq_false]
    intro q hq
    have := h q hq
    simp only [Rng.covers, Bool.and_eq_true, decide_eq_true_eq]
    omega
  simp [written_none_of_not_covered v off rs 0 p hnc, testBit_eq_false_of_lt hraw hp]

/-- for pairwise disjoint ranges the OR of the scattered pieces is the piece of the covering range -/
theorem scatterBit_eq_written (v off : Nat) : ∀ (rs : List Rng) (t p : Nat), pairwiseDisjoint rs = true →
    scatterBit v off rs t p = (written v off rs t p).getD false := by
  intro rs
  induction rs with
  | nil => intro t p _; rfl
  | cons r rs ih =>
    intro t p hd
    simp only [pairwiseDisjoint, Bool.and_eq_true, List.all_eq_true] at hd
    by_cases hc : r.covers off p = true
    · -- no later range covers p
      have hnone : rs.any (·.covers off p) = false := by
        rw [List.any_eq_false]
        intro q hq hqc
        have hdis := hd.1 q hq
        simp only [Rng.covers, Bool.and_eq_true, decide_eq_true_eq] at hc hqc
        simp only [Rng.disj, Bool.or_eq_true, decide_eq_true_eq] at hdis
        omega
      simp [scatterBit, written, hc, scatterBit_not_covered v off rs _ p hnone]
    · have hc' : r.covers off p = false := by simpa using hc
      simp [scatterBit, written, hc', ih _ _ hd.2]

theorem written_isSome_iff (v off : Nat) : ∀ (rs : List Rng) (t p : Nat),
    (written v off rs t p).isSome = rs.any (·.covers off p) := by
  intro rs
  induction rs with
  | nil => intro t p; rfl
  | cons r rs ih =>
    intro t p
    by_cases hc : r.covers off p = true
    · simp [written, hc]
    · have hc' : r.covers off p = false := by simpa using hc
      simp [written, hc', ih]

/-- **for every list, overlapping or not**: a position no range covers keeps the receiver's bit -/
theorem scatterResult_outside_any (W raw v off : Nat) (rs : List Rng) (p : Nat) (hraw : raw < 2 ^ W)
    (hfit : ∀ r ∈ rs, r.lo + r.len + off ≤ W) (hnc : rs.any (·.covers off p) = false) :
    (scatterResult W raw v off rs).testBit p = raw.testBit p := by
  have hm := maskBits_lt W off rs hfit
  simp only [scatterResult, Nat.testBit_or, Nat.testBit_and, testBit_compl hm, testBit_maskBits,
    testBit_scatterBits, scatterBit_not_covered v off rs 0 p hnc, hnc, Bool.or_false, Bool.not_false, Bool.and_true]
  by_cases hp : p < W
  · simp [hp]
  · simp [hp, testBit_eq_false_of_lt hraw (by omega : W ≤ p)]

/-- **the closed form is the reference write** for pairwise disjoint range lists -/
theorem scatterResult_eq_writeSpec (W raw v off : Nat) (rs : List Rng) (hraw : raw < 2 ^ W)
    (hfit : ∀ r ∈ rs, r.lo + r.len + off ≤ W) (hd : pairwiseDisjoint rs = true) :
    scatterResult W raw v off rs = writeSpec W raw v off rs := by
  have hlt := scatterResult_lt W raw v off rs hraw hfit
  unfold writeSpec
  apply eq_ofBitsBelow_of_testBit hlt
  intro p hp
  have hm := maskBits_lt W off rs hfit
  simp only [scatterResult, Nat.testBit_or, Nat.testBit_and, testBit_compl hm, testBit_maskBits,
    testBit_scatterBits, scatterBit_eq_written v off rs 0 p hd, hp, decide_true, Bool.true_and]
  have hs := written_isSome_iff v off rs 0 p
  cases hw : written v off rs 0 p with
  | none =>
    rw [hw] at hs
    have : rs.any (·.covers off p) = false := by simpa using hs.symm
    simp [this]
  | some b =>
    rw [hw] at hs
    have : rs.any (·.covers off p) = true := by simpa using hs.symm
    simp [this]

end Bb
