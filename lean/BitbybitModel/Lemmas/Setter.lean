import BitbybitModel.Lemmas.SetterEval
import BitbybitModel.Lemmas.ReadBack
/-! # The setter body computes the reference write -/
namespace Bb
open Expr BinOp

/-- the argument `fv` of `with_f` / `set_f` carries the bit pattern `v` -/
def ArgOk (Γ : CustomEnv) (fd : FieldDef) (fv : Val) (v : Nat) : Prop :=
  v < 2 ^ fd.totalBits ∧
  (match fd.custom with
   | none =>
      if fd.fieldTypeSize = 0 then fv = .bool (v != 0)
      else if fd.useRegularInt then fv = .int fd.primitiveType v
      else fv = .uint fd.totalBits v
   | some _ =>
      if fd.useRegularInt then Γ.raw fv = .ok (.int fd.primitiveType v)
      else Γ.raw fv = .ok (.uint fd.totalBits v))

theorem bits_toUnsigned (t : ITy) : t.toUnsigned.bits = t.bits := by cases t <;> rfl
theorem signed_toUnsigned (t : ITy) : t.toUnsigned.signed = false := by cases t <;> rfl

theorem maskBits_shift (off : Nat) (rs : List Rng) : maskBits 0 rs <<< off = maskBits off rs := by
  induction rs with
  | nil => simp [maskBits]
  | cons r rs ih => simp [maskBits, Nat.shiftLeft_or_distrib, ih, ← Nat.shiftLeft_add]

theorem scatterBits_shift (v off : Nat) (rs : List Rng) : ∀ t, scatterBits v 0 rs t <<< off = scatterBits v off rs t := by
  induction rs with
  | nil => intro t; simp [scatterBits]
  | cons r rs ih => intro t; simp [scatterBits, Nat.shiftLeft_or_distrib, ih, ← Nat.shiftLeft_add]

/-- the converted argument, cast to the base type, is the pattern `v` (non-bool fields) -/
theorem eval_argCast (Γ : CustomEnv) (chk : Bool) (ρ : Env) (B : Base) (fd : FieldDef) (fv : Val) (v : Nat)
    (hB : B.WF) (hok : FieldOk B fd) (hwide : fd.totalBits ≤ B.internal)
    (hfv : ρ.fieldValue = fv) (harg : ArgOk Γ fd fv v) (hnb : fd.fieldTypeSize ≠ 0) :
    eval Γ chk ρ (.cast (argumentConverted fd) B.W) = .ok (.int B.W v) := by
  obtain ⟨hv, hcase⟩ := harg
  have hWb := hB.W_bits
  have hvW : v < 2 ^ B.W.bits := Nat.lt_of_lt_of_le hv (two_pow_le_of_le (by omega))
  have h128 := hok.total_le
  cases hc : fd.custom with
  | none =>
    simp only [hc, hnb, if_false] at hcase
    by_cases hreg : fd.useRegularInt = true
    · simp only [hreg, if_true] at hcase
      have hprim := hok.regular_prim hreg hnb
      cases hu : fd.unsignedFieldType with
      | none =>
        have hsg : fd.primitiveType.signed = false := by
          cases h : fd.primitiveType.signed with
          | false => rfl
          | true => have := hok.signed_iff.mp h; simp [hu] at this
        simp [argumentConverted, hc, hreg, hu, eval, Env.get, hfv, hcase,
          castBits_unsigned hsg (by rw [hprim]; exact hv) hvW]
      | some u =>
        obtain ⟨hu1, _, _⟩ := hok.unsigned_twin u hu
        have hub : u.bits = fd.primitiveType.bits := by rw [hu1, bits_toUnsigned]
        have hus : u.signed = false := by rw [hu1, signed_toUnsigned]
        have h1 : castBits fd.primitiveType u v = v := by
          simp [castBits, hub, Nat.mod_eq_of_lt (show v < 2 ^ fd.primitiveType.bits by rw [hprim]; exact hv)]
        simp [argumentConverted, hc, hreg, hu, eval, Env.get, hfv, hcase, h1,
          castBits_unsigned hus (by rw [hub, hprim]; exact hv) hvW]
    · have hreg' : fd.useRegularInt = false := by simpa using hreg
      simp only [hreg', Bool.false_eq_true, if_false] at hcase
      have hvs : v < 2 ^ (ITy.unsignedOf fd.totalBits).bits := by
        rw [bits_unsignedOf]; exact Nat.lt_of_lt_of_le hv (two_pow_le_of_le (le_storageOf h128))
      simp [argumentConverted, hc, hreg', eval, Env.get, hfv, hcase,
        castBits_unsigned (signed_unsignedOf _) hvs hvW]
  | some c =>
    simp only [hc] at hcase
    by_cases hreg : fd.useRegularInt = true
    · simp only [hreg, if_true] at hcase
      have hp := hok.custom_prim (by simp [hc]) hreg
      have hvs : v < 2 ^ fd.primitiveType.bits := by
        rw [hp, bits_unsignedOf]; exact Nat.lt_of_lt_of_le hv (two_pow_le_of_le (le_storageOf h128))
      have hsg : fd.primitiveType.signed = false := by rw [hp]; exact signed_unsignedOf _
      simp [argumentConverted, hc, hreg, eval, Env.get, hfv, hcase, castBits_unsigned hsg hvs hvW]
    · have hreg' : fd.useRegularInt = false := by simpa using hreg
      simp only [hreg', Bool.false_eq_true, if_false] at hcase
      have hvs : v < 2 ^ (ITy.unsignedOf fd.totalBits).bits := by
        rw [bits_unsignedOf]; exact Nat.lt_of_lt_of_le hv (two_pow_le_of_le (le_storageOf h128))
      simp [argumentConverted, hc, hreg', eval, Env.get, hfv, hcase,
        castBits_unsigned (signed_unsignedOf _) hvs hvW]

end Bb

namespace Bb
open Expr BinOp

theorem listOk_of {W : Nat} : ∀ (rs : List Rng) (t : Nat),
    (∀ r ∈ rs, 1 ≤ r.len ∧ r.len < W ∧ r.lo + r.len ≤ W) → t + totalLen rs ≤ W → ListOk W rs t := by
  intro rs
  induction rs with
  | nil => intro t _ _; trivial
  | cons r rs ih =>
    intro t h ht
    have hr := h r (by simp)
    simp only [totalLen] at ht
    exact ⟨by omega, hr.2.1, hr.2.2, by omega, ih (t + r.len) (fun q hq => h q (by simp [hq])) (by omega)⟩

/-- the value computed by `setter_new_raw_value`, for every accepted field: it exists, it fits the storage,
    for pairwise disjoint range lists it is the reference write, and for *every* list (one that names a bit twice
    included) the positions no range covers keep the receiver's bits -/
theorem eval_setterNewRawValue (Γ : CustomEnv) (chk : Bool) (ρ : Env) (B : Base) (fd : FieldDef) (raw i : Nat) (fv : Val) (v : Nat)
    (hB : B.WF) (hok : FieldOk B fd) (hwide : fd.totalBits ≤ B.internal)
    (hraw : ρ.raw = .int B.W raw) (hrawlt : raw < 2 ^ B.internal)
    (hidx : fd.array.isSome → ρ.index = .int .usize i) (hfv : ρ.fieldValue = fv)
    (hi : ∀ c s, fd.array = some (c, s) → i < c) (harg : ArgOk Γ fd fv v) :
    ∃ e, setterNewRawValue B fd = some e ∧ ∃ x, eval Γ chk ρ e = .ok (.int B.W x) ∧ x < 2 ^ B.internal ∧
      (pairwiseDisjoint fd.ranges = true → x = writeSpec B.internal raw v (offOf i fd.stride) fd.ranges) ∧
      (raw < 2 ^ B.exposed → x < 2 ^ B.exposed) ∧
      (∀ p, fd.ranges.any (·.covers (offOf i fd.stride) p) = false → x.testBit p = raw.testBit p) := by
  have hWb := hB.W_bits
  have hWs := hB.W_signed
  have hexp := hB.exposed_le
  have hbound : ∀ r ∈ fd.ranges, r.lo + r.len + offOf i fd.stride ≤ B.internal :=
    fun r hr => Nat.le_trans (hok.elem_in_bounds hi hr) hexp
  have htot := totalBits_eq fd
  have hv := harg.1
  have hboundE : ∀ r ∈ fd.ranges, r.lo + r.len + offOf i fd.stride ≤ B.exposed :=
    fun r hr => hok.elem_in_bounds hi hr
  -- the array offset as evaluated by the templates
  have hoffE : ∀ (ρ' : Env) (c s lo : Nat), fd.array = some (c, s) → ρ'.index = .int .usize i → lo + i * s < 2 ^ 64 →
      eval Γ chk ρ' (.bin .add (usz lo) (.bin .mul (.var .index) (usz s))) = .ok (.int .usize (lo + i * s)) := by
    intro ρ' c s lo ha hix h
    have hs64 : s < 2 ^ 64 := hok.stride_small hB s (by simp [FieldDef.stride, ha])
    have hlo : lo < 2 ^ 64 := by omega
    have hm : i * s < 2 ^ 64 := by omega
    simp [eval, eval_usz, hlo, hs64, evalBin, Env.get, hix, hm, h]
  by_cases hbool : fd.fieldTypeSize = 0
  · -- bool
    obtain ⟨lo, hr⟩ := hok.bool_one hbool
    obtain ⟨hreg, hun, hcu⟩ := hok.bool_regular hbool
    have hfd : fd.fromDataType = some BITCOUNT_BOOL := hok.bool_iff.mp hbool
    have hb := hbound ⟨lo, 1⟩ (by simp [hr])
    simp only at hb
    have hsW : lo + offOf i fd.stride < B.W.bits := by omega
    have hcase := harg.2
    simp only [hcu, hbool, if_true] at hcase
    have hargE : ∀ ρ' : Env, ρ'.fieldValue = fv → eval Γ chk ρ' (argumentConverted fd) = .ok (.bool (v != 0)) := by
      intro ρ' h; simp [argumentConverted, hcu, hreg, hun, eval, Env.get, h, hcase]
    have hv2 : v < 2 := by rw [htot, hr] at hv; simpa [totalLen] using hv
    have hspec : ∀ off, lo + off < B.internal →
        (if (v != 0) = true then raw ||| 2 ^ (lo + off) else raw &&& (2 ^ B.W.bits - 1 - 2 ^ (lo + off)))
          = writeSpec B.internal raw v off [⟨lo, 1⟩] := by
      intro off hoff
      by_cases hv0 : v = 0
      · subst hv0; simp [hWb, boolClear_eq_writeSpec B.internal raw lo off hrawlt hoff]
      · have : v = 1 := by omega
        subst this; simp [boolSet_eq_writeSpec B.internal raw lo off hrawlt hoff]
    cases ha : fd.array with
    | none =>
      have hoff : offOf i fd.stride = 0 := by simp [FieldDef.stride, ha, offOf]
      have hlo64 : lo < 2 ^ 64 := lt_usize_of_lt_bits (W := B.W) (by omega)
      have hse := eval_usz Γ chk ρ lo hlo64
      refine ⟨_, by simp [setterNewRawValue, ha, hfd, hr]; rfl, ?_⟩
      have h1 := eval_boolSet Γ chk ρ B.W raw lo _ hraw hWs hse (by omega)
      have h2 := eval_boolClear Γ chk ρ B.W raw lo _ hraw hWs hse (by omega)
      have hsp := hspec 0 (by omega)
      by_cases hvb : (v != 0) = true
      · refine ⟨raw ||| 2 ^ lo, by rw [eval_ite_bool Γ chk ρ _ _ _ _ (hargE ρ hfv), if_pos hvb]; exact h1, ?_, ?_⟩
        · simp only [hvb, if_true, Nat.add_zero] at hsp; rw [hsp]; exact writeSpec_lt _ _ _ _ _
        · simp only [hvb, if_true, Nat.add_zero] at hsp
          refine ⟨fun _ => by rw [hsp, hr, hoff], fun hre => ?_, fun p hp => ?_⟩
          · rw [hsp]; exact writeSpec_lt_of _ _ _ _ _ _ hre (by rw [← hoff, ← hr]; exact hboundE)
          · rw [hsp]; exact writeSpec_outside _ _ _ _ _ p hrawlt (by rw [← hoff, ← hr]; exact hp)
      · have hvb' : (v != 0) = false := by simpa using hvb
        refine ⟨raw &&& (2 ^ B.W.bits - 1 - 2 ^ lo), by rw [eval_ite_bool Γ chk ρ _ _ _ _ (hargE ρ hfv), hvb']; exact h2, ?_, ?_⟩
        · simp only [hvb', Bool.false_eq_true, if_false, Nat.add_zero] at hsp; rw [hsp]; exact writeSpec_lt _ _ _ _ _
        · simp only [hvb', Bool.false_eq_true, if_false, Nat.add_zero] at hsp
          refine ⟨fun _ => by rw [hsp, hr, hoff], fun hre => ?_, fun p hp => ?_⟩
          · rw [hsp]; exact writeSpec_lt_of _ _ _ _ _ _ hre (by rw [← hoff, ← hr]; exact hboundE)
          · rw [hsp]; exact writeSpec_outside _ _ _ _ _ p hrawlt (by rw [← hoff, ← hr]; exact hp)
    | some cs =>
      obtain ⟨c, s⟩ := cs
      have hoff : offOf i fd.stride = i * s := by simp [FieldDef.stride, ha, offOf]
      rw [hoff] at hsW hb
      have h64 : lo + i * s < 2 ^ 64 := lt_usize_of_lt_bits hsW
      have hix := hidx (by simp [ha])
      refine ⟨_, by simp [setterNewRawValue, ha, hfd, hr]; rfl, ?_⟩
      let ρ' := ρ.set .effIndex (.int .usize (lo + i * s))
      have hse : eval Γ chk ρ' (.var .effIndex) = .ok (.int .usize (lo + i * s)) := by simp [eval, ρ', Env.set, Env.get]
      have hraw' : ρ'.raw = .int B.W raw := by simp [ρ', Env.set, hraw]
      have hfv' : ρ'.fieldValue = fv := by simp [ρ', Env.set, hfv]
      have h1 := eval_boolSet Γ chk ρ' B.W raw _ _ hraw' hWs hse hsW
      have h2 := eval_boolClear Γ chk ρ' B.W raw _ _ hraw' hWs hse hsW
      have hsp := hspec (i * s) (by omega)
      have hlet : ∀ body, eval Γ chk ρ (.letE .effIndex (.bin .add (usz lo) (.bin .mul (.var .index) (usz s))) body)
          = eval Γ chk ρ' body := by
        intro body; exact eval_letE Γ chk ρ _ _ _ _ (hoffE ρ c s lo ha hix h64)
      by_cases hvb : (v != 0) = true
      · refine ⟨raw ||| 2 ^ (lo + i * s), by rw [hlet, eval_ite_bool Γ chk ρ' _ _ _ _ (hargE ρ' hfv'), if_pos hvb]; exact h1, ?_, ?_⟩
        · simp only [hvb, if_true] at hsp; rw [hsp]; exact writeSpec_lt _ _ _ _ _
        · simp only [hvb, if_true] at hsp
          refine ⟨fun _ => by rw [hsp, hr, hoff], fun hre => ?_, fun p hp => ?_⟩
          · rw [hsp]; exact writeSpec_lt_of _ _ _ _ _ _ hre (by rw [← hoff, ← hr]; exact hboundE)
          · rw [hsp]; exact writeSpec_outside _ _ _ _ _ p hrawlt (by rw [← hoff, ← hr]; exact hp)
      · have hvb' : (v != 0) = false := by simpa using hvb
        refine ⟨raw &&& (2 ^ B.W.bits - 1 - 2 ^ (lo + i * s)), by rw [hlet, eval_ite_bool Γ chk ρ' _ _ _ _ (hargE ρ' hfv'), hvb']; exact h2, ?_, ?_⟩
        · simp only [hvb', Bool.false_eq_true, if_false] at hsp; rw [hsp]; exact writeSpec_lt _ _ _ _ _
        · simp only [hvb', Bool.false_eq_true, if_false] at hsp
          refine ⟨fun _ => by rw [hsp, hr, hoff], fun hre => ?_, fun p hp => ?_⟩
          · rw [hsp]; exact writeSpec_lt_of _ _ _ _ _ _ hre (by rw [← hoff, ← hr]; exact hboundE)
          · rw [hsp]; exact writeSpec_outside _ _ _ _ _ p hrawlt (by rw [← hoff, ← hr]; exact hp)
  · -- integer-like fields
    have hfd : ¬ fd.fromDataType = some BITCOUNT_BOOL := fun h => hbool (hok.bool_iff.mpr h)
    have hcast : ∀ ρ' : Env, ρ'.fieldValue = fv → eval Γ chk ρ' (.cast (argumentConverted fd) B.W) = .ok (.int B.W v) :=
      fun ρ' h => eval_argCast Γ chk ρ' B fd fv v hB hok hwide h harg hbool
    have hfit : ∀ r ∈ fd.ranges, r.lo + r.len + offOf i fd.stride ≤ B.internal := hbound
    -- the generic conclusion from the closed form
    have conclude : ∀ x, x = scatterResult B.internal raw v (offOf i fd.stride) fd.ranges →
        x < 2 ^ B.internal ∧ (pairwiseDisjoint fd.ranges = true → x = writeSpec B.internal raw v (offOf i fd.stride) fd.ranges) ∧
        (raw < 2 ^ B.exposed → x < 2 ^ B.exposed) ∧
        (∀ p, fd.ranges.any (·.covers (offOf i fd.stride) p) = false → x.testBit p = raw.testBit p) := by
      intro x hx
      subst hx
      exact ⟨scatterResult_lt _ _ _ _ _ hrawlt hfit, fun hd => scatterResult_eq_writeSpec _ _ _ _ _ hrawlt hfit hd,
        fun hre => scatterResult_lt_of _ _ _ _ _ _ hre hboundE,
        fun p hp => scatterResult_outside_any _ _ _ _ _ p hrawlt hfit hp⟩
    cases hrs : fd.ranges with
    | nil => exact absurd hrs hok.nonempty
    | cons r rs =>
      cases rs with
      | nil =>
        -- single range
        have hb := hbound r (by simp [hrs])
        have hpos := hok.len_pos r (by simp [hrs])
        have htb : fd.totalBits = r.len := by rw [htot, hrs]; simp [totalLen]
        have hvn : v < 2 ^ r.len := by rw [← htb]; exact hv
        cases ha : fd.array with
        | none =>
          have hoff : offOf i fd.stride = 0 := by simp [FieldDef.stride, ha, offOf]
          rw [hoff] at hb
          by_cases hfull : r.len = B.internal
          · have hlo : r.lo = 0 := by omega
            refine ⟨.cast (argumentConverted fd) B.W, ?_, v, hcast ρ hfv, by rw [← hfull]; exact hvn, ?_⟩
            · unfold setterNewRawValue
              simp only [ha, hrs, if_neg hfd, if_pos hfull, if_pos hlo]
            · have hre : r = ⟨0, B.internal⟩ := by cases r; simp only [Rng.mk.injEq]; exact ⟨hlo, hfull⟩
              refine ⟨fun _ => ?_, fun _ => ?_, fun p hp => ?_⟩
              · rw [hoff, hre]
                exact fullWidth_eq_writeSpec B.internal raw v (by rw [← hfull]; exact hvn)
              · have := hboundE r (by simp [hrs])
                have hEq : B.exposed = B.internal := by omega
                rw [hEq, ← hfull]; exact hvn
              · -- the single range is the whole storage: an uncovered position lies above it
                rw [hoff, hre] at hp
                simp only [List.any_cons, List.any_nil, Bool.or_false, Rng.covers, Nat.add_zero, Nat.zero_le, decide_true,
                  Bool.true_and, decide_eq_false_iff_not, Nat.zero_add, Nat.not_lt] at hp
                rw [testBit_eq_false_of_lt (by rw [← hfull]; exact hvn) hp, testBit_eq_false_of_lt hrawlt hp]
          · have hn : r.len < B.W.bits := by omega
            have hlo64 : r.lo < 2 ^ 64 := lt_usize_of_lt_bits (W := B.W) (by omega)
            have hev := eval_singleTemplate Γ chk ρ B.W raw v r.len r.lo (usz r.lo) _ hraw hWs
              (eval_usz Γ chk ρ r.lo hlo64) (hcast ρ hfv) hn (by omega) hpos hvn
            refine ⟨.bin .or (.bin .and (.var .raw) (.not (.bin .shl (maskE B.W r.len) (usz r.lo))))
                        (.bin .shl (.cast (argumentConverted fd) B.W) (usz r.lo)), ?_,
              (raw &&& (2 ^ B.W.bits - 1 - (2 ^ r.len - 1) <<< r.lo)) ||| (v <<< r.lo), hev, ?_⟩
            · unfold setterNewRawValue
              simp only [ha, hrs, if_neg hfd, if_neg hfull]
            · rw [← hrs]
              exact conclude ((raw &&& (2 ^ B.W.bits - 1 - (2 ^ r.len - 1) <<< r.lo)) ||| (v <<< r.lo)) (by
                rw [hrs, hoff, hWb]
                have := scatterResult_single B.internal raw v 0 r.lo r.len hvn
                simpa using this.symm)
        | some cs =>
          obtain ⟨c, s⟩ := cs
          have hoff : offOf i fd.stride = i * s := by simp [FieldDef.stride, ha, offOf]
          rw [hoff] at hb
          have hn : r.len < B.W.bits := by
            have hc2 := hok.count_ge c s ha
            have hsn := hok.stride_ge c s r ha hrs
            have hreach := hok.reach_le
            simp only [FieldDef.reach, ha] at hreach
            have h1 : r.lo + r.len ≤ maxEnd fd.ranges := le_maxEnd (by simp [hrs])
            have : 1 * s ≤ (c - 1) * s := Nat.mul_le_mul_right s (by omega)
            omega
          have h64 : r.lo + i * s < 2 ^ 64 := lt_usize_of_lt_bits (W := B.W) (by omega)
          have hix := hidx (by simp [ha])
          let ρ' := ρ.set .effIndex (.int .usize (r.lo + i * s))
          have hse : eval Γ chk ρ' (.var .effIndex) = .ok (.int .usize (r.lo + i * s)) := by simp [eval, ρ', Env.set, Env.get]
          have hraw' : ρ'.raw = .int B.W raw := by simp [ρ', Env.set, hraw]
          have hfv' : ρ'.fieldValue = fv := by simp [ρ', Env.set, hfv]
          have hev := eval_singleTemplate Γ chk ρ' B.W raw v r.len (r.lo + i * s) (.var .effIndex) _ hraw' hWs
            hse (hcast ρ' hfv') hn (by omega) hpos hvn
          refine ⟨.letE .effIndex (.bin .add (usz r.lo) (.bin .mul (.var .index) (usz s)))
              (.bin .or (.bin .and (.var .raw) (.not (.bin .shl (maskE B.W r.len) (.var .effIndex))))
                        (.bin .shl (.cast (argumentConverted fd) B.W) (.var .effIndex))), ?_,
            (raw &&& (2 ^ B.W.bits - 1 - (2 ^ r.len - 1) <<< (r.lo + i * s))) ||| (v <<< (r.lo + i * s)), ?_, ?_⟩
          · unfold setterNewRawValue
            simp only [ha, hrs, if_neg hfd]
          · rw [eval_letE Γ chk ρ _ _ _ _ (hoffE ρ c s r.lo ha hix h64)]; exact hev
          · rw [← hrs]
            exact conclude ((raw &&& (2 ^ B.W.bits - 1 - (2 ^ r.len - 1) <<< (r.lo + i * s))) ||| (v <<< (r.lo + i * s))) (by
              rw [hrs, hoff, hWb]
              exact (scatterResult_single B.internal raw v (i * s) r.lo r.len hvn).symm)
      | cons r2 rs2 =>
        -- range list
        have hlt : ∀ q ∈ fd.ranges, q.len < B.internal := by
          intro q hq
          have := len_lt_totalLen hok.len_pos (by rw [hrs]; simp) hq
          omega
        have hlist : ListOk B.W.bits fd.ranges 0 := by
          apply listOk_of
          · intro q hq; exact ⟨hok.len_pos q hq, by rw [hWb]; exact hlt q hq, by rw [hWb]; have := hbound q hq; omega⟩
          · rw [hWb, ← htot]; omega
        obtain ⟨m, hm⟩ := setterMask_isSome B.W r (r2 :: rs2)
        obtain ⟨nb, hnb⟩ := setterNewBits_isSome B.W r (r2 :: rs2)
        rw [← hrs] at hm hnb
        let ρ1 := ρ.set .temp (.int B.W v)
        have htemp1 : ρ1.temp = .int B.W v := by simp [ρ1, Env.set]
        have hmE : ∀ ρ' : Env, eval Γ chk ρ' m = .ok (.int B.W (maskBits 0 fd.ranges)) :=
          fun ρ' => eval_setterMask Γ chk ρ' B.W hWs fd.ranges m hlist hm
        have hM : maskBits 0 fd.ranges < 2 ^ B.W.bits := by
          rw [hWb]; exact maskBits_lt _ 0 _ (fun q hq => by have := hbound q hq; omega)
        cases ha : fd.array with
        | none =>
          have hoff : offOf i fd.stride = 0 := by simp [FieldDef.stride, ha, offOf]
          let ρ2 := ρ1.set .constMask (.int B.W (2 ^ B.W.bits - 1 - maskBits 0 fd.ranges))
          have hraw2 : ρ2.raw = .int B.W raw := by simp [ρ2, ρ1, Env.set, hraw]
          have htemp2 : ρ2.temp = .int B.W v := by simp [ρ2, ρ1, Env.set]
          have hnbE := eval_setterNewBits Γ chk ρ2 B.W hWs v htemp2 fd.ranges nb hlist hnb
          have hcm : eval Γ chk ρ2 (.var .constMask) = .ok (.int B.W (2 ^ B.W.bits - 1 - maskBits 0 fd.ranges)) := by
            simp [eval, ρ2, Env.set, Env.get]
          have hbody := eval_or_int Γ chk ρ2 _ _ B.W _ _
            (eval_and_int Γ chk ρ2 _ _ B.W _ _ (eval_var_raw Γ chk ρ2 _ hraw2) hcm) hnbE
          refine ⟨.letE .temp (.cast (argumentConverted fd) B.W) (.letE .constMask (.not m)
              (.bin .or (.bin .and (.var .raw) (.var .constMask)) nb)), ?_,
            (raw &&& (2 ^ B.W.bits - 1 - maskBits 0 fd.ranges)) ||| scatterBits v 0 fd.ranges 0, ?_, ?_⟩
          · unfold setterNewRawValue
            simp only [ha, if_neg hfd, hrs]
            rw [← hrs, hm, hnb]
          · rw [eval_letE Γ chk ρ _ _ _ _ (hcast ρ hfv), eval_letE Γ chk ρ1 _ _ _ _ (eval_not_int Γ chk ρ1 m B.W _ hWs (hmE ρ1))]
            exact hbody
          · rw [← hrs]
            exact conclude ((raw &&& (2 ^ B.W.bits - 1 - maskBits 0 fd.ranges)) ||| scatterBits v 0 fd.ranges 0) (by
              rw [hoff, hWb]; rfl)
        | some cs =>
          obtain ⟨c, s⟩ := cs
          have hoff : offOf i fd.stride = i * s := by simp [FieldDef.stride, ha, offOf]
          have hix := hidx (by simp [ha])
          have hs64 : s < 2 ^ 64 := hok.stride_small hB s (by simp [FieldDef.stride, ha])
          have hb1 := hbound r (by simp [hrs])
          have hp1 := hok.len_pos r (by simp [hrs])
          rw [hoff] at hb1
          have hoffW : i * s < B.W.bits := by omega
          have hoff64 : i * s < 2 ^ 64 := lt_usize_of_lt_bits hoffW
          let ρ2 := ρ1.set .constMask (.int B.W (maskBits 0 fd.ranges))
          have hraw2 : ρ2.raw = .int B.W raw := by simp [ρ2, ρ1, Env.set, hraw]
          have htemp2 : ρ2.temp = .int B.W v := by simp [ρ2, ρ1, Env.set]
          have hix2 : ρ2.index = .int .usize i := by simp [ρ2, ρ1, Env.set, hix]
          have hnbE := eval_setterNewBits Γ chk ρ2 B.W hWs v htemp2 fd.ranges nb hlist hnb
          have hcm : eval Γ chk ρ2 (.var .constMask) = .ok (.int B.W (maskBits 0 fd.ranges)) := by
            simp [eval, ρ2, Env.set, Env.get]
          have hsh : eval Γ chk ρ2 (.bin .mul (.var .index) (usz s)) = .ok (.int .usize (i * s)) := by
            simp [eval, eval_usz, hs64, evalBin, Env.get, hix2, hoff64]
          have hMs : maskBits 0 fd.ranges <<< (i * s) < 2 ^ B.W.bits := by
            rw [maskBits_shift, hWb]; exact maskBits_lt _ _ _ (fun q hq => by have := hbound q hq; rw [hoff] at this; exact this)
          have hNs : scatterBits v 0 fd.ranges 0 <<< (i * s) < 2 ^ B.W.bits := by
            rw [scatterBits_shift, hWb]; exact scatterBits_lt _ _ _ _ _ (fun q hq => by have := hbound q hq; rw [hoff] at this; exact this)
          have hmask := eval_shl_int Γ chk ρ2 _ _ B.W _ _ hcm hsh hoffW hMs
          have hnew := eval_shl_int Γ chk ρ2 _ _ B.W _ _ hnbE hsh hoffW hNs
          have hbody := eval_or_int Γ chk ρ2 _ _ B.W _ _
            (eval_and_int Γ chk ρ2 _ _ B.W _ _ (eval_var_raw Γ chk ρ2 _ hraw2) (eval_not_int Γ chk ρ2 _ B.W _ hWs hmask)) hnew
          refine ⟨.letE .temp (.cast (argumentConverted fd) B.W) (.letE .constMask m
              (.bin .or (.bin .and (.var .raw) (.not (.bin .shl (.var .constMask) (.bin .mul (.var .index) (usz s)))))
                        (.bin .shl nb (.bin .mul (.var .index) (usz s))))), ?_,
            (raw &&& (2 ^ B.W.bits - 1 - maskBits 0 fd.ranges <<< (i * s))) ||| scatterBits v 0 fd.ranges 0 <<< (i * s), ?_, ?_⟩
          · unfold setterNewRawValue
            simp only [ha, if_neg hfd, hrs]
            rw [← hrs, hm, hnb]
          · rw [eval_letE Γ chk ρ _ _ _ _ (hcast ρ hfv), eval_letE Γ chk ρ1 _ _ _ _ (hmE ρ1)]
            exact hbody
          · rw [← hrs]
            exact conclude ((raw &&& (2 ^ B.W.bits - 1 - maskBits 0 fd.ranges <<< (i * s))) ||| scatterBits v 0 fd.ranges 0 <<< (i * s)) (by
              rw [hoff, hWb, maskBits_shift, scatterBits_shift]; rfl)

end Bb
