import BitbybitModel.Lemmas.Setter
import BitbybitModel.Lemmas.GetterBody
/-! # The whole `with_` / `set_` body: index assertion, then the new raw value -/
namespace Bb
open Expr BinOp

theorem eval_assert_lt (Γ chk) (ρ : Env) (i c : Nat) (body : Expr) (hix : ρ.index = .int .usize i) (hc : c < 2 ^ 64) :
    eval Γ chk ρ (.assertE (.bin .lt (.var .index) (usz c)) body)
      = if i < c then eval Γ chk ρ body else .error (.panic "assertion failed") := by
  by_cases h : i < c <;> simp [eval, eval_usz Γ chk ρ c hc, Env.get, hix, evalBin, h]

/-- in-range index (or scalar field): the setter body yields a value that fits the storage, for pairwise disjoint range
    lists is the reference write, and for every list leaves the positions it does not cover alone -/
theorem eval_setterBody (Γ : CustomEnv) (chk : Bool) (B : Base) (fd : FieldDef) (raw i : Nat) (fv : Val) (v : Nat)
    (hB : B.WF) (hok : FieldOk B fd) (hwide : fd.totalBits ≤ B.internal) (hrawlt : raw < 2 ^ B.internal)
    (hi : ∀ c s, fd.array = some (c, s) → i < c) (harg : ArgOk Γ fd fv v) :
    ∃ e, setterBody B fd = some e ∧ ∃ x,
      eval Γ chk { raw := .int B.W raw, index := .int .usize i, fieldValue := fv } e = .ok (.int B.W x) ∧
      x < 2 ^ B.internal ∧
      (pairwiseDisjoint fd.ranges = true → x = writeSpec B.internal raw v (offOf i fd.stride) fd.ranges) ∧
      (raw < 2 ^ B.exposed → x < 2 ^ B.exposed) ∧
      (∀ p, fd.ranges.any (·.covers (offOf i fd.stride) p) = false → x.testBit p = raw.testBit p) := by
  obtain ⟨e, he, x, hev, hx, hsp⟩ := eval_setterNewRawValue Γ chk
    { raw := .int B.W raw, index := .int .usize i, fieldValue := fv } B fd raw i fv v hB hok hwide rfl hrawlt (fun _ => rfl) rfl hi harg
  cases ha : fd.array with
  | none => exact ⟨e, by simp [setterBody, he, ha], x, hev, hx, hsp⟩
  | some cs =>
    obtain ⟨c, s⟩ := cs
    refine ⟨.assertE (.bin .lt (.var .index) (usz c)) e, by simp [setterBody, he, ha], x, ?_, hx, hsp⟩
    rw [eval_assert_lt Γ chk _ i c e rfl (hok.count_lt c s ha), if_pos (hi c s ha)]
    exact hev

/-- out-of-range index: `with_` and `set_` panic before computing anything -/
theorem eval_setterBody_oob (Γ : CustomEnv) (chk : Bool) (B : Base) (fd : FieldDef) (raw i c s : Nat) (fv : Val) (v : Nat)
    (hB : B.WF) (hok : FieldOk B fd) (hwide : fd.totalBits ≤ B.internal) (hrawlt : raw < 2 ^ B.internal)
    (ha : fd.array = some (c, s)) (hi : c ≤ i) (harg : ArgOk Γ fd fv v) :
    ∃ e, setterBody B fd = some e ∧
      eval Γ chk { raw := .int B.W raw, index := .int .usize i, fieldValue := fv } e = .error (.panic "assertion failed") := by
  have hc2 := hok.count_ge c s ha
  obtain ⟨e, he, _⟩ := eval_setterNewRawValue Γ chk
    { raw := .int B.W raw, index := .int .usize 0, fieldValue := fv } B fd raw 0 fv v hB hok hwide rfl hrawlt (fun _ => rfl) rfl
    (fun c' s' h => by rw [ha] at h; cases h; omega) harg
  refine ⟨.assertE (.bin .lt (.var .index) (usz c)) e, by simp [setterBody, he, ha], ?_⟩
  rw [eval_assert_lt Γ chk _ i c e rfl (hok.count_lt c s ha), if_neg (by omega)]

end Bb
