import BitbybitModel.Lemmas.Scatter
/-! # Evaluation of the setter templates to their closed forms -/
namespace Bb
open Expr BinOp

theorem castBits_unsigned {T W : ITy} {v : Nat} (hT : T.signed = false) (hv : v < 2 ^ T.bits) (hvW : v < 2 ^ W.bits) :
    castBits T W v = v := by
  unfold castBits
  by_cases h : W.bits ≤ T.bits
  · simp [h, Nat.mod_eq_of_lt hvW]
  · simp [h, hT]

theorem eval_bin (Γ chk ρ) (op : BinOp) (a b : Expr) (x y : Val)
    (ha : eval Γ chk ρ a = .ok x) (hb : eval Γ chk ρ b = .ok y) :
    eval Γ chk ρ (.bin op a b) = evalBin chk op x y := by
  simp [eval, ha, hb]

theorem eval_or_int (Γ chk ρ) (a b : Expr) (W : ITy) (x y : Nat)
    (ha : eval Γ chk ρ a = .ok (.int W x)) (hb : eval Γ chk ρ b = .ok (.int W y)) :
    eval Γ chk ρ (.bin .or a b) = .ok (.int W (x ||| y)) := by
  rw [eval_bin Γ chk ρ _ _ _ _ _ ha hb]; simp [evalBin]

theorem eval_and_int (Γ chk ρ) (a b : Expr) (W : ITy) (x y : Nat)
    (ha : eval Γ chk ρ a = .ok (.int W x)) (hb : eval Γ chk ρ b = .ok (.int W y)) :
    eval Γ chk ρ (.bin .and a b) = .ok (.int W (x &&& y)) := by
  rw [eval_bin Γ chk ρ _ _ _ _ _ ha hb]; simp [evalBin]

theorem eval_shl_int (Γ chk ρ) (a b : Expr) (W : ITy) (x s : Nat)
    (ha : eval Γ chk ρ a = .ok (.int W x)) (hb : eval Γ chk ρ b = .ok (.int .usize s))
    (hs : s < W.bits) (hfit : x <<< s < 2 ^ W.bits) :
    eval Γ chk ρ (.bin .shl a b) = .ok (.int W (x <<< s)) := by
  rw [eval_bin Γ chk ρ _ _ _ _ _ ha hb]; simp [evalBin, hs, Nat.mod_eq_of_lt hfit]

theorem eval_letE (Γ chk) (ρ : Env) (x : Var) (e body : Expr) (val : Val)
    (h : eval Γ chk ρ e = .ok val) : eval Γ chk ρ (.letE x e body) = eval Γ chk (ρ.set x val) body := by
  simp [eval, h]

theorem eval_ite_bool (Γ chk) (ρ : Env) (c a b : Expr) (bv : Bool)
    (h : eval Γ chk ρ c = .ok (.bool bv)) : eval Γ chk ρ (.ite c a b) = if bv then eval Γ chk ρ a else eval Γ chk ρ b := by
  cases bv <;> simp [eval, h]

theorem eval_var_raw (Γ chk) (ρ : Env) (v : Val) (h : ρ.raw = v) : eval Γ chk ρ (.var .raw) = .ok v := by
  simp [eval, Env.get, h]

/-- `!(x)` on an unsigned `W`-bit value -/
theorem eval_not_int (Γ chk ρ) (e : Expr) (W : ITy) (x : Nat) (hs : W.signed = false)
    (h : eval Γ chk ρ e = .ok (.int W x)) : eval Γ chk ρ (.not e) = .ok (.int W (2 ^ W.bits - 1 - x)) := by
  simp [eval, h, hs]

/-- `(mask_n << s)` without truncation -/
theorem eval_maskShl (Γ chk ρ) (W : ITy) (n s : Nat) (se : Expr) (hs : W.signed = false)
    (hse : eval Γ chk ρ se = .ok (.int .usize s)) (hn : n < W.bits) (hfit : s + n ≤ W.bits) (hn0 : 0 < n) :
    eval Γ chk ρ (.bin .shl (maskE W n) se) = .ok (.int W ((2 ^ n - 1) <<< s)) := by
  have hsW : s < W.bits := by omega
  have hlt : (2 ^ n - 1) <<< s < 2 ^ W.bits :=
    shiftLeft_lt_two_pow (by have := Nat.two_pow_pos n; omega) hfit
  exact eval_shl_int Γ chk ρ _ _ W _ s (eval_maskE Γ chk ρ W n hs hn) hse hsW hlt

/-- the single-range template `(raw & !(mask << s)) | (arg << s)` -/
theorem eval_singleTemplate (Γ chk) (ρ : Env) (W : ITy) (raw v n s : Nat) (se argE : Expr)
    (hraw : ρ.raw = .int W raw) (hs : W.signed = false)
    (hse : eval Γ chk ρ se = .ok (.int .usize s)) (harg : eval Γ chk ρ argE = .ok (.int W v))
    (hn : n < W.bits) (hfit : s + n ≤ W.bits) (hn0 : 0 < n) (hv : v < 2 ^ n) :
    eval Γ chk ρ (.bin .or (.bin .and (.var .raw) (.not (.bin .shl (maskE W n) se))) (.bin .shl argE se))
      = .ok (.int W ((raw &&& (2 ^ W.bits - 1 - (2 ^ n - 1) <<< s)) ||| (v <<< s))) := by
  have hsW : s < W.bits := by omega
  have hm := eval_maskShl Γ chk ρ W n s se hs hse hn hfit hn0
  have hnm := eval_not_int Γ chk ρ _ W _ hs hm
  have hvfit : v <<< s < 2 ^ W.bits := shiftLeft_lt_two_pow hv hfit
  exact eval_or_int Γ chk ρ _ _ W _ _
    (eval_and_int Γ chk ρ _ _ W _ _ (eval_var_raw Γ chk ρ _ hraw) hnm)
    (eval_shl_int Γ chk ρ _ _ W v s harg hse hsW hvfit)

theorem scatterResult_single (W raw v off lo n : Nat) (hv : v < 2 ^ n) :
    scatterResult W raw v off [⟨lo, n⟩] = (raw &&& (2 ^ W - 1 - (2 ^ n - 1) <<< (lo + off))) ||| (v <<< (lo + off)) := by
  simp [scatterResult, maskBits, scatterBits, field, Nat.mod_eq_of_lt hv]

/-- the bool templates `raw | (1 << s)` and `raw & !(1 << s)` -/
theorem eval_boolSet (Γ chk) (ρ : Env) (W : ITy) (raw s : Nat) (se : Expr)
    (hraw : ρ.raw = .int W raw) (hs : W.signed = false)
    (hse : eval Γ chk ρ se = .ok (.int .usize s)) (hsW : s < W.bits) :
    eval Γ chk ρ (.bin .or (.var .raw) (.bin .shl (one W) se)) = .ok (.int W (raw ||| 2 ^ s)) := by
  have hpow : 2 ^ s < 2 ^ W.bits := two_pow_lt_of_lt hsW
  simp [eval, eval_one, hse, Env.get, hraw, evalBin, hsW, Nat.one_shiftLeft, Nat.mod_eq_of_lt hpow]

theorem eval_boolClear (Γ chk) (ρ : Env) (W : ITy) (raw s : Nat) (se : Expr)
    (hraw : ρ.raw = .int W raw) (hs : W.signed = false)
    (hse : eval Γ chk ρ se = .ok (.int .usize s)) (hsW : s < W.bits) :
    eval Γ chk ρ (.bin .and (.var .raw) (.not (.bin .shl (one W) se))) = .ok (.int W (raw &&& (2 ^ W.bits - 1 - 2 ^ s))) := by
  have hpow : 2 ^ s < 2 ^ W.bits := two_pow_lt_of_lt hsW
  simp [eval, eval_one, hse, Env.get, hraw, evalBin, hsW, hs, Nat.one_shiftLeft, Nat.mod_eq_of_lt hpow]

/-- closed forms of the bool templates are the reference write of a one-bit value -/
theorem boolSet_eq_writeSpec (W raw lo off : Nat) (hraw : raw < 2 ^ W) (hfit : lo + off < W) :
    raw ||| 2 ^ (lo + off) = writeSpec W raw 1 off [⟨lo, 1⟩] := by
  have hlt : raw ||| 2 ^ (lo + off) < 2 ^ W := Nat.or_lt_two_pow hraw (two_pow_lt_of_lt hfit)
  unfold writeSpec
  apply eq_ofBitsBelow_of_testBit hlt
  intro p hp
  simp only [Nat.testBit_or, Nat.testBit_two_pow, written, Rng.covers]
  by_cases h : p = lo + off
  · subst h; simp
  · have h1 : ¬ (lo + off ≤ p ∧ p < lo + off + 1) := by omega
    have h2 : ¬ lo + off = p := by omega
    simp [h1, h2]

theorem boolClear_eq_writeSpec (W raw lo off : Nat) (hraw : raw < 2 ^ W) (hfit : lo + off < W) :
    raw &&& (2 ^ W - 1 - 2 ^ (lo + off)) = writeSpec W raw 0 off [⟨lo, 1⟩] := by
  have hlt : raw &&& (2 ^ W - 1 - 2 ^ (lo + off)) < 2 ^ W := Nat.lt_of_le_of_lt Nat.and_le_left hraw
  unfold writeSpec
  apply eq_ofBitsBelow_of_testBit hlt
  intro p hp
  simp only [Nat.testBit_and, testBit_compl (two_pow_lt_of_lt hfit), Nat.testBit_two_pow, written, Rng.covers, hp]
  by_cases h : p = lo + off
  · subst h; simp
  · have h1 : ¬ (lo + off ≤ p ∧ p < lo + off + 1) := by omega
    have h2 : ¬ lo + off = p := by omega
    simp [h1, h2]

/-- full-width replacement is the reference write of the whole register -/
theorem fullWidth_eq_writeSpec (W raw v : Nat) (hv : v < 2 ^ W) : v = writeSpec W raw v 0 [⟨0, W⟩] := by
  unfold writeSpec
  apply eq_ofBitsBelow_of_testBit hv
  intro p hp
  simp [written, Rng.covers, hp]

/-! ### range lists -/

/-- per-range side conditions of the list templates -/
def ListOk (W : Nat) : List Rng → Nat → Prop
  | [], _ => True
  | r :: rs, t => 0 < r.len ∧ r.len < W ∧ r.lo + r.len ≤ W ∧ t < W ∧ ListOk W rs (t + r.len)

theorem eval_orAll_mask (Γ chk) (ρ : Env) (W : ITy) (hs : W.signed = false) :
    ∀ (rs : List Rng) (t : Nat) (acc : Expr) (a : Nat),
      eval Γ chk ρ acc = .ok (.int W a) → ListOk W.bits rs t →
      eval Γ chk ρ (orAll acc (rs.map (fun r => Expr.bin .shl (maskE W r.len) (usz r.lo))))
        = .ok (.int W (a ||| maskBits 0 rs)) := by
  intro rs
  induction rs with
  | nil => intro t acc a h _; simpa [orAll, maskBits] using h
  | cons r rs ih =>
    intro t acc a h hok
    obtain ⟨h0, h1, h2, _, h5⟩ := hok
    have hlo64 : r.lo < 2 ^ 64 := le_usize_of_le_bits (W := W) (by omega)
    have hm := eval_maskShl Γ chk ρ W r.len r.lo (usz r.lo) hs (eval_usz Γ chk ρ r.lo hlo64) h1 h2 h0
    have hacc : eval Γ chk ρ (.bin .or acc (.bin .shl (maskE W r.len) (usz r.lo)))
        = .ok (.int W (a ||| (2 ^ r.len - 1) <<< r.lo)) := eval_or_int Γ chk ρ _ _ W _ _ h hm
    have := ih (t + r.len) _ _ hacc h5
    simpa [List.map, orAll, maskBits, Nat.or_assoc] using this

theorem eval_setterMask (Γ chk) (ρ : Env) (W : ITy) (hs : W.signed = false) (rs : List Rng) (m : Expr)
    (hok : ListOk W.bits rs 0) (hm : setterMask W rs = some m) :
    eval Γ chk ρ m = .ok (.int W (maskBits 0 rs)) := by
  cases rs with
  | nil => simp [setterMask] at hm
  | cons r rs =>
    simp only [setterMask, List.map, Option.some.injEq] at hm
    subst hm
    obtain ⟨h0, h1, h2, _, h5⟩ := hok
    have hlo64 : r.lo < 2 ^ 64 := le_usize_of_le_bits (W := W) (by omega)
    have hm := eval_maskShl Γ chk ρ W r.len r.lo (usz r.lo) hs (eval_usz Γ chk ρ r.lo hlo64) h1 h2 h0
    have := eval_orAll_mask Γ chk ρ W hs rs (0 + r.len) _ _ hm h5
    simpa [maskBits] using this

theorem eval_newBitsTerm (Γ chk) (ρ : Env) (W : ITy) (hs : W.signed = false) (v : Nat) (r : Rng) (t : Nat)
    (htemp : ρ.temp = .int W v) (h0 : 0 < r.len) (h1 : r.len < W.bits) (h2 : r.lo + r.len ≤ W.bits) (ht : t < W.bits) :
    eval Γ chk ρ (.bin .shl (.bin .and (.bin .shr (.var .temp) (usz t)) (maskE W r.len)) (usz r.lo))
      = .ok (.int W (field v t r.len <<< r.lo)) := by
  have hlo : r.lo < W.bits := by omega
  have hlo64 : r.lo < 2 ^ 64 := lt_usize_of_lt_bits hlo
  have ht64 : t < 2 ^ 64 := lt_usize_of_lt_bits ht
  have hfit : field v t r.len <<< r.lo < 2 ^ W.bits := shiftLeft_lt_two_pow (field_lt _ _ _) h2
  simp only [eval, eval_usz Γ chk ρ t ht64, eval_usz Γ chk ρ r.lo hlo64, eval_maskE Γ chk ρ W r.len hs h1]
  simp [Env.get, htemp, evalBin, hs, ht, hlo, Nat.and_two_pow_sub_one_eq_mod, field] at *
  exact Nat.mod_eq_of_lt hfit

theorem eval_orAll_newBits (Γ chk) (ρ : Env) (W : ITy) (hs : W.signed = false) (v : Nat) (htemp : ρ.temp = .int W v) :
    ∀ (rs : List Rng) (t : Nat) (acc : Expr) (a : Nat),
      eval Γ chk ρ acc = .ok (.int W a) → ListOk W.bits rs t →
      eval Γ chk ρ (orAll acc (newBitsTerms W rs t)) = .ok (.int W (a ||| scatterBits v 0 rs t)) := by
  intro rs
  induction rs with
  | nil => intro t acc a h _; simpa [newBitsTerms, orAll, scatterBits] using h
  | cons r rs ih =>
    intro t acc a h hok
    obtain ⟨h0, h1, h2, h4, h5⟩ := hok
    have ht := eval_newBitsTerm Γ chk ρ W hs v r t htemp h0 h1 h2 h4
    have hacc : eval Γ chk ρ (.bin .or acc (.bin .shl (.bin .and (.bin .shr (.var .temp) (usz t)) (maskE W r.len)) (usz r.lo)))
        = .ok (.int W (a ||| field v t r.len <<< r.lo)) := eval_or_int Γ chk ρ _ _ W _ _ h ht
    have := ih (t + r.len) _ _ hacc h5
    simpa [newBitsTerms, orAll, scatterBits, Nat.or_assoc] using this

theorem eval_setterNewBits (Γ chk) (ρ : Env) (W : ITy) (hs : W.signed = false) (v : Nat) (htemp : ρ.temp = .int W v)
    (rs : List Rng) (nb : Expr) (hok : ListOk W.bits rs 0) (hnb : setterNewBits W rs = some nb) :
    eval Γ chk ρ nb = .ok (.int W (scatterBits v 0 rs 0)) := by
  cases rs with
  | nil => simp [setterNewBits, newBitsTerms] at hnb
  | cons r rs =>
    simp only [setterNewBits, newBitsTerms, Option.some.injEq] at hnb
    subst hnb
    obtain ⟨h0, h1, h2, h4, h5⟩ := hok
    have ht := eval_newBitsTerm Γ chk ρ W hs v r 0 htemp h0 h1 h2 h4
    have := eval_orAll_newBits Γ chk ρ W hs v htemp rs (0 + r.len) _ _ ht h5
    simpa [scatterBits] using this

theorem setterMask_isSome (W : ITy) (r : Rng) (rs : List Rng) : ∃ m, setterMask W (r :: rs) = some m := by
  simp [setterMask]
theorem setterNewBits_isSome (W : ITy) (r : Rng) (rs : List Rng) : ∃ m, setterNewBits W (r :: rs) = some m := by
  simp [setterNewBits, newBitsTerms]

end Bb
