import BitbybitModel.Macro.Bitfield
/-!
# Model of the argument list of `#[bitfield(…)]` (`BitfieldAttributes::parse` driven by `syn::meta::parser`)

`syn::meta::parser` reads a comma-separated list; for every element it parses a path, hands the rest of the input to
the closure and afterwards expects the end of the input or a comma – so whatever the closure leaves unconsumed makes
the attribute a syntax error.  The closure (`BitfieldAttributes::parse`):

* element 0: the path must be a single identifier – the base type;
* `default`: `:` or `=` must follow; then an integer literal (any radix, a leading `-` included) or an identifier is
  taken as the default; anything else is *left alone* (and then trips over the "expected `,`" of the caller), except
  that a literal which is not an integer (string, float, `true`…) is consumed by the failed attempt to read an integer
  literal – `default = "x"` is accepted and declares no default;
* `debug`: sets the flag;
* any other identifier or path: silently ignored.
-/
namespace Bb

/-- tokens after the path of one argument, as far as the closure distinguishes them -/
inductive ATok where
  | colon | eq
  /-- integer literal (radix prefixes, `_`, suffix already resolved to its value), possibly written with a leading `-` -/
  | int (v : Nat) (neg : Bool)
  /-- a literal that is not an integer: string, char, float, `true`, `false` -/
  | otherLit
  | ident (s : String)
  | other
  deriving Repr, DecidableEq, Inhabited

structure ArgSyn where
  /-- segments of the leading path (`[]`: no path could be read) -/
  path : List String
  rest : List ATok
  deriving Repr, DecidableEq, Inhabited

/-- a default as written: literal (possibly negative) or named constant -/
inductive DefaultWritten where
  | lit (v : Nat) (neg : Bool)
  | const (name : String)
  deriving Repr, DecidableEq, Inhabited

structure ArgState where
  base : Option String := none
  default : Option DefaultWritten := none
  debug : Bool := false
  deriving Repr, DecidableEq, Inhabited

/-- what `syn::meta::parser` does after the closure returns: end of this element, or a syntax error -/
def leftover (rest : List ATok) (st : ArgState) : Except Reject ArgState :=
  if rest.isEmpty then .ok st else .error (.error "expected `,`")

/-- `BitfieldAttributes::parse(meta, index)` followed by the caller's separator check -/
def parseArg (index : Nat) (a : ArgSyn) (st : ArgState) : Except Reject ArgState :=
  if a.path.isEmpty then .error (.error "expected a path") else
  if index = 0 then
    match a.path with
    | [id] => leftover a.rest { st with base := some id }
    | _ => .error (.error "expected ident")
  else if a.path = ["default"] then
    match a.rest with
    | t :: rest =>
      if t = .colon ∨ t = .eq then
        match rest with
        | .int v neg :: r => leftover r { st with default := some (.lit v neg) }
        -- the failed `LitInt` parse has consumed the literal; an identifier right after it is still taken
        | .otherLit :: .ident s :: r => leftover r { st with default := some (.const s) }
        | .otherLit :: r => leftover r st
        | .ident s :: r => leftover r { st with default := some (.const s) }
        | r => leftover r st
      else .error (.error "Expected `:` or `=` after `default`")
    | [] => .error (.error "Expected `:` or `=` after `default`")
  else if a.path = ["debug"] then leftover a.rest { st with debug := true }
  else leftover a.rest st

def parseArgsFrom : Nat → List ArgSyn → ArgState → Except Reject ArgState
  | _, [], st => .ok st
  | i, a :: as, st =>
    match parseArg i a st with
    | .ok st' => parseArgsFrom (i + 1) as st'
    | .error e => .error e

/-- the head of `bitfield()`: argument list → base identifier, default, debug flag.  `constVal` gives the value of a
    named constant of the base type (`none`: rustc cannot resolve the name). -/
def parseBitfieldArgs (constVal : String → Option Nat) (args : List ArgSyn) :
    Except Reject (String × Option DefaultSyn × Bool) :=
  if args.isEmpty then .error (.error "bitfield! No arguments given, but need at least a base data type") else
  match parseArgsFrom 0 args {} with
  | .error e => .error e
  | .ok st =>
    match st.base with
    | none => .error (.macroPanic "First argument must be the base data type")
    | some b =>
      match st.default with
      | none => .ok (b, none, st.debug)
      | some (.lit v false) => .ok (b, some (.lit v), st.debug)
      | some (.lit _ true) => .error (.error "cannot apply unary operator `-` to an unsigned type (rustc E0600)")
      | some (.const s) =>
        match constVal s with
        | some v => .ok (b, some (.const v), st.debug)
        | none => .error (.error "cannot find value in this scope (rustc E0425)")

/-- a declaration as the macro receives it: argument list, item kind, name, fields -/
structure DeclTokens where
  name : String
  args : List ArgSyn
  isStruct : Bool := true
  fields : List FieldSyn
  deriving Repr, Inhabited

/-- the whole attribute macro: argument list, then `expand` -/
def expandDecl (resolve : List String → Nat) (types : Nat → Option CustomInfo) (constVal : String → Option Nat)
    (d : DeclTokens) : Except Reject Program :=
  match parseBitfieldArgs constVal d.args with
  | .error e => .error e
  | .ok (b, dflt, dbg) =>
    expand resolve types { name := d.name, baseIdent := b, default := dflt, debug := dbg, isStruct := d.isStruct, fields := d.fields }

end Bb
