import BitbybitModel.Macro.Decl
/-!
# Model of `bitbybit/src/bitenum.rs` and `bit_size.rs`
-/
namespace Bb

inductive Exhaustiveness where
  | tru | fls | conditional
  deriving Repr, DecidableEq, Inhabited

/-- value given after `exhaustive =` -/
inductive ExhVal where
  | litBool (b : Bool) | ident (s : String) | other
  deriving Repr, DecidableEq, Inhabited

/-- one argument of `#[bitenum(...)]` -/
inductive EnumArg where
  /-- `exhaustive <sep> <val>`; `sep = false` when neither `:` nor `=` follows -/
  | exhaustive (sep : Bool) (val : ExhVal)
  /-- any other path, e.g. `u3`, `arbitrary_int::u3`; `isIdent` = single segment without leading `::` -/
  | path (segs : List String) (isIdent : Bool)
  deriving Repr, DecidableEq, Inhabited

/-- discriminant of a variant as `parse_expr` sees it -/
inductive Discr where
  | missing
  | nonLit                 -- not an integer literal, or does not parse as u128
  | lit (n : Nat)          -- `base10_parse::<u128>()` succeeded: n < 2^128
  deriving Repr, DecidableEq, Inhabited

structure VariantSyn where
  name : String
  discr : Discr
  hasCfg : Bool := false       -- carries a `#[cfg(…)]` attribute
  cfgActive : Bool := true     -- whether that cfg holds (only read by the model of rustc's cfg-stripping)
  deriving Repr, DecidableEq, Inhabited

structure EnumSyn where
  name : String
  args : List EnumArg
  variants : List VariantSyn
  deriving Repr, Inhabited

/-- `Bits` -/
structure Bits where
  isIdent : Bool
  size : Nat
  deriving Repr, DecidableEq, Inhabited

structure Config where
  explicitBits : Option Bits := none
  explicitExhaustive : Option Exhaustiveness := none
  deriving Repr, DecidableEq, Inhabited

/-- `impl Parse for Exhaustive` -/
def parseExhaustive : ExhVal → Except Reject Exhaustiveness
  | .litBool true => .ok .tru
  | .litBool false => .ok .fls
  | .ident "conditional" => .ok .conditional
  | _ => .error (.error "The specified 'exhaustive' is invalid")

/-- `usize::from_str` also accepts a leading `+` -/
def stripPlus : List Char → List Char
  | '+' :: r => r
  | r => r

/-- `Config::parse` for one argument -/
def Config.parse (c : Config) : EnumArg → Except Reject Config
  | .exhaustive sep val =>
      if !sep then .error (.error "'exhaustive' should be specified as 'exhaustive = …'")
      else do let e ← parseExhaustive val; .ok { c with explicitExhaustive := some e }
  | .path segs isIdent =>
      match segs.getLast? with
      | none => .error (.error "Invalid attribute")
      | some value =>
        match value.toList with
        | 'u' :: rest =>
          match parseUsize (String.ofList (stripPlus rest)) with
          | some size => .ok { c with explicitBits := some { isIdent := isIdent, size := size } }
          | none => .error (.error "Invalid attribute")
        | _ => .error (.error "Invalid attribute")

def Config.parseAll : List EnumArg → Config → Except Reject Config
  | [], c => .ok c
  | a :: as, c => do let c' ← c.parse a; Config.parseAll as c'

/-- `Exhaustive::matches` -/
def Exhaustiveness.matches (k : Exhaustiveness) (expected : Bool) : Bool :=
  match k, expected with
  | .tru, false => false
  | .fls, true => false
  | _, _ => true

/-- `Bits::base_type`: width of the native type, or an error -/
def Bits.baseType (b : Bits) : Except Reject ITy :=
  if 1 ≤ b.size ∧ b.size ≤ 8 then .ok .u8
  else if 9 ≤ b.size ∧ b.size ≤ 16 then .ok .u16
  else if 17 ≤ b.size ∧ b.size ≤ 32 then .ok .u32
  else if 33 ≤ b.size ∧ b.size ≤ 64 then .ok .u64
  else .error (.error "The specified storage size is invalid, valid is in range 1..=64")

/-- `Bits::is_arbitrary_int` -/
def Bits.isArbitraryInt (b : Bits) : Bool :=
  !(b.size == 8 || b.size == 16 || b.size == 32 || b.size == 64) && b.isIdent

/-- `check_explicit_exhaustive`, the loop over the variants: running maximum discriminant -/
def maxDiscr : List VariantSyn → Nat → Except Reject Nat
  | [], m => .ok m
  | v :: vs, m =>
    match v.discr with
    | .missing => .error (.error "All variants of a #[bitenum] must have an explicit literal discriminant")
    | .nonLit => .error (.error "Discriminants must be literal integers")
    | .lit value => maxDiscr vs (if value > m then value else m)

/-- the checks of `bitenum()` up to the point where the expansion is produced -/
structure EnumDef where
  bits : Bits
  baseType : ITy
  exhaustive : Exhaustiveness
  variants : List VariantSyn
  deriving Repr, DecidableEq, Inhabited

/-- `bitenum()` after the attribute arguments have been parsed: the three checks and the storage type
    (written with explicit matches, in the order of the Rust code) -/
def bitenumCore (config : Config) (variants : List VariantSyn) : Except Reject EnumDef :=
  -- Config::explicit
  match config.explicitBits with
  | none => .error (.error "Missing the storage type")
  | some bits =>
  let exhaustive := config.explicitExhaustive.getD .fls
  -- check_explicit_conditional
  if variants.any (·.hasCfg) = true ∧ exhaustive ≠ .conditional then
    .error (.error "The enum contains at least one variant with a '#[cfg(…)]' attribute")
  -- check_explicit_exhaustive: `1_u128 << size`
  else if bits.size ≥ 128 then .error (.macroPanic "attempt to shift left with overflow")
  else if variants.length > 2 ^ bits.size ∧ exhaustive ≠ .conditional then
    .error (.error "The enum has more variants than can be stored in the provided storage type")
  else if exhaustive.matches (decide (variants.length = 2 ^ bits.size)) = false then
    .error (.error "exhaustive claim does not match the number of variants")
  else match maxDiscr variants 0 with
  | .error r => .error r
  | .ok m =>
  if m ≥ 2 ^ bits.size then .error (.error "The largest discriminant value is larger than can be stored")
  else match bits.baseType with
  | .error r => .error r
  | .ok baseType =>
  -- a non-ident path to an arbitrary-int type yields an expansion that does not type-check
  if bits.isIdent = false ∧ (bits.size == 8 || bits.size == 16 || bits.size == 32 || bits.size == 64) = false then
    .error (.error "ill-typed expansion: raw_value() returns the native type for a qualified arbitrary-int path")
  else .ok { bits := bits, baseType := baseType, exhaustive := exhaustive, variants := variants }

def bitenumCheck (e : EnumSyn) : Except Reject EnumDef := do
  let config ← Config.parseAll e.args {}
  bitenumCore config e.variants

/-! ### the generated conversions -/

/-- the variants that survive rustc's cfg-stripping, with their discriminants -/
def VariantSyn.activeEntry (v : VariantSyn) : Option (String × Nat) :=
  match v.discr with
  | .lit n => if !v.hasCfg || v.cfgActive then some (v.name, n) else none
  | _ => none

def EnumDef.active (d : EnumDef) : List (String × Nat) := d.variants.filterMap VariantSyn.activeEntry

/-- `non_exhaustive = config.exhaustive.matches(false)` -/
def EnumDef.nonExhaustive (d : EnumDef) : Bool := d.exhaustive.matches false

/-- result of the generated `match value { (d0) => …, …, default }`: the first arm whose pattern equals `x` -/
inductive NewResult where
  | variant (name : String)      -- `Self::V` (exhaustive) or `Ok(Self::V)`
  | err (x : Nat)                -- `Err(value)`
  | unreachable                  -- `unreachable!()` – a panic
  deriving Repr, DecidableEq, Inhabited

def EnumDef.newWithRawValue (d : EnumDef) (x : Nat) : NewResult :=
  match d.active.find? (fun p => p.2 == x) with
  | some (name, _) => .variant name
  | none => if d.nonExhaustive then .err x else .unreachable

/-- `raw_value()`: `UInt::new(self as base)` / `self as base`; `none` = the `UInt::new` assertion panics -/
def EnumDef.rawValue (d : EnumDef) (name : String) : Option Nat :=
  match d.active.find? (fun p => p.1 == name) with
  | some (_, n) =>
    let asBase := n % 2 ^ d.baseType.bits
    if d.bits.isArbitraryInt then (if asBase < 2 ^ d.bits.size then some asBase else none)
    else some asBase
  | none => none

end Bb
