import BitbybitModel.Macro.Parse
import BitbybitModel.Macro.Builder
/-!
# Model of `bitbybit/src/bitfield/mod.rs`: base type, struct-level items, the whole expansion
-/
namespace Bb
open Expr BinOp

inductive DefaultSyn where
  | lit (n : Nat)          -- integer literal (value)
  | const (n : Nat)        -- named constant of the base type (value)
  deriving Repr, DecidableEq, Inhabited

structure DeclSyn where
  name : String
  baseIdent : String
  default : Option DefaultSyn := none
  debug : Bool := false
  isStruct : Bool := true
  docs : Nat := 0
  fields : List FieldSyn
  deriving Repr, Inhabited

/-- base type recognition in `bitfield()` -/
def baseOf (s : String) : Option Base :=
  if s = "u8" then some (Base.new 8) else if s = "u16" then some (Base.new 16)
  else if s = "u32" then some (Base.new 32) else if s = "u64" then some (Base.new 64)
  else if s = "u128" then some (Base.new 128)
  else (tryParseArbitraryIntType s).map Base.new

def Base.isArbitrary (B : Base) : Bool := B.exposed ≠ B.internal

/-- `parsing::parse` -/
def parseFields (resolve : List String → Nat) (B : Base) : List FieldSyn → Except Reject (List FieldDef)
  | [] => .ok []
  | f :: fs => do
    let d ← parseField resolve B.exposed f
    let ds ← parseFields resolve B fs
    .ok (d :: ds)

/-- body of `raw_value()` -/
def rawValueBody (B : Base) : Expr :=
  if B.isArbitrary then .extract B.W B.exposed (.var .raw) (usz 0) else .var .raw

/-- `raw_value` of the struct built by `new_with_raw_value(value)` -/
def newWithRawBody (B : Base) : Expr :=
  if B.isArbitrary then .uintValue (.var .value) else .var .value

/-- the argument of `Self::new_with_raw_value(…)` in `ZERO` -/
def zeroArg (B : Base) : Expr :=
  if B.isArbitrary then .uintNew B.exposed (.lit B.W 0) else .lit B.W 0

/-- `DEFAULT_RAW_VALUE` -/
def defaultRawValue (B : Base) (d : Nat) : Expr :=
  if B.isArbitrary then .uintNew B.exposed (.lit B.W d) else .lit B.W d

/-- how a generated function is to be read -/
inductive ItemKind where
  | assocConst | method | setter | traitMethod | structDef | builderStep | build
  deriving Repr, DecidableEq, Inhabited

/-- one generated item, as far as the API-surface properties (C15, C17, C18) talk about it -/
structure Item where
  kind : ItemKind
  name : String
  isPub : Bool
  isConst : Bool
  hasDoc : Bool
  /-- the field this accessor belongs to, if any -/
  field : Option String := none
  deriving Repr, DecidableEq, Inhabited

/-- strip a leading `r#` (`with_name` / `setter_name`) -/
def stripRaw (s : String) : String :=
  match s.toList with
  | 'r' :: '#' :: rest => String.ofList rest
  | _ => s

def accessorItems (fd : FieldDef) : List Item :=
  (if fd.getter then [{ kind := .method, name := fd.name, isPub := true, isConst := true, hasDoc := fd.docs > 0, field := some fd.name }] else []) ++
  (if fd.setter then
    [{ kind := .method, name := "with_" ++ stripRaw fd.name, isPub := true, isConst := true, hasDoc := fd.docs > 0, field := some fd.name },
     { kind := .setter, name := "set_" ++ stripRaw fd.name, isPub := true, isConst := false, hasDoc := fd.docs > 0, field := some fd.name }]
   else [])

/-- the whole expansion of one `#[bitfield]` -/
structure Program where
  name : String
  base : Base
  fields : List FieldDef
  default : Option Nat
  debug : Bool
  builder : Option (List BuilderStep × Nat)
  items : List Item
  deriving Repr, Inhabited

def structItems (d : DeclSyn) (fds : List FieldDef) (builder : Option (List BuilderStep × Nat)) : List Item :=
  [{ kind := .assocConst, name := "ZERO", isPub := true, isConst := true, hasDoc := true }] ++
  (if d.default.isSome then
    [{ kind := .assocConst, name := "DEFAULT_RAW_VALUE", isPub := false, isConst := true, hasDoc := false },
     { kind := .assocConst, name := "DEFAULT", isPub := true, isConst := true, hasDoc := true },
     { kind := .method, name := "new", isPub := true, isConst := true, hasDoc := true }] else []) ++
  [{ kind := .method, name := "raw_value", isPub := true, isConst := true, hasDoc := true },
   { kind := .method, name := "new_with_raw_value", isPub := true, isConst := true, hasDoc := true }] ++
  (if builder.isSome then [{ kind := .method, name := "builder", isPub := true, isConst := true, hasDoc := true }] else []) ++
  (fds.map accessorItems).flatten ++
  (if d.default.isSome then [{ kind := .traitMethod, name := "default", isPub := true, isConst := false, hasDoc := true }] else []) ++
  (if d.debug then [{ kind := .traitMethod, name := "fmt", isPub := true, isConst := false, hasDoc := true }] else []) ++
  (match builder with
   | none => []
   | some (steps, _) =>
     [{ kind := .structDef, name := "Partial" ++ d.name, isPub := true, isConst := false, hasDoc := true }] ++
     steps.map (fun s => { kind := .builderStep, name := "with_" ++ stripRaw s.field.name, isPub := true, isConst := true,
                           hasDoc := s.field.docs > 0, field := some s.field.name }) ++
     [{ kind := .build, name := "build", isPub := true, isConst := true, hasDoc := true }])

/-- what rustc's type checker needs to know about a user type used as a field type -/
structure CustomInfo where
  /-- the argument type of `new_with_raw_value` / result type of `raw_value`: `(true, n)` = native `u{n}`,
      `(false, n)` = `arbitrary_int::u{n}` -/
  rawNative : Bool
  rawBits : Nat
  /-- `new_with_raw_value` returns `Result<Self, _>` (non-exhaustive bitenum) -/
  newReturnsResult : Bool
  deriving Repr, DecidableEq, Inhabited

/-- rustc's type check of the generated conversion code for a custom-typed field: the extracted bits
    must have the type's raw type, and `Option<T>` (getter type `Result<T, prim>`) must be used exactly
    when `T::new_with_raw_value` returns a `Result`. -/
def customTypeChecks (types : Nat → Option CustomInfo) (fd : FieldDef) : Bool :=
  match fd.custom with
  | none => true
  | some c =>
    match types c.ty with
    | none => false
    | some info =>
      (if fd.useRegularInt then info.rawNative && info.rawBits == fd.primitiveType.bits
       else !info.rawNative && info.rawBits == fd.totalBits) &&
      (info.newReturnsResult == c.isOption || (!fd.getter))

def DefaultSyn.val : DefaultSyn → Nat
  | .lit n => n
  | .const n => n

/-- `const DEFAULT_RAW_VALUE: uN = …` must be representable (rustc: overflowing literal / const panic) -/
def defaultTooLarge (B : Base) : Option Nat → Bool
  | some v => decide (v ≥ 2 ^ B.exposed)
  | none => false

/-- `bitfield()`; `resolve` numbers the custom types (see `parseField`), `types` describes them -/
def expand (resolve : List String → Nat) (types : Nat → Option CustomInfo) (d : DeclSyn) : Except Reject Program := do
  let B ← (match baseOf d.baseIdent with
    | some b => .ok b
    | none => .error (.error "Supported values for base data type are u8, u16, u32, u64, u128") : Except Reject Base)
  if !d.isStruct then .error (.macroPanic "Must be used on struct") else
  let fds ← parseFields resolve B d.fields
  -- codegen::generate: every accessor template must be produced (a failing assert_eq! is a macro panic)
  if fds.any (fun fd => (fd.getter && (getterBody B fd).isNone) || (fd.setter && (setterBody B fd).isNone)) then
    .error (.macroPanic "assertion failed in codegen")
  else
  if fds.any (fun fd => !customTypeChecks types fd) then
    .error (.error "custom field type does not match the field width / Option usage (rustc E0308)")
  else
  -- debug: `.field(stringify!(f), &self.f())` for every field; a missing or indexed getter does not type-check
  if d.debug ∧ fds.any (fun fd => !fd.getter || fd.array.isSome) then
    .error (.error "debug: getter missing or indexed (rustc E0599/E0061)")
  else
  let defaultVal : Option Nat := d.default.map DefaultSyn.val
  if defaultTooLarge B defaultVal then
    .error (.error "default value does not fit the base type (rustc)")
  else
  match makeBuilder B d.default.isSome fds with
  | .panic => .error (.macroPanic "overflow in make_builder")
  | .none =>
    .ok { name := d.name, base := B, fields := fds, default := defaultVal, debug := d.debug, builder := none,
          items := structItems d fds none }
  | .chain steps final =>
    .ok { name := d.name, base := B, fields := fds, default := defaultVal, debug := d.debug,
          builder := some (steps, final), items := structItems d fds (some (steps, final)) }

end Bb

namespace Bb

/-- the `Debug` impl: `f.debug_struct(stringify!(Name)).field(stringify!(f), &self.f())….finish()` – struct name and
    the field names in emission order; `none` when the `debug` option is absent -/
def debugImpl (p : Program) : Option (String × List String) :=
  if p.debug then some (p.name, p.fields.map (·.name)) else none

/-- every path (as its segments) that the templates of `mod.rs` / `codegen.rs` emit, besides user-supplied types;
    a leading `""` stands for a leading `::` -/
def programPaths (p : Program) : List (List String) :=
  [["Self"], ["Self", "new_with_raw_value"], ["Self", "DEFAULT"], ["Self", "DEFAULT_RAW_VALUE"]] ++
  (if p.base.isArbitrary then [["arbitrary_int", "u" ++ toString p.base.exposed]] else []) ++
  (p.fields.filter (fun fd => !fd.useRegularInt && fd.fieldTypeSize ≠ 0)).map (fun fd => ["arbitrary_int", "u" ++ toString fd.totalBits]) ++
  (if p.debug then [["", "core", "fmt", "Debug"], ["", "core", "fmt", "Formatter"], ["", "core", "fmt", "Result"]] else []) ++
  (if p.default.isSome then [["Default"]] else [])

/-- the arguments of the builder chain: one value per scalar step, `count` values per array step -/
inductive BuilderArg where
  | scalar (fv : Val) (v : Nat)
  | array (elems : List (Val × Nat))

end Bb
