import BitbybitModel.Macro.Codegen
/-!
# Model of `make_builder` and `ranges_have_self_overlap` (`codegen.rs:331-482`)

The macro's own `u128` arithmetic is checked arithmetic; `none` from a mask function = the macro panics.
-/
namespace Bb

/-- `((1u128 << len) - 1) << shift` with overflow checks on the shift amounts -/
def mask128 (len shift : Nat) : Option Nat :=
  if len ≥ 128 ∨ shift ≥ 128 then none else some (((2 ^ len - 1) <<< shift) % 2 ^ 128)

/-- inner `for range in ranges` of `ranges_have_self_overlap` for element `i`:
    `some (true, _)` = overlap found, `some (false, mask')` = continue with the new mask, `none` = panic -/
def overlapRanges (stride i : Nat) : List Rng → Nat → Option (Bool × Nat)
  | [], mask => some (false, mask)
  | r :: rs, mask =>
    match mask128 r.len (r.lo + i * stride) with
    | none => none
    | some bits => if bits &&& mask ≠ 0 then some (true, mask) else overlapRanges stride i rs (mask ||| bits)

/-- outer `for i in 0..array_length`, `i` counting up from `i0` for `n` more elements -/
def overlapLoop (ranges : List Rng) (stride : Nat) : Nat → Nat → Nat → Option Bool
  | 0, _, _ => some false
  | n + 1, i, mask =>
    match overlapRanges stride i ranges mask with
    | none => none
    | some (true, _) => some true
    | some (false, mask') => overlapLoop ranges stride n (i + 1) mask'

/-- `ranges_have_self_overlap(ranges, array_stride, array_length)` -/
def rangesHaveSelfOverlap (ranges : List Rng) (stride length : Nat) : Option Bool :=
  overlapLoop ranges stride length 0 0

/-- `ranges.iter().fold(0u128, |a, range| a | (((1u128 << range.len()) - 1) << (range.start + off)))` -/
def foldMask (off : Nat) : List Rng → Nat → Option Nat
  | [], a => some a
  | r :: rs, a => match mask128 r.len (r.lo + off) with
    | none => none
    | some m => foldMask off rs (a ||| m)

/-- mask of an array field: elements `i0 … i0+n-1` -/
def arrayMask (ranges : List Rng) (stride : Nat) : Nat → Nat → Nat → Option Nat
  | 0, _, mask => some mask
  | n + 1, i, mask => match foldMask (i * stride) ranges 0 with
    | none => none
    | some m => arrayMask ranges stride n (i + 1) (mask ||| m)

/-- outcome of computing one field's mask: `macroPanic`, `noBuilder` (self overlap) or the mask -/
inductive FieldMask where
  | panic | selfOverlap | mask (m : Nat)
  deriving Repr, DecidableEq, Inhabited

def fieldMask (fd : FieldDef) : FieldMask :=
  match fd.array with
  | some (count, stride) =>
    match rangesHaveSelfOverlap fd.ranges stride count with
    | none => .panic
    | some true => .selfOverlap
    | some false => match arrayMask fd.ranges stride count 0 0 with
      | none => .panic | some m => .mask m
  | none =>
    match fd.ranges with
    | [r] => if r.len = 128 then .mask (2 ^ 128 - 1)
             else match mask128 r.len r.lo with | none => .panic | some m => .mask m
    | rs =>
      match rangesHaveSelfOverlap rs 0 1 with
      | none => .panic
      | some true => .selfOverlap
      | some false => match foldMask 0 rs 0 with | none => .panic | some m => .mask m

/-- one `impl Partial<prev> { fn with_f(value) -> Partial<next> }` block -/
structure BuilderStep where
  field : FieldDef
  prevMask : Nat
  nextMask : Nat
  deriving Repr, DecidableEq, Inhabited

inductive BuilderResult where
  | panic
  | none                                  -- `(quote!{}, Vec::new())`: no builder offered
  | chain (steps : List BuilderStep) (finalMask : Nat)
  deriving Repr, DecidableEq, Inhabited

/-- the `for field_definition in field_definitions` loop -/
def builderLoop : List FieldDef → Nat → List BuilderStep → BuilderResult
  | [], running, acc => .chain acc.reverse running
  | fd :: fds, running, acc =>
    if fd.setter then
      match fieldMask fd with
      | .panic => .panic
      | .selfOverlap => .none
      | .mask m =>
        if running &&& m ≠ 0 then .none
        else builderLoop fds (running ||| m) ({ field := fd, prevMask := running, nextMask := running ||| m } :: acc)
    else builderLoop fds running acc

/-- number of set bits among the low 128 (`u128::count_ones`) -/
def popCount : Nat → Nat → Nat
  | 0, _ => 0
  | k + 1, m => (if m.testBit k then 1 else 0) + popCount k m

/-- `make_builder` -/
def makeBuilder (B : Base) (hasDefault : Bool) (fds : List FieldDef) : BuilderResult :=
  match builderLoop fds 0 [] with
  | .chain steps running =>
    if popCount 128 running ≠ B.exposed ∧ !hasDefault then .none else .chain steps running
  | r => r

end Bb
