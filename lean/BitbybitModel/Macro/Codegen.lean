import BitbybitModel.Macro.Decl
/-!
# Model of `bitbybit/src/bitfield/codegen.rs` (accessor templates)

Each function mirrors the Rust function of the same name and returns the `Expr` the `quote!` template
denotes. `none` stands for a failing `assert_eq!` inside the macro (a macro panic).
Unsuffixed literals are given the type Rust infers for them (`0` in `!= 0` is the base type, `0` as the
`start_bit` argument is `usize`); `quote!` interpolates `usize` values as `usize`-suffixed literals.
-/
namespace Bb
open Expr BinOp

/-- `1u{internal}` -/
def one (W : ITy) : Expr := .lit W 1
/-- an interpolated `usize` value -/
def usz (n : Nat) : Expr := .lit .usize n

/-- `((#one << #number_of_bits) - #one)` -/
def maskE (W : ITy) (n : Nat) : Expr := .bin .sub (.bin .shl (one W) (usz n)) (one W)

/-- `#lowest_bit #array_shift`, i.e. `lo` or `lo + index * stride` -/
def shiftE (lo : Nat) : Option Nat → Expr
  | none => usz lo
  | some s => .bin .add (usz lo) (.bin .mul (.var .index) (usz s))

/-- `(((self.raw_value >> (lo #array_shift)) & mask) << tgt)` -/
def packedTerm (W : ITy) (stride : Option Nat) (r : Rng) (tgt : Nat) : Expr :=
  .bin .shl (.bin .and (.bin .shr (.var .raw) (shiftE r.lo stride)) (maskE W r.len)) (usz tgt)

/-- the `scan` in `getter_packed`: terms with the running target bit -/
def packedTerms (W : ITy) (stride : Option Nat) : List Rng → Nat → List Expr
  | [], _ => []
  | r :: rs, tgt => packedTerm W stride r tgt :: packedTerms W stride rs (tgt + r.len)

/-- `( e0 | e1 | … )` left associated, as `#(#expressions)|*` parses -/
def orAll : Expr → List Expr → Expr
  | acc, [] => acc
  | acc, e :: es => orAll (.bin .or acc e) es

/-- `getter_packed` (an empty list would expand to `()`, which does not type-check: `none`) -/
def getterPacked (W : ITy) (stride : Option Nat) (rs : List Rng) : Option Expr :=
  match packedTerms W stride rs 0 with
  | [] => none
  | e :: es => some (orAll e es)

def FieldDef.stride (fd : FieldDef) : Option Nat := fd.array.map (·.2)
def FieldDef.totalBits (fd : FieldDef) : Nat := fd.ranges.foldl (fun a r => a + r.len) 0

/-- `extracted_bits` -/
def extractedBits (B : Base) (fd : FieldDef) : Option Expr :=
  let W := B.W
  let stride := fd.stride
  if fd.fieldTypeSize = BITCOUNT_BOOL then
    match fd.ranges with
    | [r] => some (.bin .ne (.bin .and (.var .raw) (.bin .shl (one W) (shiftE r.lo stride))) (.lit W 0))
    | _ => none
  else if fd.useRegularInt then
    match fd.ranges with
    | [r] =>
      if r.len = B.internal then
        (if r.lo = 0 then some (.cast (.var .raw) fd.primitiveType) else none)
      else (getterPacked W stride fd.ranges).map (fun p => .cast p fd.primitiveType)
    | _ => (getterPacked W stride fd.ranges).map (fun p => .cast p fd.primitiveType)
  else
    match fd.ranges with
    | [r] => some (.extract W fd.totalBits (.var .raw) (shiftE r.lo stride))
    | _ => (getterPacked W stride fd.ranges).map (fun p => .extract W fd.totalBits p (usz 0))

/-- body of the getter: `assert!(index < K)` for arrays, then the custom-type conversion if any -/
def getterBody (B : Base) (fd : FieldDef) : Option Expr :=
  (extractedBits B fd).map fun eb =>
    let converted := match fd.custom with
      | none => eb
      | some c => .letE .extracted eb (.customNew c.ty (.var .extracted))
    match fd.array with
    | some (count, _) => .assertE (.bin .lt (.var .index) (usz count)) converted
    | none => converted

/-- `argument_converted` -/
def argumentConverted (fd : FieldDef) : Expr :=
  match fd.custom with
  | none =>
    if fd.useRegularInt then
      match fd.unsignedFieldType with
      | some u => .cast (.var .fieldValue) u
      | none => .var .fieldValue
    else .uintValue (.var .fieldValue)
  | some _ =>
    if fd.useRegularInt then .customRaw (.var .fieldValue)
    else .uintValue (.customRaw (.var .fieldValue))

/-- `setter_new_bits` -/
def newBitsTerms (W : ITy) : List Rng → Nat → List Expr
  | [], _ => []
  | r :: rs, t =>
    .bin .shl (.bin .and (.bin .shr (.var .temp) (usz t)) (maskE W r.len)) (usz r.lo) :: newBitsTerms W rs (t + r.len)

def setterNewBits (W : ITy) (rs : List Rng) : Option Expr :=
  match newBitsTerms W rs 0 with
  | [] => none
  | e :: es => some (orAll e es)

/-- `setter_mask` -/
def setterMask (W : ITy) (rs : List Rng) : Option Expr :=
  match rs.map (fun r => Expr.bin .shl (maskE W r.len) (usz r.lo)) with
  | [] => none
  | e :: es => some (orAll e es)

/-- `setter_new_raw_value` (Rust precedence: `a & b | c` is `(a & b) | c`) -/
def setterNewRawValue (B : Base) (fd : FieldDef) : Option Expr :=
  let W := B.W
  let arg := argumentConverted fd
  match fd.array with
  | some (_, stride) =>
    if fd.fromDataType = some BITCOUNT_BOOL then
      match fd.ranges with
      | [r] => some (.letE .effIndex (.bin .add (usz r.lo) (.bin .mul (.var .index) (usz stride)))
          (.ite arg (.bin .or (.var .raw) (.bin .shl (one W) (.var .effIndex)))
                    (.bin .and (.var .raw) (.not (.bin .shl (one W) (.var .effIndex))))))
      | _ => none
    else match fd.ranges with
      | [r] => some (.letE .effIndex (.bin .add (usz r.lo) (.bin .mul (.var .index) (usz stride)))
          (.bin .or (.bin .and (.var .raw) (.not (.bin .shl (maskE W r.len) (.var .effIndex))))
                    (.bin .shl (.cast arg W) (.var .effIndex))))
      | rs =>
        match setterMask W rs, setterNewBits W rs with
        | some m, some nb =>
          let sh := Expr.bin .mul (.var .index) (usz stride)
          some (.letE .temp (.cast arg W) (.letE .constMask m
            (.bin .or (.bin .and (.var .raw) (.not (.bin .shl (.var .constMask) sh))) (.bin .shl nb sh))))
        | _, _ => none
  | none =>
    if fd.fromDataType = some BITCOUNT_BOOL then
      match fd.ranges with
      | [r] => some (.ite arg (.bin .or (.var .raw) (.bin .shl (one W) (usz r.lo)))
                              (.bin .and (.var .raw) (.not (.bin .shl (one W) (usz r.lo)))))
      | _ => none
    else match fd.ranges with
      | [r] =>
        if r.len = B.internal then (if r.lo = 0 then some (.cast arg W) else none)
        else some (.bin .or (.bin .and (.var .raw) (.not (.bin .shl (maskE W r.len) (usz r.lo))))
                            (.bin .shl (.cast arg W) (usz r.lo)))
      | rs =>
        match setterMask W rs, setterNewBits W rs with
        | some m, some nb =>
          some (.letE .temp (.cast arg W) (.letE .constMask (.not m)
            (.bin .or (.bin .and (.var .raw) (.var .constMask)) nb)))
        | _, _ => none

/-- body of `with_f` / `set_f`: the new `raw_value` (with the index assertion for arrays). `with_f` returns
    `Self { raw_value: e }`, `set_f` performs `self.raw_value = e`: the same expression. -/
def setterBody (B : Base) (fd : FieldDef) : Option Expr :=
  (setterNewRawValue B fd).map fun e =>
    match fd.array with
    | some (count, _) => .assertE (.bin .lt (.var .index) (usz count)) e
    | none => e

end Bb

namespace Bb
/-- body of `with_f`: `Self { raw_value: #new_raw_value }` -/
def withBody (B : Base) (fd : FieldDef) : Option Expr := setterBody B fd
/-- body of `set_f`: `self.raw_value = #new_raw_value;` – the macro interpolates the same token stream twice -/
def setBody (B : Base) (fd : FieldDef) : Option Expr := setterBody B fd
end Bb
