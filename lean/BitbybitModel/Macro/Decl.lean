import BitbybitModel.Rust.Expr
/-!
# Abstract syntax of a `#[bitfield]` declaration as the macro sees it, and the macro's internal records

`syn`'s parsing of Rust syntax is abstracted: an attribute is its name, delimiter and token trees; a field
type is its path segments (plus the generic argument of a trailing `Option<…>`), an array type is its
element type and literal length.
-/
namespace Bb

/-- proc_macro2 token trees of an attribute's argument list. `..=` is three puncts. -/
inductive Tok where
  /-- a literal token; `val` is what `lit.to_string().parse::<usize>()` yields (`parse_literal_number`):
      `none` for text that is not a plain decimal `usize` (hex, suffixed, too large, …) -/
  | lit (val : Option Nat)
  | punct (c : Char)
  | ident (s : String)
  | group (delim : Char) (ts : List Tok)
  deriving Repr, Inhabited

structure Attr where
  name : String            -- first path segment: "bit", "bits", "doc", …
  isList : Bool := true    -- `#[name(...)]` (false: `#[name]` or `#[name = …]`)
  delim : Char := '('
  toks : List Tok := []
  deriving Repr, Inhabited

/-- a field type without the array wrapper -/
structure TySyn where
  isPath : Bool := true
  segs : List String                     -- path segments (idents only)
  /-- generic arguments of the last segment: `none` = no `<…>`; `some l` = the listed type arguments -/
  lastArgs : Option (List (List String)) := none
  deriving Repr, Inhabited

structure FieldSyn where
  name : String
  ty : TySyn
  count : Option Nat := none    -- `[T; K]` with literal K
  attrs : List Attr
  deriving Repr, Inhabited

/-- half-open `start..end` as `std::ops::Range<usize>`; `len = end - start` -/
structure Rng where
  lo : Nat
  len : Nat
  deriving Repr, DecidableEq, Inhabited

/-- `BaseDataSize` -/
structure Base where
  internal : Nat     -- width of the `raw_value` field
  exposed : Nat      -- width exposed through raw_value() / new_with_raw_value()
  deriving Repr, DecidableEq, Inhabited

/-- `BaseDataSize::new` -/
def Base.new (size : Nat) : Base := { internal := storageOf size, exposed := size }

def Base.W (b : Base) : ITy := ITy.unsignedOf b.internal

/-- `CustomType::Yes(T)`: user type number and whether the field was declared `Option<T>` -/
structure CustomTy where
  ty : Nat
  isOption : Bool
  deriving Repr, DecidableEq, Inhabited

/-- `FieldDefinition` -/
structure FieldDef where
  name : String
  ranges : List Rng
  unsignedFieldType : Option ITy        -- `Some(uN)` for signed field types
  array : Option (Nat × Nat)            -- (count, stride)
  fieldTypeSize : Nat                   -- 0 = bool (BITCOUNT_BOOL)
  getter : Bool                         -- getter_type.is_some()
  setter : Bool                         -- setter_type.is_some()
  fromDataType : Option Nat             -- field_type_size_from_data_type
  useRegularInt : Bool
  /-- `primitive_type`: only meaningful when `useRegularInt` (then a native integer type) or for the
      error type of `Option<T>` fields -/
  primitiveType : ITy
  custom : Option CustomTy
  docs : Nat                            -- number of doc attributes
  deriving Repr, DecidableEq, Inhabited

/-- why the macro does not produce an expansion -/
inductive Reject where
  | error (msg : String)        -- `syn::Error` → `compile_error!`
  | macroPanic (msg : String)   -- the proc macro panics (`custom attribute panicked`)
  deriving Repr, DecidableEq, Inhabited

def BITCOUNT_BOOL : Nat := 0

/-- `is_int_size_regular_type` -/
def isIntSizeRegularType (size : Nat) : Bool :=
  size == BITCOUNT_BOOL || size == 8 || size == 16 || size == 32 || size == 64 || size == 128

/-- decimal digits only, as `str::parse::<usize>` accepts for a literal's text (no sign can occur) -/
def parseDigits (s : String) : Option Nat :=
  let cs := s.toList
  if cs.isEmpty then none
  else if cs.all Char.isDigit then some (cs.foldl (fun a c => a * 10 + (c.toNat - '0'.toNat)) 0)
  else none

/-- `str::parse::<usize>`: digits, value below 2^64 -/
def parseUsize (s : String) : Option Nat :=
  match parseDigits s with
  | some n => if n < 2 ^ 64 then some n else none
  | none => none

/-- the token for a literal whose text (`Literal::to_string()`) is `s`: `parse_literal_number` keeps the number
    `str::parse::<usize>` reads from it, if any -/
def Tok.ofLiteralText (s : String) : Tok := .lit (parseUsize s)

/-- `try_parse_arbitrary_int_type` -/
def tryParseArbitraryIntType (s : String) : Option Nat :=
  match s.toList with
  | 'u' :: rest =>
    if rest.isEmpty then none else
    -- `usize::from_str` also accepts a leading '+'
    let digits := match rest with | '+' :: r => r | r => r
    match parseUsize (String.ofList digits) with
    | some size => if 1 ≤ size ∧ size < 128 ∧ !isIntSizeRegularType size then some size else none
    | none => none
  | _ => none

end Bb
