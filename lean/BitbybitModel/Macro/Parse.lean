import BitbybitModel.Macro.Decl
/-!
# Model of `bitbybit/src/bitfield/parsing.rs`

Branch for branch: the `ArgumentParser` state machine, the `finished_argument` closure with its
`ranges_token` bookkeeping, and the validation in `parse_field`. The macro's own `usize` arithmetic is
checked arithmetic (an overflow is a macro panic, i.e. a rejection, as under the dev profile the
baseline builds the macro with).
-/
namespace Bb

/-- `enum ArgumentParser` -/
inductive AP where
  | reset | resetOnlyRangeAllowed
  | rangeGotLowerLimit (lo : Nat) | rangeGotFirstPeriod (lo : Nat) | rangeGotSecondPeriod (lo : Nat)
  | rangeGotEquals (lo : Nat) | rangeGotBothLimits (lo hi : Nat)
  | strideStarted | hasStrideEquals | strideComplete (s : Nat)
  | read | write | readWrite
  deriving Repr, DecidableEq, Inhabited

def errRange : Reject := .error "Invalid bit-range. Expected x..=y"
def errNumber : Reject := .error "Not a valid number in bitrange."

/-- `take_literal` -/
def AP.takeLiteral (st : AP) (lit : Option Nat) : Except Reject AP :=
  match st with
  | .reset | .resetOnlyRangeAllowed =>
      match lit with | some n => .ok (.rangeGotLowerLimit n) | none => .error errNumber
  | .rangeGotEquals lower =>
      match lit with | some n => .ok (.rangeGotBothLimits lower n) | none => .error errNumber
  | .hasStrideEquals =>
      match lit with | some n => .ok (.strideComplete n) | none => .error errNumber
  | _ => .error errRange

/-- `take_punct` -/
def AP.takePunct (st : AP) (c : Char) : Except Reject AP :=
  match st with
  | .rangeGotLowerLimit lower => if c = '.' then .ok (.rangeGotFirstPeriod lower) else .error errRange
  | .rangeGotFirstPeriod lower => if c = '.' then .ok (.rangeGotSecondPeriod lower) else .error errRange
  | .rangeGotSecondPeriod lower => if c = '=' then .ok (.rangeGotEquals lower) else .error errRange
  | .strideStarted => if c = '=' ∨ c = ':' then .ok .hasStrideEquals else .error errRange
  | _ => .error errRange

/-- `take_ident` -/
def AP.takeIdent (st : AP) (s : String) : Except Reject AP :=
  match st with
  | .reset =>
      if s = "rw" then .ok .readWrite else if s = "r" then .ok .read else if s = "w" then .ok .write
      else if s = "stride" then .ok .strideStarted else .error (.error "Invalid ident")
  | _ => .error (.error "Invalid ident")

/-- the mutable locals of `parse_field` that `finished_argument` updates -/
structure PState where
  ranges : List Rng := []          -- in push order
  rangesToken : Option Nat := none
  provideGetter : Bool := false
  provideSetter : Bool := false
  indexedStride : Option Nat := none
  deriving Repr, DecidableEq, Inhabited

def errMultiple : Reject := .error "Seen multiple bit-ranges, but only one is allowed"

/-- the closure `finished_argument(range_parser, is_in_array, token_id)`; `isRange` = attribute is `bits`,
    `hasCount` = the field is an array -/
def finishedArgument (isRange hasCount : Bool) (ps : PState) (st : AP) (isInArray : Bool) (tokenId : Nat) :
    Except Reject PState := do
  -- Ensure we didn't get a range if we already had one before
  let ps ← (match st with
    | .rangeGotBothLimits _ _ | .rangeGotLowerLimit _ =>
        if isInArray then
          match ps.rangesToken with
          | some t => if t ≠ tokenId then .error errMultiple else .ok { ps with rangesToken := some tokenId }
          | none => .ok { ps with rangesToken := some tokenId }
        else if !ps.ranges.isEmpty then .error errMultiple
        else .ok { ps with rangesToken := some tokenId }
    | _ => .ok ps : Except Reject PState)
  match st with
  | .rangeGotBothLimits lower upper =>
      if lower > upper then .error (.error "Invalid bit-range: lower limit larger than upper limit")
      else if !isInArray && !isRange then .error (.error "bit requires an inclusive range")
      else if upper + 1 ≥ 2 ^ 64 then .error (.error "Invalid bit-range: the upper limit is too large")   -- `checked_add` (D4)
      else .ok { ps with ranges := ps.ranges ++ [⟨lower, upper + 1 - lower⟩] }
  | .rangeGotLowerLimit lower =>
      if isRange && !isInArray then .error (.error "bits requires a single bit")
      else if lower + 1 ≥ 2 ^ 64 then .error (.error "Invalid bit index: the value is too large")   -- `checked_add` (D4)
      else .ok { ps with ranges := ps.ranges ++ [⟨lower, 1⟩] }
  | .readWrite => .ok { ps with provideGetter := true, provideSetter := true }
  | .read => .ok { ps with provideGetter := true }
  | .write => .ok { ps with provideSetter := true }
  | .strideComplete stride =>
      if !hasCount then .error (.error "stride is only supported for indexed properties")
      else .ok { ps with indexedStride := some stride }
  | .reset => .ok ps
  | _ => .error (.error "Invalid syntax. Supported: bits(5..=6, access, stride = x)")

/-- split the tokens of `[ … ]` at top-level commas (what `ExprArray::elems` holds); a trailing comma
    yields no element -/
def Tok.isComma : Tok → Bool
  | .punct c => c == ','
  | _ => false

def splitCommas : List Tok → List Tok → List (List Tok)
  | [], cur => if cur.isEmpty then [] else [cur.reverse]
  | t :: ts, cur => if t.isComma then cur.reverse :: splitCommas ts [] else splitCommas ts (t :: cur)

/-- tokens of one array element (`is_in_array = true`): no groups, no commas. -/
def parseElemTokens (isRange hasCount : Bool) (outer : Nat) :
    List Tok → AP → PState → Except Reject PState
  | [], st, ps => finishedArgument isRange hasCount ps st true outer
  | .group _ _ :: _, _, _ => .error (.macroPanic "nested array in bit range list")
  | .ident s :: ts, st, ps => do let st' ← st.takeIdent s; parseElemTokens isRange hasCount outer ts st' ps
  | .punct c :: ts, st, ps =>
      if c = ',' then do
        let ps' ← finishedArgument isRange hasCount ps st true outer
        parseElemTokens isRange hasCount outer ts .resetOnlyRangeAllowed ps'
      else do let st' ← st.takePunct c; parseElemTokens isRange hasCount outer ts st' ps
  | .lit l :: ts, st, ps => do let st' ← st.takeLiteral l; parseElemTokens isRange hasCount outer ts st' ps

def parseElems (isRange hasCount : Bool) (outer : Nat) : List (List Tok) → PState → Except Reject PState
  | [], ps => .ok ps
  | e :: es, ps => do
      let ps' ← parseElemTokens isRange hasCount outer e .resetOnlyRangeAllowed ps
      parseElems isRange hasCount outer es ps'

/-- `parse_argument_tokens(tokens, false, finished_argument, None)`: the top-level argument list;
    `tokenId` counts the token trees seen so far -/
def parseTopTokens (isRange hasCount : Bool) :
    List Tok → Nat → AP → PState → Except Reject PState
  | [], tokenId, st, ps => finishedArgument isRange hasCount ps st false tokenId
  | .group d inner :: ts, tokenId, st, ps =>
      -- `parse2::<ExprArray>(group).unwrap()`: anything but `[e, e, …]` panics
      if d ≠ '[' then .error (.macroPanic "expected square brackets") else do
      let ps' ← parseElems isRange hasCount tokenId (splitCommas inner []) ps
      parseTopTokens isRange hasCount ts (tokenId + 1) st ps'
  | .ident s :: ts, tokenId, st, ps => do
      let st' ← st.takeIdent s
      parseTopTokens isRange hasCount ts (tokenId + 1) st' ps
  | .punct c :: ts, tokenId, st, ps =>
      if c = ',' then do
        let ps' ← finishedArgument isRange hasCount ps st false tokenId
        parseTopTokens isRange hasCount ts (tokenId + 1) .reset ps'
      else do
        let st' ← st.takePunct c
        parseTopTokens isRange hasCount ts (tokenId + 1) st' ps
  | .lit l :: ts, tokenId, st, ps => do
      let st' ← st.takeLiteral l
      parseTopTokens isRange hasCount ts (tokenId + 1) st' ps

/-- the `for attr in &field.attrs` loop; returns the state and the number of doc attributes -/
def parseAttrs (hasCount : Bool) : List Attr → PState → Nat → Except Reject (PState × Nat)
  | [], ps, docs => .ok (ps, docs)
  | a :: as, ps, docs =>
      if a.name = "bits" ∨ a.name = "bit" then
        if !a.isList then .error (.macroPanic "require_list().unwrap()") else do
        let ps' ← parseTopTokens (a.name = "bits") hasCount a.toks 0 .reset ps
        if a.delim ≠ '(' then .error (.error "Expected '(' after bit/bits")
        else parseAttrs hasCount as ps' docs
      else if a.name = "doc" then parseAttrs hasCount as ps (docs + 1)
      else .error (.error "Unhandled attribute")

/-- `parse_scalar_field`: (width from the data type – `some 0` = bool –, signed) -/
def parseScalarField (ty : TySyn) : Except Reject (Option Nat × Bool) :=
  if !ty.isPath then .error (.error "Field type not valid") else
  let single : Option String := match ty.segs, ty.lastArgs with | [s], none => some s | _, _ => none
  let tbl : Option (Option Nat × Bool) := match single with
    | some "bool" => some (some BITCOUNT_BOOL, false)
    | some "u8" => some (some 8, false) | some "i8" => some (some 8, true)
    | some "u16" => some (some 16, false) | some "i16" => some (some 16, true)
    | some "u32" => some (some 32, false) | some "i32" => some (some 32, true)
    | some "u64" => some (some 64, false) | some "i64" => some (some 64, true)
    | some "u128" => some (some 128, false) | some "i128" => some (some 128, true)
    | _ => none
  match tbl with
  | some v => .ok v
  | none =>
    match ty.segs.getLast? with
    | some last => .ok (tryParseArbitraryIntType last, false)
    | none => .error (.error "invalid path for bitfield field")

/-- the primitive type chosen by width for custom types -/
def primitiveByWidth (n : Nat) : Option ITy :=
  if n ≤ 8 then some .u8 else if n ≤ 16 then some .u16 else if n ≤ 32 then some .u32
  else if n ≤ 64 then some .u64 else if n ≤ 128 then some .u128 else none

def sumLens (rs : List Rng) : Nat := rs.foldl (fun a r => a + r.len) 0

/-- `ranges.iter().map(|r| r.end).max().unwrap_or(0)` -/
def maxEnd (rs : List Rng) : Nat := rs.foldl (fun a r => max a (r.lo + r.len)) 0

/-- type of a data-type-sized field (`quote!{ #ty }`): native ints map to themselves; arbitrary `uN` has
    no native type (the field is not `use_regular_int`, the value is never used) -/
def nativeOfScalar (size : Nat) (signed : Bool) : ITy :=
  if signed then ITy.signedOf size else ITy.unsignedOf size

/-- what the field's *type* tells the macro: `parse_scalar_field` and `parse_enumeration` -/
structure TyInfo where
  fromDT : Option Nat        -- field_type_size_from_data_type (`some 0` = bool)
  isSigned : Bool
  custom : Option CustomTy   -- `CustomType::Yes(T)` (exactly when `fromDT = none`)
  deriving Repr, DecidableEq, Inhabited

/-- `resolve` maps the path of a custom type to the user-type number (the corpus' type table);
    it stands for the identity of `syn::Type` values and is not part of the macro. -/
def typeInfo (resolve : List String → Nat) (ty : TySyn) : Except Reject TyInfo :=
  match parseScalarField ty with
  | .error r => .error r
  | .ok (fromDT, isSigned) =>
    match fromDT with
    | some _ => .ok { fromDT := fromDT, isSigned := isSigned, custom := none }
    | none =>
      -- parse_enumeration
      match ty.segs.getLast?, ty.lastArgs with
      | some "Option", some [arg] =>
        -- a generic argument that is not a type (a lifetime, a const expression) is written as the empty path
        if arg.isEmpty then .error (.error "Invalid Option binding: Expected generic type")
        else .ok { fromDT := none, isSigned := isSigned, custom := some { ty := resolve arg, isOption := true } }
      | some "Option", some _ => .error (.error "Invalid Option<T> path. Expected exactly one generic type argument")
      | some "Option", none => .error (.macroPanic "Expected < after Option")
      | _, _ => .ok { fromDT := none, isSigned := isSigned, custom := some { ty := resolve ty.segs, isOption := false } }

/-- `field_type_size` -/
def fieldTypeSizeOf (ti : TyInfo) (numberOfBits : Nat) : Nat := ti.fromDT.getD numberOfBits

/-- `primitive_type` -/
def primitiveTypeOf (ti : TyInfo) (numberOfBits : Nat) : ITy :=
  match ti.fromDT with
  | none => (primitiveByWidth numberOfBits).getD .u128
  | some b => nativeOfScalar b ti.isSigned

/-- the stride of an array field: the given one, or the width for a single range -/
def strideOf (ps : PState) (numberOfBits : Nat) : Nat :=
  if ps.ranges.length = 1 then ps.indexedStride.getD numberOfBits else ps.indexedStride.getD 0

/-- the first check of `parse_field` (after the attributes have been read) that fails, in the order of the code;
    `none` = the field is accepted -/
def firstError (baseDataSize : Nat) (ti : TyInfo) (count : Option Nat) (ps : PState) : Option Reject :=
  let ranges := ps.ranges
  let n := sumLens ranges
  if n ≥ 2 ^ 64 then some (.macroPanic "attempt to add with overflow")
  else if ti.fromDT = none ∧ n > 128 then some (.macroPanic "number_of_bits is too large!")
  else if fieldTypeSizeOf ti n = BITCOUNT_BOOL ∧ (n ≠ 1 ∨ ranges.length ≠ 1) then
    (if ranges.isEmpty then some (.macroPanic "index out of bounds: ranges[0]")
     else some (.error "Field is a bool, so it should only use a single bit"))
  else if fieldTypeSizeOf ti n ≠ BITCOUNT_BOOL ∧ n ≠ fieldTypeSizeOf ti n then
    some (.error "Field type doesn't match the number of bits that are being used for it")
  else match count with
  | some indexedCount =>
    -- Verify bounds for arrays
    if ranges.length = 1 ∧ n > strideOf ps n then some (.error "Field is larger than the stride")
    else if ranges.length ≠ 1 ∧ ps.indexedStride = none then
      some (.error "Field is declared as non-contiguous and array, so it needs a stride")
    -- `indexed_count.saturating_sub(1).checked_mul(stride).and_then(checked_add(max_end)).unwrap_or(usize::MAX)` (D4):
    -- a count of 0 is caught by one of the next two checks, an overflow by the bound check (usize::MAX > base)
    else if indexedCount = 0 then some (.error "Field is declared as array, but with fewer than 2 elements (or out of bounds)")
    else if (indexedCount - 1) * strideOf ps n + maxEnd ranges ≥ 2 ^ 64 then some (.error "Array-field requires more bits than the bitfield has")
    else if (indexedCount - 1) * strideOf ps n + maxEnd ranges > baseDataSize then
      some (.error "Array-field requires more bits than the bitfield has")
    else if indexedCount < 2 then some (.error "Field is declared as array, but with fewer than 2 elements")
    else none
  | none =>
    if maxEnd ranges > baseDataSize then some (.error "Field requires more bits than the bitfield has") else none

/-- the `FieldDefinition` built at the end of `parse_field` -/
def mkFieldDef (name : String) (ti : TyInfo) (count : Option Nat) (ps : PState) (docs : Nat) : FieldDef :=
  let n := sumLens ps.ranges
  { name := name, ranges := ps.ranges,
    unsignedFieldType := if ti.isSigned then some (ITy.unsignedOf (ti.fromDT.getD 0)) else none,
    array := count.map (fun c => (c, strideOf ps n)),
    fieldTypeSize := fieldTypeSizeOf ti n, getter := ps.provideGetter, setter := ps.provideSetter,
    fromDataType := ti.fromDT,
    useRegularInt := (match ti.fromDT with
      | some i => isIntSizeRegularType i
      | none => n ≠ 1 && isIntSizeRegularType n),
    primitiveType := primitiveTypeOf ti n, custom := ti.custom, docs := docs }

/-- the array length literal does not fit `usize` -/
def countTooLarge : Option Nat → Bool
  | some c => decide (c ≥ 2 ^ 64)
  | none => false

/-- `parse_field` -/
def parseField (resolve : List String → Nat) (baseDataSize : Nat) (f : FieldSyn) : Except Reject FieldDef :=
  -- `length.parse::<usize>().unwrap_or_else(|_| panic!(…))`
  if countTooLarge f.count = true then
    .error (.macroPanic "array length is not a valid number")
  else match typeInfo resolve f.ty with
  | .error r => .error r
  | .ok ti =>
    match parseAttrs f.count.isSome f.attrs {} 0 with
    | .error r => .error r
    | .ok (ps, docs) =>
      match firstError baseDataSize ti f.count ps with
      | some r => .error r
      | none => .ok (mkFieldDef f.name ti f.count ps docs)

end Bb
