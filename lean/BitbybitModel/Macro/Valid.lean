import BitbybitModel.Macro.Bitfield
import BitbybitModel.Lemmas.Eval
/-!
# What `parse_field` guarantees about an accepted field (`FieldOk`)

`FieldOk B fd` is the conjunction of the facts the accessor theorems need. `parseField_ok` (in
`Lemmas/ParseOk.lean`) proves that every field definition returned by `parseField` satisfies it.
The one side condition that `parse_field` does **not** establish is `fd.totalBits ≤ B.internal`
(known finding KF1: lists naming a bit twice may be wider than the storage); theorems that need it
carry it explicitly.
-/
namespace Bb

/-- a base produced by `baseOf` -/
structure Base.WF (B : Base) : Prop where
  pos : 1 ≤ B.exposed
  le128 : B.exposed ≤ 128
  internal_eq : B.internal = storageOf B.exposed

theorem Base.WF.exposed_le {B : Base} (h : B.WF) : B.exposed ≤ B.internal := by
  rw [h.internal_eq]; exact le_storageOf h.le128

theorem Base.WF.W_bits {B : Base} (h : B.WF) : B.W.bits = B.internal := by
  unfold Base.W
  rw [bits_unsignedOf, h.internal_eq]
  have := h.le128
  unfold storageOf
  (repeat' split) <;> omega

theorem Base.WF.W_signed {B : Base} (_h : B.WF) : B.W.signed = false := signed_unsignedOf _

theorem Base.WF.internal_le {B : Base} (h : B.WF) : B.internal ≤ 128 := by
  rw [h.internal_eq]; unfold storageOf; (repeat' split) <;> omega

/-- highest bit (exclusive) a field addresses over all its elements -/
def FieldDef.reach (fd : FieldDef) : Nat :=
  match fd.array with
  | some (count, stride) => (count - 1) * stride + maxEnd fd.ranges
  | none => maxEnd fd.ranges

structure FieldOk (B : Base) (fd : FieldDef) : Prop where
  nonempty : fd.ranges ≠ []
  len_pos : ∀ r ∈ fd.ranges, 1 ≤ r.len
  /-- every addressed bit lies below the exposed width -/
  reach_le : fd.reach ≤ B.exposed
  count_ge : ∀ c s, fd.array = some (c, s) → 2 ≤ c
  count_lt : ∀ c s, fd.array = some (c, s) → c < 2 ^ 64
  stride_ge : ∀ c s r, fd.array = some (c, s) → fd.ranges = [r] → r.len ≤ s
  /-- bool: exactly one range of one bit -/
  bool_one : fd.fieldTypeSize = 0 → ∃ lo, fd.ranges = [⟨lo, 1⟩]
  bool_iff : fd.fieldTypeSize = 0 ↔ fd.fromDataType = some 0
  bool_regular : fd.fieldTypeSize = 0 → fd.useRegularInt = true ∧ fd.unsignedFieldType = none ∧ fd.custom = none
  /-- the type width is the number of selected bits -/
  width_eq : fd.fieldTypeSize ≠ 0 → fd.totalBits = fd.fieldTypeSize
  total_le : fd.totalBits ≤ 128
  /-- `use_regular_int` fields have a native type of exactly that width -/
  regular_prim : fd.useRegularInt = true → fd.fieldTypeSize ≠ 0 → fd.primitiveType.bits = fd.totalBits
  /-- signed types are remembered through their unsigned twin -/
  signed_iff : fd.primitiveType.signed = true ↔ fd.unsignedFieldType.isSome
  unsigned_twin : ∀ u, fd.unsignedFieldType = some u → u = fd.primitiveType.toUnsigned ∧ fd.useRegularInt = true ∧ fd.custom = none
  /-- arbitrary-int typed fields are never 8/16/32/64/128 bits wide, custom 1-bit fields use `u1` -/
  custom_prim : fd.custom.isSome → fd.useRegularInt = true → fd.primitiveType = ITy.unsignedOf fd.totalBits

/-- the value a getter returns for the extracted bits `bits`, before any custom-type conversion -/
def present (fd : FieldDef) (bits : Nat) : Val :=
  if fd.fieldTypeSize = 0 then .bool (bits != 0)
  else if fd.useRegularInt then .int fd.primitiveType bits
  else .uint fd.totalBits bits

end Bb
