import BitbybitModel.Props.Examples
/-!
# C01 — the getter returns exactly the declared bits (LSB0) for every raw value

For every base (`B.WF`: `u8…u128` or an arbitrary width 1…127), every accepted field (`FieldOk`)
declared over one contiguous range `lo..=lo+n-1`, every raw value and both build profiles.
-/
namespace Bb.C01
open Bb

/-- **C01.** Reading a contiguous scalar field yields `field raw lo n` – bits `lo … lo+n-1` of the raw value –
    presented as the declared field type (bool: true iff the bit is set; native `uN`/`iN`: that bit pattern;
    arbitrary-int: `UInt` of that value), for every raw value and under both build profiles. -/
theorem getter_contiguous (Γ : CustomEnv) (chk : Bool) (B : Base) (fd : FieldDef) (raw lo n : Nat)
    (hB : B.WF) (hok : FieldOk B fd) (hr : fd.ranges = [⟨lo, n⟩]) (hs : fd.array = none) (hc : fd.custom = none) :
    ∃ e, getterBody B fd = some e ∧
      eval Γ chk { raw := .int B.W raw, index := .int .usize 0 } e = .ok (present fd (field raw lo n)) := by
  obtain ⟨e, he, hev⟩ := eval_getterBody Γ chk B fd raw 0 hB hok (hok.single_wide hB hr) (by simp [hs])
  refine ⟨e, he, ?_⟩
  simpa [getterResult, hc, hr, FieldDef.stride, hs, offOf, gather] using hev

/-- bit `k` of the value read is bit `lo + k` of the raw value ("bit k weighs 2^k"), and nothing above `n` -/
theorem getter_bits (raw lo n k : Nat) :
    (field raw lo n).testBit k = (decide (k < n) && raw.testBit (lo + k)) := testBit_field raw lo n k

/-- no bit outside the range influences the result -/
theorem getter_ignores_other_bits (raw raw' lo n : Nat)
    (h : ∀ k, k < n → raw.testBit (lo + k) = raw'.testBit (lo + k)) : field raw lo n = field raw' lo n := by
  apply Nat.eq_of_testBit_eq
  intro k
  rw [testBit_field, testBit_field]
  by_cases hk : k < n
  · simp [hk, h k hk]
  · simp [hk]

/-- the value read fits the field type: no truncation can have happened -/
theorem getter_value_lt (raw lo n : Nat) : field raw lo n < 2 ^ n := field_lt raw lo n

/-! ### non-vacuity: concrete layouts satisfy the hypotheses -/
example := getter_contiguous Ex.noTypes true (Base.new 127) Ex.top (2 ^ 126) 126 1 Ex.wf127 Ex.top_ok rfl rfl rfl
example := getter_contiguous Ex.noTypes false (Base.new 32) Ex.all 0xDEADBEEF 0 32 Ex.wf32 Ex.all_ok rfl rfl rfl

end Bb.C01
