import BitbybitModel.Props.Examples
import BitbybitModel.Lemmas.ReadBack
/-!
# C02 — the setter rewrites exactly the field's bits; read-back returns what was written

Contiguous scalar fields of every kind (bool, native, arbitrary-int, signed, custom), every base, every raw
value `< 2^W` (the state of a bitfield is its `W`-bit storage) and every value `v` of the field's type,
given by its bit pattern (`ArgOk`).
-/
namespace Bb.C02
open Bb

theorem single_disjoint (r : Rng) : pairwiseDisjoint [r] = true := by simp [pairwiseDisjoint]

/-- **C02 (write).** `with_f(v)` – and `set_f(v)`, which assigns the same expression – yields the register in
    which the field's positions hold `v` and every other position holds the receiver's bit. -/
theorem with_contiguous (Γ : CustomEnv) (chk : Bool) (B : Base) (fd : FieldDef) (raw lo n : Nat) (fv : Val) (v : Nat)
    (hB : B.WF) (hok : FieldOk B fd) (hr : fd.ranges = [⟨lo, n⟩]) (hs : fd.array = none)
    (hraw : raw < 2 ^ B.internal) (harg : ArgOk Γ fd fv v) :
    ∃ e, withBody B fd = some e ∧
      eval Γ chk { raw := .int B.W raw, index := .int .usize 0, fieldValue := fv } e
        = .ok (.int B.W (writeSpec B.internal raw v 0 [⟨lo, n⟩])) := by
  obtain ⟨e, he, x, hev, _, hsp, _⟩ := eval_setterBody Γ chk B fd raw 0 fv v hB hok (hok.single_wide hB hr) hraw (by simp [hs]) harg
  refine ⟨e, he, ?_⟩
  have := hsp (by rw [hr]; exact single_disjoint _)
  rw [hev, this, hr]; simp [FieldDef.stride, hs, offOf]

/-- `set_f` assigns to `self.raw_value` exactly the expression `with_f` puts into the new value -/
theorem set_eq_with (B : Base) (fd : FieldDef) : setBody B fd = withBody B fd := rfl

/-- bit-level meaning of the written register: inside the field the value's bits, outside the receiver's -/
theorem with_bits (W raw v lo n k : Nat) (hk : k < W) :
    (writeSpec W raw v 0 [⟨lo, n⟩]).testBit k = if lo ≤ k ∧ k < lo + n then v.testBit (k - lo) else raw.testBit k := by
  rw [testBit_writeSpec]
  by_cases h : lo ≤ k ∧ k < lo + n
  · simp [written, Rng.covers, h, hk]
  · have : ¬ (lo ≤ k ∧ k < lo + n) := h
    simp [written, Rng.covers, this, hk]

/-- the result stays inside the storage width -/
theorem with_lt (W raw v lo n : Nat) : writeSpec W raw v 0 [⟨lo, n⟩] < 2 ^ W := writeSpec_lt _ _ _ _ _

/-- **C02 (read-back).** Reading the field from the written register yields `v` -/
theorem read_back (W raw v lo n : Nat) (hfit : lo + n ≤ W) (hv : v < 2 ^ n) :
    field (writeSpec W raw v 0 [⟨lo, n⟩]) lo n = v := by
  have := gather_writeSpec W raw v 0 [⟨lo, n⟩] (by simp; omega) (single_disjoint _) (by simpa [totalLen] using hv)
  simpa [gather] using this

/-- the receiver is unchanged: a `with_` body is an expression over `&self`; evaluation returns a value and
    has no effect on the environment (`eval` is a pure function) -/
theorem receiver_unchanged (Γ : CustomEnv) (chk : Bool) (ρ : Env) (e : Expr) : (fun _ : R => ρ) (eval Γ chk ρ e) = ρ := rfl

/-! non-vacuity -/
theorem ex_arg : ArgOk Ex.noTypes Ex.all (.int .u32 0xDEADBEEF) 0xDEADBEEF := by
  simp [ArgOk, Ex.all, FieldDef.totalBits]
example := with_contiguous Ex.noTypes true (Base.new 32) Ex.all 0x12345678 0 32 _ _ Ex.wf32 Ex.all_ok rfl rfl (by decide) ex_arg

end Bb.C02
