import BitbybitModel.Props.Examples
import BitbybitModel.Lemmas.ReadBack
/-!
# C03 — array fields address element `i` at `lo + i*stride` and are bounds-checked
-/
namespace Bb.C03
open Bb

/-- **C03 (read).** For `i < K` the getter of `[T; K]` returns the element's ranges moved up by `i * stride`. -/
theorem array_get (Γ : CustomEnv) (chk : Bool) (B : Base) (fd : FieldDef) (raw i c s : Nat)
    (hB : B.WF) (hok : FieldOk B fd) (hwide : fd.totalBits ≤ B.internal) (ha : fd.array = some (c, s)) (hi : i < c) :
    ∃ e, getterBody B fd = some e ∧
      eval Γ chk { raw := .int B.W raw, index := .int .usize i } e = getterResult Γ fd (gather raw (i * s) fd.ranges 0) := by
  obtain ⟨e, he, hev⟩ := eval_getterBody Γ chk B fd raw i hB hok hwide (fun c' s' h => by rw [ha] at h; cases h; exact hi)
  exact ⟨e, he, by simpa [FieldDef.stride, ha, offOf] using hev⟩

/-- single-range element: it is `field raw (lo + i*s) n` -/
theorem array_get_single (raw i s lo n : Nat) : gather raw (i * s) [⟨lo, n⟩] 0 = field raw (lo + i * s) n := by
  simp [gather]

/-- **C03 (write).** For `i < K`, `with_f(i, v)` / `set_f(i, v)` is the reference write at offset `i * stride`. -/
theorem array_with (Γ : CustomEnv) (chk : Bool) (B : Base) (fd : FieldDef) (raw i c s : Nat) (fv : Val) (v : Nat)
    (hB : B.WF) (hok : FieldOk B fd) (hwide : fd.totalBits ≤ B.internal) (hraw : raw < 2 ^ B.internal)
    (ha : fd.array = some (c, s)) (hi : i < c) (harg : ArgOk Γ fd fv v) (hd : pairwiseDisjoint fd.ranges = true) :
    ∃ e, withBody B fd = some e ∧
      eval Γ chk { raw := .int B.W raw, index := .int .usize i, fieldValue := fv } e
        = .ok (.int B.W (writeSpec B.internal raw v (i * s) fd.ranges)) := by
  obtain ⟨e, he, x, hev, _, hsp, _⟩ := eval_setterBody Γ chk B fd raw i fv v hB hok hwide hraw
    (fun c' s' h => by rw [ha] at h; cases h; exact hi) harg
  refine ⟨e, he, ?_⟩
  rw [hev, hsp hd]; simp [FieldDef.stride, ha, offOf]

/-- a write to element `i` changes no position outside element `i` (gap bits and all other fields included) -/
theorem array_write_outside (W raw v i s : Nat) (rs : List Rng) (p : Nat) (hraw : raw < 2 ^ W)
    (hp : rs.any (·.covers (i * s) p) = false) : (writeSpec W raw v (i * s) rs).testBit p = raw.testBit p :=
  writeSpec_outside W raw v (i * s) rs p hraw hp

/-- elements of a single-range array with `stride ≥ width` never share a position -/
theorem elements_disjoint (lo n s i j p : Nat) (hs : n ≤ s) (hij : i ≠ j)
    (hp : ([⟨lo, n⟩] : List Rng).any (·.covers (j * s) p) = true) : ([⟨lo, n⟩] : List Rng).any (·.covers (i * s) p) = false := by
  simp only [List.any_cons, List.any_nil, Bool.or_false, Rng.covers, Bool.and_eq_true, decide_eq_true_eq] at hp ⊢
  simp only [Bool.and_eq_false_iff, decide_eq_false_iff_not]
  rcases Nat.lt_or_gt_of_ne hij with h | h
  · have : (i + 1) * s ≤ j * s := Nat.mul_le_mul_right s h
    rw [Nat.add_mul] at this
    right; omega
  · have : (j + 1) * s ≤ i * s := Nat.mul_le_mul_right s h
    rw [Nat.add_mul] at this
    left; omega

/-- **C03 (isolation).** Writing element `i` leaves what element `j ≠ i` reads unchanged -/
theorem array_isolation (W raw v lo n s i j : Nat) (hraw : raw < 2 ^ W) (hs : n ≤ s) (hij : i ≠ j) :
    gather (writeSpec W raw v (i * s) [⟨lo, n⟩]) (j * s) [⟨lo, n⟩] 0 = gather raw (j * s) [⟨lo, n⟩] 0 :=
  gather_writeSpec_other W raw v (i * s) (j * s) _ _ hraw (fun p hp => elements_disjoint lo n s i j p hs hij hp)

/-- the same for arrays of non-contiguous elements (possibly interleaving) whenever the two elements' positions
    are disjoint -/
theorem array_isolation_list (W raw v s i j : Nat) (rs : List Rng) (hraw : raw < 2 ^ W)
    (hdis : ∀ p, rs.any (·.covers (j * s) p) = true → rs.any (·.covers (i * s) p) = false) :
    gather (writeSpec W raw v (i * s) rs) (j * s) rs 0 = gather raw (j * s) rs 0 :=
  gather_writeSpec_other W raw v (i * s) (j * s) rs rs hraw hdis

/-- **C03 (bounds).** An index `≥ K` panics in the getter … -/
theorem array_get_oob (Γ : CustomEnv) (chk : Bool) (B : Base) (fd : FieldDef) (raw i c s : Nat)
    (hB : B.WF) (hok : FieldOk B fd) (hwide : fd.totalBits ≤ B.internal) (ha : fd.array = some (c, s)) (hi : c ≤ i) :
    ∃ e, getterBody B fd = some e ∧
      eval Γ chk { raw := .int B.W raw, index := .int .usize i } e = .error (.panic "assertion failed") :=
  eval_getterBody_oob Γ chk B fd raw i c s hB hok hwide ha hi

/-- … and in `with_` and `set_`, under both profiles, before anything is read or modified -/
theorem array_with_oob (Γ : CustomEnv) (chk : Bool) (B : Base) (fd : FieldDef) (raw i c s : Nat) (fv : Val) (v : Nat)
    (hB : B.WF) (hok : FieldOk B fd) (hwide : fd.totalBits ≤ B.internal) (hraw : raw < 2 ^ B.internal)
    (ha : fd.array = some (c, s)) (hi : c ≤ i) (harg : ArgOk Γ fd fv v) :
    ∃ e, withBody B fd = some e ∧
      eval Γ chk { raw := .int B.W raw, index := .int .usize i, fieldValue := fv } e = .error (.panic "assertion failed") :=
  eval_setterBody_oob Γ chk B fd raw i c s fv v hB hok hwide hraw ha hi harg

/-! non-vacuity: `[u4; 3]` at bits 1..=4 with stride 5 over `u24` -/
example := array_get Ex.noTypes true (Base.new 24) Ex.arr 0xABCDEF 2 3 5 Ex.wf24 Ex.arr_ok (by decide) rfl (by decide)
example := array_get_oob Ex.noTypes false (Base.new 24) Ex.arr 0 3 3 5 Ex.wf24 Ex.arr_ok (by decide) rfl (by decide)

end Bb.C03
