import BitbybitModel.Props.Examples
import BitbybitModel.Lemmas.ReadBack
/-!
# C04 — non-contiguous fields gather and scatter bits in declaration order
-/
namespace Bb.C04
open Bb

/-- **C04 (read).** A field over a list of ranges reads as the concatenation of the ranges, first range least
    significant – for *every* list (repeated bits allowed) whose total width fits the storage. -/
theorem list_get (Γ : CustomEnv) (chk : Bool) (B : Base) (fd : FieldDef) (raw i : Nat)
    (hB : B.WF) (hok : FieldOk B fd) (hwide : fd.totalBits ≤ B.internal)
    (hi : ∀ c s, fd.array = some (c, s) → i < c) :
    ∃ e, getterBody B fd = some e ∧
      eval Γ chk { raw := .int B.W raw, index := .int .usize i } e
        = getterResult Γ fd (gather raw (offOf i fd.stride) fd.ranges 0) :=
  eval_getterBody Γ chk B fd raw i hB hok hwide hi

/-- bit `t_k + b` of the value read is bit `lo_k + off + b` of the register (`pre` = the ranges before the k-th) -/
theorem gather_bits (raw off : Nat) (pre : List Rng) (r : Rng) (post : List Rng) (b : Nat) (hb : b < r.len) :
    (gather raw off (pre ++ r :: post) 0).testBit (totalLen pre + b) = raw.testBit (r.lo + off + b) :=
  gather_bit raw off pre r post b hb

/-- nothing above the total width: the value fits the field type -/
theorem gather_fits (raw off : Nat) (rs : List Rng) : gather raw off rs 0 < 2 ^ totalLen rs := by
  simpa using gather_lt raw off rs 0

/-- **C04 (write).** For pairwise disjoint lists `with_f` / `set_f` is the reference write (scalar or element `i`). -/
theorem list_with (Γ : CustomEnv) (chk : Bool) (B : Base) (fd : FieldDef) (raw i : Nat) (fv : Val) (v : Nat)
    (hB : B.WF) (hok : FieldOk B fd) (hwide : fd.totalBits ≤ B.internal) (hraw : raw < 2 ^ B.internal)
    (hi : ∀ c s, fd.array = some (c, s) → i < c) (harg : ArgOk Γ fd fv v) (hd : pairwiseDisjoint fd.ranges = true) :
    ∃ e, withBody B fd = some e ∧
      eval Γ chk { raw := .int B.W raw, index := .int .usize i, fieldValue := fv } e
        = .ok (.int B.W (writeSpec B.internal raw v (offOf i fd.stride) fd.ranges)) := by
  obtain ⟨e, he, x, hev, _, hsp, _⟩ := eval_setterBody Γ chk B fd raw i fv v hB hok hwide hraw hi harg
  exact ⟨e, he, by rw [hev, hsp hd]⟩

/-- scatter: bit `b` of the k-th range receives bit `t_k + b` of the value -/
theorem scatter_inside (W raw v off : Nat) (pre : List Rng) (r : Rng) (post : List Rng) (b : Nat)
    (hfit : r.lo + r.len + off ≤ W) (hd : pairwiseDisjoint (pre ++ r :: post) = true) (hb : b < r.len) :
    (writeSpec W raw v off (pre ++ r :: post)).testBit (r.lo + off + b) = v.testBit (totalLen pre + b) :=
  writeSpec_inside W raw v off pre r post b hfit hd hb

/-- every unlisted position is untouched -/
theorem scatter_outside (W raw v off : Nat) (rs : List Rng) (p : Nat) (hraw : raw < 2 ^ W)
    (hp : rs.any (·.covers off p) = false) : (writeSpec W raw v off rs).testBit p = raw.testBit p :=
  writeSpec_outside W raw v off rs p hraw hp

/-- **C04 (round trip).** write followed by read is the identity -/
theorem scatter_gather (W raw v off : Nat) (rs : List Rng)
    (hfit : ∀ r ∈ rs, r.lo + r.len + off ≤ W) (hd : pairwiseDisjoint rs = true) (hv : v < 2 ^ totalLen rs) :
    gather (writeSpec W raw v off rs) off rs 0 = v :=
  gather_writeSpec W raw v off rs hfit hd hv

/-! non-vacuity: the RISC-V SB immediate `[8..=11, 25..=30, 7, 31]` over `u32` -/
example := list_get Ex.noTypes true (Base.new 32) Ex.imm 0xFFFF_FFFF 0 Ex.wf32 Ex.imm_ok (by decide) (by simp [Ex.imm])
example : pairwiseDisjoint Ex.imm.ranges = true := Ex.imm_disjoint
example : gather (writeSpec 32 0 0xABC 0 Ex.imm.ranges) 0 Ex.imm.ranges 0 = 0xABC :=
  scatter_gather 32 0 0xABC 0 _ (by decide) Ex.imm_disjoint (by decide)

end Bb.C04
