import BitbybitModel.Props.Examples
import BitbybitModel.Lemmas.ReadBack
/-!
# C05 — signed fields are two's complement and never leak sign bits

A signed field is a field whose `primitiveType` is `iN`; values are `Val.int iN pattern`, the pattern being
the N-bit two's-complement representation. `toInt N pattern` is the integer it denotes.
-/
namespace Bb.C05
open Bb

/-- every integer in `[-2^(N-1), 2^(N-1))` is denoted by exactly one pattern below `2^N`: the reading
    `toInt` is injective on patterns -/
theorem toInt_injective (N a b : Nat) (hN : 0 < N) (ha : a < 2 ^ N) (hb : b < 2 ^ N) (h : toInt N a = toInt N b) : a = b := by
  unfold toInt at h
  have hp : 2 ^ N = 2 * 2 ^ (N - 1) := by
    have : N = (N - 1) + 1 := by omega
    conv => lhs; rw [this, Nat.pow_succ]
    omega
  split at h <;> split at h <;> omega

/-- the value read lies in the type's range -/
theorem toInt_range (N a : Nat) (hN : 0 < N) (ha : a < 2 ^ N) :
    -(2 ^ (N - 1) : Nat) ≤ toInt N a ∧ toInt N a < (2 ^ (N - 1) : Nat) := by
  unfold toInt
  have hp : 2 ^ N = 2 * 2 ^ (N - 1) := by
    have : N = (N - 1) + 1 := by omega
    conv => lhs; rw [this, Nat.pow_succ]
    omega
  split <;> omega

/-- **C05 (read).** A signed field reads as `iN` with the pattern of its N bits (plain, array element or
    non-contiguous alike) -/
theorem signed_get (Γ : CustomEnv) (chk : Bool) (B : Base) (fd : FieldDef) (raw i : Nat) (u : ITy)
    (hB : B.WF) (hok : FieldOk B fd) (hwide : fd.totalBits ≤ B.internal)
    (hsg : fd.unsignedFieldType = some u) (hi : ∀ c s, fd.array = some (c, s) → i < c) :
    ∃ e, getterBody B fd = some e ∧
      eval Γ chk { raw := .int B.W raw, index := .int .usize i } e
        = .ok (.int fd.primitiveType (gather raw (offOf i fd.stride) fd.ranges 0)) ∧
      fd.primitiveType.signed = true := by
  obtain ⟨e, he, hev⟩ := eval_getterBody Γ chk B fd raw i hB hok hwide hi
  obtain ⟨_, hreg, hcu⟩ := hok.unsigned_twin u hsg
  have hsigned : fd.primitiveType.signed = true := hok.signed_iff.mpr (by simp [hsg])
  have hnb : fd.fieldTypeSize ≠ 0 := by
    intro h0; have := (hok.bool_regular h0).2.1; simp [hsg] at this
  exact ⟨e, he, by simpa [getterResult, hcu, present, hnb, hreg] using hev, hsigned⟩

/-- **C05 (write).** Writing any value of the signed type – given by its N-bit pattern `v`, negative values
    included – stores exactly that pattern in the field and leaves *every* other bit of the storage unchanged. -/
theorem signed_with (Γ : CustomEnv) (chk : Bool) (B : Base) (fd : FieldDef) (raw i : Nat) (u : ITy) (v : Nat)
    (hB : B.WF) (hok : FieldOk B fd) (hwide : fd.totalBits ≤ B.internal) (hraw : raw < 2 ^ B.internal)
    (hsg : fd.unsignedFieldType = some u) (hi : ∀ c s, fd.array = some (c, s) → i < c)
    (hv : v < 2 ^ fd.totalBits) (hd : pairwiseDisjoint fd.ranges = true) :
    ∃ e, withBody B fd = some e ∧
      eval Γ chk { raw := .int B.W raw, index := .int .usize i, fieldValue := .int fd.primitiveType v } e
        = .ok (.int B.W (writeSpec B.internal raw v (offOf i fd.stride) fd.ranges)) := by
  obtain ⟨_, hreg, hcu⟩ := hok.unsigned_twin u hsg
  have hnb : fd.fieldTypeSize ≠ 0 := by
    intro h0; have := (hok.bool_regular h0).2.1; simp [hsg] at this
  have harg : ArgOk Γ fd (.int fd.primitiveType v) v := ⟨hv, by simp [hcu, hnb, hreg]⟩
  obtain ⟨e, he, x, hev, _, hsp, _⟩ := eval_setterBody Γ chk B fd raw i _ v hB hok hwide hraw hi harg
  exact ⟨e, he, by rw [hev, hsp hd]⟩

/-- no sign leak: positions outside the field keep the receiver's bit, however wide the base is -/
theorem no_sign_leak (W raw v off : Nat) (rs : List Rng) (p : Nat) (hraw : raw < 2 ^ W)
    (hp : rs.any (·.covers off p) = false) : (writeSpec W raw v off rs).testBit p = raw.testBit p :=
  writeSpec_outside W raw v off rs p hraw hp

/-- and the field reads back the pattern written -/
theorem signed_read_back (W raw v off : Nat) (rs : List Rng)
    (hfit : ∀ r ∈ rs, r.lo + r.len + off ≤ W) (hd : pairwiseDisjoint rs = true) (hv : v < 2 ^ totalLen rs) :
    gather (writeSpec W raw v off rs) off rs 0 = v := gather_writeSpec W raw v off rs hfit hd hv

/-! non-vacuity: `i16` in bits 48..=63 of a `u64`; writing -1 (pattern 0xFFFF) on the all-zero background -/
example := signed_get Ex.noTypes true (Base.new 64) Ex.sgn (2 ^ 63) 0 .u16 Ex.wf64 Ex.sgn_ok (by decide) rfl (by simp [Ex.sgn])
example := signed_with Ex.noTypes true (Base.new 64) Ex.sgn 0 0 .u16 0xFFFF Ex.wf64 Ex.sgn_ok (by decide) (by decide) rfl
  (by simp [Ex.sgn]) (by decide) (by decide)
example : toInt 16 0xFFFF = -1 := by decide

end Bb.C05
