import BitbybitModel.Props.Examples
/-!
# C06 — the raw value round-trips; ZERO / DEFAULT / Default / new carry the declared value

`Copy`, `size_of` and `align_of` of the generated struct are facts about rustc's layout of
`#[repr(C)] struct { raw_value: uW }`; they are compiler-checked in the correspondence run
(`const` assertions in the generated crates), not modelled.
-/
namespace Bb.C06
open Bb

theorem unsignedOf_storageOf (n : Nat) : ITy.unsignedOf (storageOf n) = ITy.unsignedOf n := by
  unfold storageOf ITy.unsignedOf; (repeat' split) <;> first | rfl | omega

theorem W_eq {B : Base} (hB : B.WF) : B.W = ITy.unsignedOf B.exposed := by
  unfold Base.W; rw [hB.internal_eq, unsignedOf_storageOf]

/-- the value of the base type with numeric value `r`: `uW` for native bases, `UInt<uW, N>` for arbitrary ones -/
def baseVal (B : Base) (r : Nat) : Val := if B.isArbitrary then .uint B.exposed r else .int B.W r

/-- `new_with_raw_value(r)` stores `r` … -/
theorem new_with_raw (Γ : CustomEnv) (chk : Bool) (B : Base) (r : Nat) (hB : B.WF) :
    eval Γ chk { raw := .bool false, value := baseVal B r } (newWithRawBody B) = .ok (.int B.W r) := by
  unfold newWithRawBody baseVal
  by_cases h : B.isArbitrary = true
  · simp [h, eval, Env.get, W_eq hB]
  · have : B.isArbitrary = false := by simpa using h
    simp [this, eval, Env.get]

/-- … and `raw_value()` returns the low `N` bits of the storage as the base type; it never panics -/
theorem raw_value_of_storage (Γ : CustomEnv) (chk : Bool) (B : Base) (s : Nat) (hB : B.WF) :
    eval Γ chk { raw := .int B.W s } (rawValueBody B) = .ok (baseVal B (if B.isArbitrary then s % 2 ^ B.exposed else s)) := by
  unfold rawValueBody baseVal
  by_cases h : B.isArbitrary = true
  · have h1 : B.exposed < 2 ^ 64 := by
      have := hB.le128
      have h128 : (128 : Nat) < 2 ^ 64 := by decide
      omega
    have h2 : B.exposed ≤ B.W.bits := by rw [hB.W_bits]; exact hB.exposed_le
    simp [h, eval, Env.get, eval_usz Γ chk _ 0 (by decide), evalExtract, hB.W_signed, h1, h2]
  · have : B.isArbitrary = false := by simpa using h
    simp [this, eval, Env.get]

/-- **C06 (round trip).** `new_with_raw_value(r).raw_value() == r` for every value `r` of the base type -/
theorem raw_roundtrip (Γ : CustomEnv) (chk : Bool) (B : Base) (r : Nat) (hB : B.WF) (hr : r < 2 ^ B.exposed) :
    ∃ s, eval Γ chk { raw := .bool false, value := baseVal B r } (newWithRawBody B) = .ok (.int B.W s) ∧
      eval Γ chk { raw := .int B.W s } (rawValueBody B) = .ok (baseVal B r) := by
  refine ⟨r, new_with_raw Γ chk B r hB, ?_⟩
  rw [raw_value_of_storage Γ chk B r hB]
  by_cases h : B.isArbitrary = true
  · simp [h, Nat.mod_eq_of_lt hr]
  · have : B.isArbitrary = false := by simpa using h
    simp [this]

/-- `ZERO` is `new_with_raw_value(0)` (for arbitrary bases `uN::new(0)`, which cannot panic) -/
theorem zero_raw (Γ : CustomEnv) (chk : Bool) (ρ : Env) (B : Base) (hB : B.WF) :
    eval Γ chk ρ (zeroArg B) = .ok (baseVal B 0) := by
  unfold zeroArg baseVal
  by_cases h : B.isArbitrary = true
  · simp [h, eval, Nat.two_pow_pos, W_eq hB]
  · have : B.isArbitrary = false := by simpa using h
    simp [this, eval, Nat.two_pow_pos]

/-- `DEFAULT`, `Default::default()` and the deprecated `new()` are all `new_with_raw_value(DEFAULT_RAW_VALUE)`,
    and `DEFAULT_RAW_VALUE` is the declared value `d` – every bit of it, whether a field covers it or not -/
theorem default_raw (Γ : CustomEnv) (chk : Bool) (ρ : Env) (B : Base) (d : Nat) (hB : B.WF) (hd : d < 2 ^ B.exposed) :
    eval Γ chk ρ (defaultRawValue B d) = .ok (baseVal B d) := by
  have hdW : d < 2 ^ B.W.bits := Nat.lt_of_lt_of_le hd (two_pow_le_of_le (by rw [hB.W_bits]; exact hB.exposed_le))
  have hdW' : d < 2 ^ (ITy.unsignedOf B.exposed).bits := by rw [← W_eq hB]; exact hdW
  unfold defaultRawValue baseVal
  by_cases h : B.isArbitrary = true
  · simp [h, eval, hdW', W_eq hB, hd]
  · have : B.isArbitrary = false := by simpa using h
    simp [this, eval, hdW]

/-- a default that does not fit the base is not representable: `uN::new(d)` panics at const evaluation (and for
    native bases the literal is rejected by rustc) – the declaration does not compile -/
theorem default_too_large (Γ : CustomEnv) (chk : Bool) (ρ : Env) (B : Base) (d : Nat) (hB : B.WF)
    (h : B.isArbitrary = true) (hd : 2 ^ B.exposed ≤ d) (hdW : d < 2 ^ B.W.bits) :
    eval Γ chk ρ (defaultRawValue B d) = .error (.panic "UInt::new: value <= MAX") := by
  have : ¬ d < 2 ^ B.exposed := by omega
  have hdW' : d < 2 ^ (ITy.unsignedOf B.exposed).bits := by rw [← W_eq hB]; exact hdW
  simp [defaultRawValue, h, eval, hdW', W_eq hB, this]

/-- the storage is the smallest native integer that holds the base width -/
theorem storage_least (n : Nat) (hn : n ≤ 128) :
    n ≤ storageOf n ∧ storageOf n ∈ [8, 16, 32, 64, 128] ∧ ∀ w ∈ [8, 16, 32, 64, 128], n ≤ w → storageOf n ≤ w := by
  refine ⟨le_storageOf hn, ?_, ?_⟩
  · unfold storageOf; (repeat' split) <;> simp
  · intro w hw hnw
    simp only [List.mem_cons, List.mem_nil_iff, or_false] at hw
    unfold storageOf; (repeat' split) <;> omega

theorem base_storage (n : Nat) : (Base.new n).internal = storageOf n ∧ (Base.new n).exposed = n := ⟨rfl, rfl⟩

/-! non-vacuity -/
example := raw_roundtrip Ex.noTypes true (Base.new 24) 0xABCDEF Ex.wf24 (by decide)
example := default_raw Ex.noTypes true { raw := .bool false } (Base.new 24) 0xFFFFFF Ex.wf24 (by decide)

end Bb.C06
