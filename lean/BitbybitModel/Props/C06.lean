import BitbybitModel.Props.Examples
import BitbybitModel.Macro.Args
/-!
# C06 — the raw value round-trips; ZERO / DEFAULT / Default / new carry the declared value

`Copy`, `size_of` and `align_of` of the generated struct are facts about rustc's layout of
`#[repr(C)] struct { raw_value: uW }`; they are compiler-checked in the correspondence run
(`const` assertions in the generated crates), not modelled.
-/
namespace Bb.C06
open Bb

theorem unsignedOf_storageOf (n : Nat) : ITy.unsignedOf (storageOf n) = ITy.unsignedOf n := by
  unfold storageOf ITy.unsignedOf; (repeat' split) <;> first | rfl | omega

theorem W_eq {B : Base} (hB : B.WF) : B.W = ITy.unsignedOf B.exposed := by
  unfold Base.W; rw [hB.internal_eq, unsignedOf_storageOf]

/-- the value of the base type with numeric value `r`: `uW` for native bases, `UInt<uW, N>` for arbitrary ones -/
def baseVal (B : Base) (r : Nat) : Val := if B.isArbitrary then .uint B.exposed r else .int B.W r

/-- `new_with_raw_value(r)` stores `r` … -/
theorem new_with_raw (Γ : CustomEnv) (chk : Bool) (B : Base) (r : Nat) (hB : B.WF) :
    eval Γ chk { raw := .bool false, value := baseVal B r } (newWithRawBody B) = .ok (.int B.W r) := by
  unfold newWithRawBody baseVal
  by_cases h : B.isArbitrary = true
  · simp [h, eval, Env.get, W_eq hB]
  · have : B.isArbitrary = false := by simpa using h
    simp [this, eval, Env.get]

/-- … and `raw_value()` returns the low `N` bits of the storage as the base type; it never panics -/
theorem raw_value_of_storage (Γ : CustomEnv) (chk : Bool) (B : Base) (s : Nat) (hB : B.WF) :
    eval Γ chk { raw := .int B.W s } (rawValueBody B) = .ok (baseVal B (if B.isArbitrary then s % 2 ^ B.exposed else s)) := by
  unfold rawValueBody baseVal
  by_cases h : B.isArbitrary = true
  · have h1 : B.exposed < 2 ^ 64 := by
      have := hB.le128
      have h128 : (128 : Nat) < 2 ^ 64 := by decide
      omega
    have h2 : B.exposed ≤ B.W.bits := by rw [hB.W_bits]; exact hB.exposed_le
    simp [h, eval, Env.get, eval_usz Γ chk _ 0 (by decide), evalExtract, hB.W_signed, h1, h2]
  · have : B.isArbitrary = false := by simpa using h
    simp [this, eval, Env.get]

/-- **C06 (round trip).** `new_with_raw_value(r).raw_value() == r` for every value `r` of the base type -/
theorem raw_roundtrip (Γ : CustomEnv) (chk : Bool) (B : Base) (r : Nat) (hB : B.WF) (hr : r < 2 ^ B.exposed) :
    ∃ s, eval Γ chk { raw := .bool false, value := baseVal B r } (newWithRawBody B) = .ok (.int B.W s) ∧
      eval Γ chk { raw := .int B.W s } (rawValueBody B) = .ok (baseVal B r) := by
  refine ⟨r, new_with_raw Γ chk B r hB, ?_⟩
  rw [raw_value_of_storage Γ chk B r hB]
  by_cases h : B.isArbitrary = true
  · simp [h, Nat.mod_eq_of_lt hr]
  · have : B.isArbitrary = false := by simpa using h
    simp [this]

/-- `ZERO` is `new_with_raw_value(0)` (for arbitrary bases `uN::new(0)`, which cannot panic) -/
theorem zero_raw (Γ : CustomEnv) (chk : Bool) (ρ : Env) (B : Base) (hB : B.WF) :
    eval Γ chk ρ (zeroArg B) = .ok (baseVal B 0) := by
  unfold zeroArg baseVal
  by_cases h : B.isArbitrary = true
  · simp [h, eval, Nat.two_pow_pos, W_eq hB]
  · have : B.isArbitrary = false := by simpa using h
    simp [this, eval, Nat.two_pow_pos]

/-- `DEFAULT`, `Default::default()` and the deprecated `new()` are all `new_with_raw_value(DEFAULT_RAW_VALUE)`,
    and `DEFAULT_RAW_VALUE` is the declared value `d` – every bit of it, whether a field covers it or not -/
theorem default_raw (Γ : CustomEnv) (chk : Bool) (ρ : Env) (B : Base) (d : Nat) (hB : B.WF) (hd : d < 2 ^ B.exposed) :
    eval Γ chk ρ (defaultRawValue B d) = .ok (baseVal B d) := by
  have hdW : d < 2 ^ B.W.bits := Nat.lt_of_lt_of_le hd (two_pow_le_of_le (by rw [hB.W_bits]; exact hB.exposed_le))
  have hdW' : d < 2 ^ (ITy.unsignedOf B.exposed).bits := by rw [← W_eq hB]; exact hdW
  unfold defaultRawValue baseVal
  by_cases h : B.isArbitrary = true
  · simp [h, eval, hdW', W_eq hB, hd]
  · have : B.isArbitrary = false := by simpa using h
    simp [this, eval, hdW]

/-- a default that does not fit the base is not representable: `uN::new(d)` panics at const evaluation (and for
    native bases the literal is rejected by rustc) – the declaration does not compile -/
theorem default_too_large (Γ : CustomEnv) (chk : Bool) (ρ : Env) (B : Base) (d : Nat) (hB : B.WF)
    (h : B.isArbitrary = true) (hd : 2 ^ B.exposed ≤ d) (hdW : d < 2 ^ B.W.bits) :
    eval Γ chk ρ (defaultRawValue B d) = .error (.panic "UInt::new: value <= MAX") := by
  have : ¬ d < 2 ^ B.exposed := by omega
  have hdW' : d < 2 ^ (ITy.unsignedOf B.exposed).bits := by rw [← W_eq hB]; exact hdW
  simp [defaultRawValue, h, eval, hdW', W_eq hB, this]

/-- the storage is the smallest native integer that holds the base width -/
theorem storage_least (n : Nat) (hn : n ≤ 128) :
    n ≤ storageOf n ∧ storageOf n ∈ [8, 16, 32, 64, 128] ∧ ∀ w ∈ [8, 16, 32, 64, 128], n ≤ w → storageOf n ≤ w := by
  refine ⟨le_storageOf hn, ?_, ?_⟩
  · unfold storageOf; (repeat' split) <;> simp
  · intro w hw hnw
    simp only [List.mem_cons, List.mem_nil_iff, or_false] at hw
    unfold storageOf; (repeat' split) <;> omega

theorem base_storage (n : Nat) : (Base.new n).internal = storageOf n ∧ (Base.new n).exposed = n := ⟨rfl, rfl⟩

/-! non-vacuity -/
example := raw_roundtrip Ex.noTypes true (Base.new 24) 0xABCDEF Ex.wf24 (by decide)
example := default_raw Ex.noTypes true { raw := .bool false } (Base.new 24) 0xFFFFFF Ex.wf24 (by decide)


/-! ## the argument list: every way of declaring (or not declaring) a default -/

/-- **literal default, both separators** (`default = v` and the legacy `default: v`) -/
theorem args_default_lit (cv : String → Option Nat) (b : String) (sep : ATok) (hs : sep = .colon ∨ sep = .eq) (v : Nat) :
    parseBitfieldArgs cv [⟨[b], []⟩, ⟨["default"], [sep, .int v false]⟩] = .ok (b, some (.lit v), false) := by
  rcases hs with rfl | rfl <;> simp [parseBitfieldArgs, parseArgsFrom, parseArg, leftover]

/-- **named-constant default, both separators** -/
theorem args_default_const (cv : String → Option Nat) (b c : String) (sep : ATok) (hs : sep = .colon ∨ sep = .eq) (v : Nat)
    (hc : cv c = some v) :
    parseBitfieldArgs cv [⟨[b], []⟩, ⟨["default"], [sep, .ident c]⟩] = .ok (b, some (.const v), false) := by
  rcases hs with rfl | rfl <;> simp [parseBitfieldArgs, parseArgsFrom, parseArg, leftover, hc]

/-- no default -/
theorem args_no_default (cv : String → Option Nat) (b : String) :
    parseBitfieldArgs cv [⟨[b], []⟩] = .ok (b, none, false) := by
  simp [parseBitfieldArgs, parseArgsFrom, parseArg, leftover]

/-- an empty argument list is an error -/
theorem args_empty (cv : String → Option Nat) : ∃ e, parseBitfieldArgs cv [] = .error e := ⟨_, rfl⟩

/-- after the base type, an argument that is neither `default` nor `debug` and carries no further tokens is ignored -/
theorem parseArg_unknown (i : Nat) (hi : i ≠ 0) (p : List String) (hp : p ≠ []) (h1 : p ≠ ["default"]) (h2 : p ≠ ["debug"])
    (st : ArgState) : parseArg i ⟨p, []⟩ st = .ok st := by
  unfold parseArg
  have : p.isEmpty = false := by cases p <;> simp_all
  simp [this, hi, h1, h2, leftover]

/-- past element 0 the position of an argument does not matter -/
theorem parseArg_index (i j : Nat) (hi : i ≠ 0) (hj : j ≠ 0) (a : ArgSyn) (st : ArgState) : parseArg i a st = parseArg j a st := by
  unfold parseArg; simp [hi, hj]

theorem parseArgsFrom_index (as : List ArgSyn) : ∀ (i j : Nat), i ≠ 0 → j ≠ 0 → ∀ st, parseArgsFrom i as st = parseArgsFrom j as st := by
  induction as with
  | nil => intro i j _ _ st; rfl
  | cons a as ih =>
    intro i j hi hj st
    simp only [parseArgsFrom, parseArg_index i j hi hj a st]
    cases parseArg j a st with
    | error e => rfl
    | ok st' => exact ih (i + 1) (j + 1) (by omega) (by omega) st'

/-- **unknown arguments are ignored wherever they stand** (after the base type) -/
theorem args_unknown_ignored (p : List String) (hp : p ≠ []) (h1 : p ≠ ["default"]) (h2 : p ≠ ["debug"]) :
    ∀ (pre post : List ArgSyn) (i : Nat), i ≠ 0 → ∀ st,
      parseArgsFrom i (pre ++ ⟨p, []⟩ :: post) st = parseArgsFrom i (pre ++ post) st := by
  intro pre
  induction pre with
  | nil =>
    intro post i hi st
    simp only [List.nil_append, parseArgsFrom, parseArg_unknown i hi p hp h1 h2 st]
    exact parseArgsFrom_index post (i + 1) i (by omega) hi st
  | cons a pre ih =>
    intro post i hi st
    simp only [List.cons_append, parseArgsFrom]
    cases parseArg i a st with
    | error e => rfl
    | ok st' => exact ih post (i + 1) (by omega) st'

/-- of two defaults the later one counts -/
theorem args_last_default_wins (cv : String → Option Nat) (b : String) (v w : Nat) :
    parseBitfieldArgs cv [⟨[b], []⟩, ⟨["default"], [.eq, .int v false]⟩, ⟨["default"], [.colon, .int w false]⟩]
      = .ok (b, some (.lit w), false) := by
  simp [parseBitfieldArgs, parseArgsFrom, parseArg, leftover]

/-- `debug` sets the flag and nothing else -/
theorem args_debug (cv : String → Option Nat) (b : String) :
    parseBitfieldArgs cv [⟨[b], []⟩, ⟨["debug"], []⟩] = .ok (b, none, true) := by
  simp [parseBitfieldArgs, parseArgsFrom, parseArg, leftover]

/-- a quirk of the argument parser, shared by model and code: a literal that is not an integer after `default =` is
    consumed without declaring a default (the declaration is accepted and has no `DEFAULT`) -/
theorem args_nonint_literal_quirk (cv : String → Option Nat) (b : String) :
    parseBitfieldArgs cv [⟨[b], []⟩, ⟨["default"], [.eq, .otherLit]⟩] = .ok (b, none, false) := by
  simp [parseBitfieldArgs, parseArgsFrom, parseArg, leftover]

/-- what cannot be a default is an error: no separator, a negative literal, leftover tokens, tokens after the base -/
theorem args_default_errors (cv : String → Option Nat) (b : String) (v : Nat) :
    (parseBitfieldArgs cv [⟨[b], []⟩, ⟨["default"], [.int v false]⟩]).toBool = false ∧
    (parseBitfieldArgs cv [⟨[b], []⟩, ⟨["default"], []⟩]).toBool = false ∧
    (parseBitfieldArgs cv [⟨[b], []⟩, ⟨["default"], [.eq, .int v true]⟩]).toBool = false ∧
    (parseBitfieldArgs cv [⟨[b], []⟩, ⟨["default"], [.eq, .int v false, .int v false]⟩]).toBool = false ∧
    (parseBitfieldArgs cv [⟨[b], [.eq, .int v false]⟩]).toBool = false := by
  refine ⟨?_, ?_, ?_, ?_, ?_⟩ <;> simp [parseBitfieldArgs, parseArgsFrom, parseArg, leftover, Except.toBool]


end Bb.C06
