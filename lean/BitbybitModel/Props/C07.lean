import BitbybitModel.Props.C10
/-!
# C07 — bitenum raw-value conversions are exact, total and mutually inverse

`d.active` lists the variants that survive cfg-stripping, with their discriminants. That the discriminants of
one enum are pairwise distinct (`Nodup`) is enforced by rustc itself (E0081) and is validated by a reject probe
in the correspondence corpus; variant names are distinct by the language.
-/
namespace Bb.C07
open Bb

def discrs (d : EnumDef) : List Nat := d.active.map (·.2)
def names (d : EnumDef) : List String := d.active.map (·.1)

/-- what `bitenumCore` returns is the declaration it was given -/
theorem core_ok_def (bits : Bits) (exh : Option Exhaustiveness) (vs : List VariantSyn) (d : EnumDef)
    (h : bitenumCore { explicitBits := some bits, explicitExhaustive := exh } vs = .ok d) :
    d.bits = bits ∧ d.exhaustive = exh.getD .fls ∧ d.variants = vs ∧ bits.baseType = .ok d.baseType := by
  unfold bitenumCore at h
  simp only at h
  (repeat' split at h) <;> (try (simp at h))
  all_goals (cases h; exact ⟨rfl, rfl, rfl, by assumption⟩)

theorem find_discr (l : List (String × Nat)) (x : Nat) (name : String) (hnd : (l.map (·.2)).Nodup) (hm : (name, x) ∈ l) :
    l.find? (fun p => p.2 == x) = some (name, x) := by
  induction l with
  | nil => cases hm
  | cons q l ih =>
    simp only [List.map, List.nodup_cons] at hnd
    rcases List.mem_cons.mp hm with rfl | hm'
    · simp [List.find?]
    · have hne : q.2 ≠ x := by
        intro he
        apply hnd.1
        rw [he]
        exact List.mem_map.mpr ⟨(name, x), hm', rfl⟩
      have hb : (q.2 == x) = false := by simpa using hne
      simp [List.find?, hb, ih hnd.2 hm']

theorem find_name (l : List (String × Nat)) (x : Nat) (name : String) (hnd : (l.map (·.1)).Nodup) (hm : (name, x) ∈ l) :
    l.find? (fun p => p.1 == name) = some (name, x) := by
  induction l with
  | nil => cases hm
  | cons q l ih =>
    simp only [List.map, List.nodup_cons] at hnd
    rcases List.mem_cons.mp hm with rfl | hm'
    · simp [List.find?]
    · have hne : q.1 ≠ name := by
        intro he
        apply hnd.1
        rw [he]
        exact List.mem_map.mpr ⟨(name, x), hm', rfl⟩
      have hb : (q.1 == name) = false := by simpa using hne
      simp [List.find?, hb, ih hnd.2 hm']

/-- **C07 (hit).** `new_with_raw_value(x)` returns the variant whose discriminant is `x` -/
theorem new_hit (d : EnumDef) (x : Nat) (name : String) (hnd : (discrs d).Nodup) (hm : (name, x) ∈ d.active) :
    d.newWithRawValue x = .variant name := by
  simp [EnumDef.newWithRawValue, find_discr d.active x name hnd hm]

/-- **C07 (miss).** when no variant has discriminant `x`, non-exhaustive and conditional enums return `Err(x)` -/
theorem new_miss (d : EnumDef) (x : Nat) (hx : x ∉ discrs d) (hne : d.nonExhaustive = true) :
    d.newWithRawValue x = .err x := by
  have : d.active.find? (fun p => p.2 == x) = none := by
    rw [List.find?_eq_none]
    intro p hp hpx
    apply hx
    simp only [beq_iff_eq] at hpx
    exact List.mem_map.mpr ⟨p, hp, hpx⟩
  simp [EnumDef.newWithRawValue, this, hne]

/-- it never panics for non-exhaustive and conditional enums: the result is a variant or `Err` -/
theorem new_never_panics (d : EnumDef) (x : Nat) (hne : d.nonExhaustive = true) : d.newWithRawValue x ≠ .unreachable := by
  unfold EnumDef.newWithRawValue
  split
  · simp
  · simp [hne]

/-- accepted enums with `exhaustive = true`: no variant is cfg-gated, there are exactly 2^N of them, all below 2^N -/
theorem accepted_exhaustive (N : Nat) (vs : List VariantSyn) (d : EnumDef)
    (h : bitenumCore { explicitBits := some ⟨true, N⟩, explicitExhaustive := some .tru } vs = .ok d) :
    d.active.length = 2 ^ N ∧ ∀ x ∈ discrs d, x < 2 ^ N := by
  obtain ⟨_, _, hvs, _⟩ := core_ok_def _ _ _ _ h
  obtain ⟨_, _, hlit, hbelow, hlen, hcfg⟩ := (C10.enum_accept_iff N (some .tru) vs).mp ⟨d, h⟩
  have hact : ∀ ws : List VariantSyn, AllLit ws → ws.any (·.hasCfg) = false →
      (ws.filterMap VariantSyn.activeEntry).length = ws.length := by
    intro ws
    induction ws with
    | nil => intro _ _; rfl
    | cons w ws ih =>
      intro hl hc
      obtain ⟨n, hn⟩ := hl w (by simp)
      simp only [List.any_cons, Bool.or_eq_false_iff] at hc
      have := ih (fun u hu => hl u (by simp [hu])) hc.2
      have he : w.activeEntry = some (w.name, n) := by simp [VariantSyn.activeEntry, hn, hc.1]
      simp [List.filterMap, he, this]
  refine ⟨by unfold EnumDef.active; rw [hvs, hact vs hlit hcfg, hlen], ?_⟩
  intro x hx
  simp only [discrs, EnumDef.active, List.mem_map, List.mem_filterMap] at hx
  obtain ⟨p, ⟨w, hw, hwp⟩, rfl⟩ := hx
  rw [hvs] at hw
  unfold VariantSyn.activeEntry at hwp
  cases hd : w.discr with
  | lit n =>
    simp only [hd] at hwp
    split at hwp
    · cases hwp; exact hbelow w hw n hd
    · cases hwp
  | missing => simp [hd] at hwp
  | nonLit => simp [hd] at hwp

/-- **C07 (total).** an enum accepted as exhaustive converts every N-bit value to a variant: the `unreachable!()`
    arm is dead (pigeonhole) -/
theorem exhaustive_total (N : Nat) (vs : List VariantSyn) (d : EnumDef)
    (h : bitenumCore { explicitBits := some ⟨true, N⟩, explicitExhaustive := some .tru } vs = .ok d)
    (hnd : (discrs d).Nodup) (x : Nat) (hx : x < 2 ^ N) : ∃ name, d.newWithRawValue x = .variant name := by
  obtain ⟨hlen, hlt⟩ := accepted_exhaustive N vs d h
  have hmem : x ∈ discrs d := all_present (2 ^ N) (discrs d) hnd (by simp [discrs, hlen]) hlt x hx
  simp only [discrs, List.mem_map] at hmem
  obtain ⟨p, hp, hpx⟩ := hmem
  exact ⟨p.1, new_hit d x p.1 hnd (by rw [← hpx]; exact hp)⟩

/-- **C07 (raw_value).** `variant.raw_value()` is the discriminant as the declared storage type; the `UInt::new`
    it goes through cannot panic for an accepted enum -/
theorem raw_value_eq (N : Nat) (exh : Option Exhaustiveness) (vs : List VariantSyn) (d : EnumDef)
    (h : bitenumCore { explicitBits := some ⟨true, N⟩, explicitExhaustive := exh } vs = .ok d)
    (hnn : (names d).Nodup) (name : String) (n : Nat) (hm : (name, n) ∈ d.active) : d.rawValue name = some n := by
  obtain ⟨hbits, _, hvs, hbt⟩ := core_ok_def _ _ _ _ h
  obtain ⟨hN1, hN2, _, hbelow, _⟩ := (C10.enum_accept_iff N exh vs).mp ⟨d, h⟩
  have hn : n < 2 ^ N := by
    simp only [EnumDef.active, List.mem_filterMap] at hm
    obtain ⟨w, hw, hwp⟩ := hm
    rw [hvs] at hw
    unfold VariantSyn.activeEntry at hwp
    cases hd : w.discr with
    | lit k =>
      simp only [hd] at hwp
      split at hwp
      · cases hwp; exact hbelow w hw n hd
      · cases hwp
    | missing => simp [hd] at hwp
    | nonLit => simp [hd] at hwp
  have hbase : N ≤ d.baseType.bits := by
    have := hbt
    unfold Bits.baseType at this
    simp only at this
    (repeat' split at this) <;> (try (simp at this)) <;> (try (rw [← this]; simp [ITy.bits]; omega))
  have hmod : n % 2 ^ d.baseType.bits = n := Nat.mod_eq_of_lt (Nat.lt_of_lt_of_le hn (Nat.pow_le_pow_right (by decide) hbase))
  simp [EnumDef.rawValue, find_name d.active n name hnn hm, hmod, hbits, hn]

/-- **C07 (inverse).** converting a variant to its raw value and back gives the variant; converting a raw value that
    names a variant to the variant and back gives the raw value -/
theorem new_of_raw (N : Nat) (exh : Option Exhaustiveness) (vs : List VariantSyn) (d : EnumDef)
    (h : bitenumCore { explicitBits := some ⟨true, N⟩, explicitExhaustive := exh } vs = .ok d)
    (hnd : (discrs d).Nodup) (hnn : (names d).Nodup) (name : String) (n : Nat) (hm : (name, n) ∈ d.active) :
    d.rawValue name = some n ∧ d.newWithRawValue n = .variant name :=
  ⟨raw_value_eq N exh vs d h hnn name n hm, new_hit d n name hnd hm⟩

/-! non-vacuity -/
def ex4 : List VariantSyn := [C10.v "A" 0, C10.v "B" 3, C10.v "C" 1, C10.v "D" 2]
example : ∃ d, bitenumCore { explicitBits := some ⟨true, 2⟩, explicitExhaustive := some .tru } ex4 = .ok d := ⟨_, rfl⟩

end Bb.C07
