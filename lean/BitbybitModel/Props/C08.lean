import BitbybitModel.Props.Examples
import BitbybitModel.Props.C07
/-!
# C08 — enum- and custom-typed fields convert through the type's raw value

The user type is opaque: the generated code reaches it only through `T::new_with_raw_value` and
`raw_value()`, here the two functions of `CustomEnv`. The theorems hold for every such environment.
-/
namespace Bb.C08
open Bb

/-- the presentation handed to `T::new_with_raw_value`: `u1`-style `UInt` for 1-bit and odd widths,
    the native integer for 8/16/32/64/128-bit types -/
theorem presentation (fd : FieldDef) (bits : Nat) (hc : fd.custom.isSome) (hnb : fd.fieldTypeSize ≠ 0) :
    present fd bits = if fd.useRegularInt then .int fd.primitiveType bits else .uint fd.totalBits bits := by
  simp [present, hnb]

/-- **C08 (read).** A custom-typed field reads as `T::new_with_raw_value(field bits)`; for `Option<E>` fields
    this is the `Result` the conversion returns (`Ok(variant)` / `Err(raw bits)`), passed through unchanged. -/
theorem custom_get (Γ : CustomEnv) (chk : Bool) (B : Base) (fd : FieldDef) (raw i : Nat) (c : CustomTy)
    (hB : B.WF) (hok : FieldOk B fd) (hwide : fd.totalBits ≤ B.internal) (hc : fd.custom = some c)
    (hi : ∀ c s, fd.array = some (c, s) → i < c) :
    ∃ e, getterBody B fd = some e ∧
      eval Γ chk { raw := .int B.W raw, index := .int .usize i } e
        = Γ.new c.ty (present fd (gather raw (offOf i fd.stride) fd.ranges 0)) := by
  obtain ⟨e, he, hev⟩ := eval_getterBody Γ chk B fd raw i hB hok hwide hi
  exact ⟨e, he, by simpa [getterResult, hc] using hev⟩

/-- **C08 (write).** Writing a custom value stores `value.raw_value()` – pattern `v` – into exactly the field's bits. -/
theorem custom_with (Γ : CustomEnv) (chk : Bool) (B : Base) (fd : FieldDef) (raw i : Nat) (c : CustomTy) (fv : Val) (v : Nat)
    (hB : B.WF) (hok : FieldOk B fd) (hwide : fd.totalBits ≤ B.internal) (hraw : raw < 2 ^ B.internal)
    (hc : fd.custom = some c) (hi : ∀ c s, fd.array = some (c, s) → i < c)
    (hv : v < 2 ^ fd.totalBits)
    (hrawfn : Γ.raw fv = .ok (if fd.useRegularInt then .int fd.primitiveType v else .uint fd.totalBits v))
    (hd : pairwiseDisjoint fd.ranges = true) :
    ∃ e, withBody B fd = some e ∧
      eval Γ chk { raw := .int B.W raw, index := .int .usize i, fieldValue := fv } e
        = .ok (.int B.W (writeSpec B.internal raw v (offOf i fd.stride) fd.ranges)) := by
  have harg : ArgOk Γ fd fv v := ⟨hv, by
    simp only [hc]
    by_cases hreg : fd.useRegularInt = true
    · simpa [hreg] using hrawfn
    · have : fd.useRegularInt = false := by simpa using hreg
      simpa [this] using hrawfn⟩
  obtain ⟨e, he, x, hev, _, hsp, _⟩ := eval_setterBody Γ chk B fd raw i fv v hB hok hwide hraw hi harg
  exact ⟨e, he, by rw [hev, hsp hd]⟩

/-! ### the user type instantiated: a bitenum, and a nested bitfield -/

/-- the conversion functions of a bitenum `d` as the generated code of a *field* sees them (the model of
    `bitenum.rs` plugged into the opaque environment) -/
def enumEnv (d : EnumDef) : CustomEnv where
  new := fun ty x =>
    match x with
    | .uint _ n | .int _ n =>
      (match d.newWithRawValue n with
       | .variant _ => if d.nonExhaustive then .ok (.res true (.custom ty x)) else .ok (.custom ty x)
       | .err e => .ok (.res false (.int d.baseType e))
       | .unreachable => .error (.panic "unreachable!()"))
    | _ => .error (.stuck "raw type")
  raw := fun v => match v with
    | .custom _ r => .ok r
    | _ => .error (.stuck "raw_value() receiver")

/-- **`Option<E>` fields read as `Ok(variant)` or `Err(the raw field bits)`**: for a field of an arbitrary-width,
    non-exhaustive (or conditional) bitenum `d`, the getter yields `Ok` of the variant whose discriminant is the field's
    bits when there is one, and otherwise `Err` of exactly those bits – never a panic. -/
theorem option_enum_get (chk : Bool) (B : Base) (fd : FieldDef) (raw i : Nat) (c : CustomTy) (d : EnumDef)
    (hB : B.WF) (hok : FieldOk B fd) (hwide : fd.totalBits ≤ B.internal) (hc : fd.custom = some c)
    (hreg : fd.useRegularInt = false) (hnb : fd.fieldTypeSize ≠ 0) (hne : d.nonExhaustive = true) (hnd : (C07.discrs d).Nodup)
    (hi : ∀ c s, fd.array = some (c, s) → i < c) :
    let bits := gather raw (offOf i fd.stride) fd.ranges 0
    ∃ e, getterBody B fd = some e ∧
      eval (enumEnv d) chk { raw := .int B.W raw, index := .int .usize i } e =
        (if bits ∈ C07.discrs d then .ok (.res true (.custom c.ty (.uint fd.totalBits bits)))
         else .ok (.res false (.int d.baseType bits))) := by
  intro bits
  obtain ⟨e, he, hev⟩ := custom_get (enumEnv d) chk B fd raw i c hB hok hwide hc hi
  refine ⟨e, he, ?_⟩
  rw [hev]
  have hp : present fd bits = .uint fd.totalBits bits := by simp [present, hnb, hreg]
  rw [hp]
  by_cases hm : bits ∈ C07.discrs d
  · obtain ⟨p, hpm, hpb⟩ := List.mem_map.mp hm
    have := C07.new_hit d bits p.1 hnd (by rw [← hpb]; exact hpm)
    simp [enumEnv, this, hne, hm]
  · have := C07.new_miss d bits hm hne
    simp [enumEnv, this, hm]

/-- a nested bitfield (or any type whose conversions are total wrappers of its raw value) round-trips: the field
    reads back the value that was written -/
def wrapEnv : CustomEnv where
  new := fun ty x => .ok (.custom ty x)
  raw := fun v => match v with
    | .custom _ r => .ok r
    | _ => .error (.stuck "raw_value() receiver")

theorem nested_get (chk : Bool) (B : Base) (fd : FieldDef) (raw i : Nat) (c : CustomTy)
    (hB : B.WF) (hok : FieldOk B fd) (hwide : fd.totalBits ≤ B.internal) (hc : fd.custom = some c)
    (hi : ∀ c s, fd.array = some (c, s) → i < c) :
    ∃ e, getterBody B fd = some e ∧
      eval wrapEnv chk { raw := .int B.W raw, index := .int .usize i } e
        = .ok (.custom c.ty (present fd (gather raw (offOf i fd.stride) fd.ranges 0))) := by
  obtain ⟨e, he, hev⟩ := custom_get wrapEnv chk B fd raw i c hB hok hwide hc hi
  exact ⟨e, he, by rw [hev]; rfl⟩

/-! non-vacuity: a 3-bit `Option<E>` field at bits 5..=7 of a `u32`, with an environment for a 3-bit enum
    whose only missing discriminant is 5 -/
def env3 : CustomEnv where
  new := fun ty x => match x with
    | .uint 3 n => if n = 5 then .ok (.res false (.int .u8 n)) else .ok (.res true (.custom ty x))
    | _ => .error (.stuck "type")
  raw := fun v => match v with | .custom _ r => .ok r | _ => .error (.stuck "type")

example := custom_get env3 true (Base.new 32) Ex.enm (5 <<< 5) 0 ⟨0, true⟩ Ex.wf32 Ex.enm_ok (by decide) rfl (by simp [Ex.enm])
example := custom_with env3 true (Base.new 32) Ex.enm 0 0 ⟨0, true⟩ (.custom 0 (.uint 3 6)) 6 Ex.wf32 Ex.enm_ok (by decide) (by decide) rfl
  (by simp [Ex.enm]) (by decide) (by simp [env3, Ex.enm, FieldDef.totalBits]) (by decide)

end Bb.C08
