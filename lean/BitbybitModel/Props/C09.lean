import BitbybitModel.Lemmas.ParseOk
import BitbybitModel.Lemmas.Render
import BitbybitModel.Lemmas.RenderOrder
import BitbybitModel.Lemmas.Literal
/-!
# C09 — a bitfield declaration compiles iff every field fits its type and the base

Three layers, in the order the macro works:

1. **tokens → attribute content** (`parseAttrs`, the `ArgumentParser` state machine). Proved for *every* token
   stream: what it returns has only non-empty ranges (`lo ≤ hi`: `reversed_range_rejected`, `parseAttrs_pos`), and a
   stride is only ever recorded for array fields (`stride_only_for_arrays`). That the rendering of a well-formed
   attribute is parsed back to its content is not proved; it is exercised on every run by the correspondence
   (thousands of rendered declarations, rustc's verdict vs the model's).
2. **attribute content → accept / reject** (`firstError`): `accept_iff_rules` – accepted exactly when the rule set
   of the property holds.
3. **accepted ⇒ well-behaved**: `accepted_fieldOk` (= `parseField_ok`, for every token stream) gives `FieldOk`, the
   premise under which C01–C05, C08, C11–C13 and C16 prove that accessors neither truncate, alias nor panic.

Custom (enum / nested bitfield) field types have no width the macro could know; for them the macro derives the
width from the ranges and rustc's type checker enforces the equality (`custom_width_checked`).
-/
namespace Bb.C09
open Bb

/-- the rule set of the property for one field: `N` the declared base width, `ti` what the field type says,
    `count` the array length if any, `ps` the content of the `bit`/`bits` attribute -/
structure RuleValid (N : Nat) (ti : TyInfo) (count : Option Nat) (ps : PState) : Prop where
  /-- the field selects at least one range -/
  nonempty : ps.ranges ≠ []
  /-- the field's type width equals the number of bits it selects (bool: exactly one bit in one range; custom
      types: at most 128 bits, the equality being rustc's type check) -/
  width : match ti.fromDT with
    | some b => if b = 0 then ps.ranges.length = 1 ∧ sumLens ps.ranges = 1 else sumLens ps.ranges = b
    | none => sumLens ps.ranges ≤ 128
  /-- arrays have at least two elements, stride ≥ element width (mandatory for non-contiguous elements), and every
      bit addressed over all indices lies below the declared base width; scalars likewise -/
  layout : match count with
    | some c => 2 ≤ c ∧
        (ps.ranges.length = 1 → sumLens ps.ranges ≤ ps.indexedStride.getD (sumLens ps.ranges)) ∧
        (ps.ranges.length ≠ 1 → ps.indexedStride.isSome) ∧
        (c - 1) * strideOf ps (sumLens ps.ranges) + maxEnd ps.ranges ≤ N
    | none => maxEnd ps.ranges ≤ N

theorem sumLens_pos_of_nonempty (ps : PState) (hpos : ps.RangesPos) (hne : ps.ranges ≠ []) : 1 ≤ sumLens ps.ranges := by
  cases hr : ps.ranges with
  | nil => exact absurd hr hne
  | cons r rs =>
    have h1 := hpos r (by simp [hr])
    have : ∀ (l : List Rng) (a : Nat), a ≤ l.foldl (fun a r => a + r.len) a := by
      intro l; induction l with
      | nil => intro a; simp
      | cons x l ih => intro a; simp only [List.foldl]; exact Nat.le_trans (Nat.le_add_right _ _) (ih _)
    simp only [sumLens, List.foldl]
    exact Nat.le_trans (by omega) (this rs (0 + r.len))

/-- **C09 (accept ⇔ rules).** After the attributes have been read, `parse_field` accepts the field exactly when the
    rule set holds (for a base of at most 128 bits, i.e. every supported base). -/
theorem accept_iff_rules (N : Nat) (hN : N ≤ 128) (ti : TyInfo) (count : Option Nat) (ps : PState)
    (hti : ti.WF) (hpos : ps.RangesPos) :
    firstError N ti count ps = none ↔ RuleValid N ti count ps := by
  have h128 : (128 : Nat) < 2 ^ 64 := by decide
  constructor
  · intro h
    unfold firstError at h
    simp only at h
    by_cases h1 : sumLens ps.ranges ≥ 2 ^ 64
    · simp [h1] at h
    rw [if_neg h1] at h
    by_cases h2 : ti.fromDT = none ∧ sumLens ps.ranges > 128
    · simp [h2] at h
    rw [if_neg h2] at h
    by_cases h3 : fieldTypeSizeOf ti (sumLens ps.ranges) = BITCOUNT_BOOL ∧ (sumLens ps.ranges ≠ 1 ∨ ps.ranges.length ≠ 1)
    · rw [if_pos h3] at h; split at h <;> cases h
    rw [if_neg h3] at h
    by_cases h4 : fieldTypeSizeOf ti (sumLens ps.ranges) ≠ BITCOUNT_BOOL ∧ sumLens ps.ranges ≠ fieldTypeSizeOf ti (sumLens ps.ranges)
    · simp [h4] at h
    rw [if_neg h4] at h
    have hwidth : match ti.fromDT with
        | some b => if b = 0 then ps.ranges.length = 1 ∧ sumLens ps.ranges = 1 else sumLens ps.ranges = b
        | none => sumLens ps.ranges ≤ 128 := by
      cases hf : ti.fromDT with
      | none =>
        simp only
        by_cases hx : sumLens ps.ranges > 128
        · exact absurd ⟨hf, hx⟩ h2
        · omega
      | some b =>
        simp only
        by_cases hb : b = 0
        · simp only [hb, if_true]
          have hz : fieldTypeSizeOf ti (sumLens ps.ranges) = BITCOUNT_BOOL := by simp [fieldTypeSizeOf, hf, hb, BITCOUNT_BOOL]
          by_cases ha : sumLens ps.ranges = 1
          · by_cases hl : ps.ranges.length = 1
            · exact ⟨hl, ha⟩
            · exact absurd ⟨hz, Or.inr hl⟩ h3
          · exact absurd ⟨hz, Or.inl ha⟩ h3
        · simp only [hb, if_false]
          have hz : fieldTypeSizeOf ti (sumLens ps.ranges) ≠ BITCOUNT_BOOL := by simp [fieldTypeSizeOf, hf, BITCOUNT_BOOL, hb]
          by_cases ha : sumLens ps.ranges = fieldTypeSizeOf ti (sumLens ps.ranges)
          · simpa [fieldTypeSizeOf, hf] using ha
          · exact absurd ⟨hz, ha⟩ h4
    have hne : ps.ranges ≠ [] := by
      intro he
      cases hf : ti.fromDT with
      | none =>
        have hz : fieldTypeSizeOf ti (sumLens ps.ranges) = BITCOUNT_BOOL := by simp [fieldTypeSizeOf, hf, he, sumLens, BITCOUNT_BOOL]
        exact h3 ⟨hz, Or.inl (by simp [he, sumLens])⟩
      | some b =>
        rw [hf] at hwidth
        simp only at hwidth
        by_cases hb : b = 0
        · simp [hb, he] at hwidth
        · simp only [hb, if_false, he, sumLens, List.foldl] at hwidth; omega
    refine ⟨hne, hwidth, ?_⟩
    cases hc : count with
    | none =>
      simp only [hc] at h ⊢
      by_cases hb : maxEnd ps.ranges > N
      · simp [hb] at h
      · omega
    | some c =>
      simp only [hc] at h ⊢
      by_cases a1 : ps.ranges.length = 1 ∧ sumLens ps.ranges > strideOf ps (sumLens ps.ranges)
      · simp [a1] at h
      rw [if_neg a1] at h
      by_cases a2 : ps.ranges.length ≠ 1 ∧ ps.indexedStride = none
      · simp [a2] at h
      rw [if_neg a2] at h
      by_cases a3 : c = 0
      · simp [a3] at h
      rw [if_neg a3] at h
      by_cases a4 : (c - 1) * strideOf ps (sumLens ps.ranges) + maxEnd ps.ranges ≥ 2 ^ 64
      · simp [a4] at h
      rw [if_neg a4] at h
      by_cases a5 : (c - 1) * strideOf ps (sumLens ps.ranges) + maxEnd ps.ranges > N
      · simp [a5] at h
      rw [if_neg a5] at h
      by_cases a6 : c < 2
      · simp [a6] at h
      refine ⟨by omega, ?_, ?_, by omega⟩
      · intro hl
        by_cases hx : sumLens ps.ranges > strideOf ps (sumLens ps.ranges)
        · exact absurd ⟨hl, hx⟩ a1
        · simp only [strideOf, hl, if_true] at hx; omega
      · intro hl
        cases hs : ps.indexedStride with
        | none => exact absurd ⟨hl, hs⟩ a2
        | some s => rfl
  · intro ⟨hne, hwidth, hlayout⟩
    have hsum1 := sumLens_pos_of_nonempty ps hpos hne
    have hsum128 : sumLens ps.ranges ≤ 128 := by
      cases hf : ti.fromDT with
      | none => rw [hf] at hwidth; exact hwidth
      | some b =>
        rw [hf] at hwidth; simp only at hwidth
        have := hti.le128 b hf
        by_cases hb : b = 0
        · simp only [hb, if_true] at hwidth; omega
        · simp only [hb, if_false] at hwidth; omega
    unfold firstError
    simp only
    have h1 : ¬ sumLens ps.ranges ≥ 2 ^ 64 := by omega
    rw [if_neg h1]
    have h2 : ¬ (ti.fromDT = none ∧ sumLens ps.ranges > 128) := by omega
    rw [if_neg h2]
    have h3 : ¬ (fieldTypeSizeOf ti (sumLens ps.ranges) = BITCOUNT_BOOL ∧ (sumLens ps.ranges ≠ 1 ∨ ps.ranges.length ≠ 1)) := by
      rintro ⟨hz, hor⟩
      cases hf : ti.fromDT with
      | none => simp [fieldTypeSizeOf, hf, BITCOUNT_BOOL] at hz; omega
      | some b =>
        rw [hf] at hwidth; simp only at hwidth
        have hb : b = 0 := by simpa [fieldTypeSizeOf, hf, BITCOUNT_BOOL] using hz
        simp only [hb, if_true] at hwidth
        rcases hor with h | h
        · exact h hwidth.2
        · exact h hwidth.1
    rw [if_neg h3]
    have h4 : ¬ (fieldTypeSizeOf ti (sumLens ps.ranges) ≠ BITCOUNT_BOOL ∧ sumLens ps.ranges ≠ fieldTypeSizeOf ti (sumLens ps.ranges)) := by
      rintro ⟨hz, hneq⟩
      cases hf : ti.fromDT with
      | none => simp [fieldTypeSizeOf, hf] at hneq
      | some b =>
        rw [hf] at hwidth; simp only at hwidth
        have hb : b ≠ 0 := by simpa [fieldTypeSizeOf, hf, BITCOUNT_BOOL] using hz
        simp only [hb, if_false] at hwidth
        simp [fieldTypeSizeOf, hf, hwidth] at hneq
    rw [if_neg h4]
    cases hc : count with
    | none =>
      rw [hc] at hlayout
      simp only at hlayout ⊢
      have : ¬ maxEnd ps.ranges > N := by omega
      simp [this]
    | some c =>
      rw [hc] at hlayout
      simp only at hlayout ⊢
      obtain ⟨l1, l2, l3, l4⟩ := hlayout
      have a1 : ¬ (ps.ranges.length = 1 ∧ sumLens ps.ranges > strideOf ps (sumLens ps.ranges)) := by
        rintro ⟨hl, hx⟩
        have := l2 hl
        simp only [strideOf, hl, if_true] at hx; omega
      rw [if_neg a1]
      have a2 : ¬ (ps.ranges.length ≠ 1 ∧ ps.indexedStride = none) := by
        rintro ⟨hl, hs⟩; have := l3 hl; simp [hs] at this
      rw [if_neg a2]
      have a3 : ¬ c = 0 := by omega
      rw [if_neg a3]
      have a4 : ¬ (c - 1) * strideOf ps (sumLens ps.ranges) + maxEnd ps.ranges ≥ 2 ^ 64 := by omega
      rw [if_neg a4]
      have a5 : ¬ (c - 1) * strideOf ps (sumLens ps.ranges) + maxEnd ps.ranges > N := by omega
      rw [if_neg a5]
      have a6 : ¬ c < 2 := by omega
      rw [if_neg a6]

/-- **C09 (accepted ⇒ well-behaved).** Every field definition the macro returns, for any attribute tokens whatever,
    satisfies `FieldOk` – non-empty ranges, width = Σ lengths, array shape, every addressed bit below the declared base
    width – which is the premise of the accessor theorems. -/
theorem accepted_fieldOk (resolve : List String → Nat) (B : Base) (f : FieldSyn) (fd : FieldDef)
    (h : parseField resolve B.exposed f = .ok fd) : FieldOk B fd := parseField_ok resolve B f fd h

/-- a range whose lower limit exceeds its upper limit is rejected, wherever it appears -/
theorem reversed_range_rejected (isRange hasCount : Bool) (ps : PState) (lo hi : Nat) (inArr : Bool) (tok : Nat) (h : lo > hi) :
    ∃ r, finishedArgument isRange hasCount ps (.rangeGotBothLimits lo hi) inArr tok = .error r := by
  unfold finishedArgument
  simp only [bind, Except.bind]
  split
  · exact ⟨_, rfl⟩
  · simp [h]

/-- a `stride` argument on a non-array field is rejected -/
theorem stride_on_scalar_rejected (isRange : Bool) (ps : PState) (s : Nat) (inArr : Bool) (tok : Nat) :
    ∃ r, finishedArgument isRange false ps (.strideComplete s) inArr tok = .error r := by
  unfold finishedArgument
  simp [bind, Except.bind]

/-- the declared base: `u8 … u128` or an arbitrary width 1…127; anything else is rejected -/
theorem base_supported (s : String) (B : Base) (h : baseOf s = some B) : B.WF := by
  unfold baseOf at h
  (repeat' split at h) <;> (try (cases h; exact ⟨by decide, by decide, rfl⟩))
  simp only [Option.map_eq_some_iff] at h
  obtain ⟨n, hn, rfl⟩ := h
  have hlt := tryParseArbitraryIntType_lt _ _ hn
  have hpos : 1 ≤ n := by
    unfold tryParseArbitraryIntType at hn
    split at hn
    · split at hn
      · cases hn
      · simp only at hn
        split at hn
        · split at hn
          · rename_i hc; cases hn; exact hc.1
          · cases hn
        · cases hn
    · cases hn
  exact ⟨hpos, by simp [Base.new]; omega, rfl⟩

/-- custom-typed fields: rustc accepts the generated conversions exactly when the field's bit count is the custom
    type's raw width (and `Option<T>` is used exactly for types whose conversion returns a `Result`) -/
theorem custom_width_checked (types : Nat → Option CustomInfo) (fd : FieldDef) (c : CustomTy) (info : CustomInfo)
    (hc : fd.custom = some c) (hi : types c.ty = some info) (hg : fd.getter = true) :
    customTypeChecks types fd = true ↔
      ((if fd.useRegularInt then info.rawNative = true ∧ info.rawBits = fd.primitiveType.bits
        else info.rawNative = false ∧ info.rawBits = fd.totalBits) ∧ info.newReturnsResult = c.isOption) := by
  unfold customTypeChecks
  simp only [hc, hi, hg]
  cases fd.useRegularInt <;> simp

/-! ### the token level: a well-formed field declaration, rendered and parsed -/

/-- a field declaration written with a well-formed `bit` / `bits` attribute (and any number of doc comments) -/
structure FieldSpec where
  name : String
  ty : TySyn
  count : Option Nat
  docs : Nat
  attr : AttrSpec

def docAttr : Attr := { name := "doc", isList := false }

/-- the declaration as the macro receives it -/
def FieldSpec.render (f : FieldSpec) : FieldSyn :=
  { name := f.name, ty := f.ty, count := f.count, attrs := List.replicate f.docs docAttr ++ [f.attr.render] }

theorem parseAttrs_docs (hasCount : Bool) (rest : List Attr) : ∀ (k : Nat) (ps : PState) (docs : Nat),
    parseAttrs hasCount (List.replicate k docAttr ++ rest) ps docs = parseAttrs hasCount rest ps (docs + k) := by
  intro k
  induction k with
  | zero => intro ps docs; rfl
  | succ k ih =>
    intro ps docs
    have hd : ¬ (docAttr.name = "bits" ∨ docAttr.name = "bit") := by decide
    have hdoc : docAttr.name = "doc" := rfl
    simp only [List.replicate_succ, List.cons_append, parseAttrs, hd, if_false, hdoc, if_true]
    rw [ih]
    have : docs + 1 + k = docs + (k + 1) := by omega
    rw [this]
    have hd' : ¬ ("doc" = "bits" ∨ "doc" = "bit") := by decide
    rw [if_neg hd']

theorem parseAttrs_render (hasCount : Bool) (a : AttrSpec) (ps : PState) (docs : Nat) :
    parseAttrs hasCount [a.render] ps docs =
      (match parseTopTokens a.isRange hasCount a.render.toks 0 .reset ps with
       | .ok ps' => .ok (ps', docs)
       | .error e => .error e) := by
  have hname : (a.render.name = "bits" ∨ a.render.name = "bit") := by
    unfold AttrSpec.render; cases a.isRange <;> simp
  have hbits : decide (a.render.name = "bits") = a.isRange := render_name a
  simp only [parseAttrs, hname, if_true, hbits]
  have hl : a.render.isList = true := rfl
  have hdl : a.render.delim = '(' := rfl
  simp only [hl, Bool.not_true, Bool.false_eq_true, if_false, bind, Except.bind, hdl, ne_eq, not_true_eq_false]
  cases parseTopTokens a.isRange hasCount a.render.toks 0 AP.reset ps <;> rfl

/-- `firstError` reads only the ranges and the stride of the attribute content -/
theorem firstError_congr (N : Nat) (ti : TyInfo) (count : Option Nat) (ps ps' : PState)
    (h1 : ps.ranges = ps'.ranges) (h2 : ps.indexedStride = ps'.indexedStride) :
    firstError N ti count ps = firstError N ti count ps' := by
  unfold firstError strideOf
  simp only [h1, h2]

/-- the content of a well-formed attribute as a `PState` -/
def contentOf (a : AttrSpec) : PState :=
  { ranges := a.ranges.map RangeSpec.rng, rangesToken := none, provideGetter := a.access.getter,
    provideSetter := a.access.setter, indexedStride := a.stride }

theorem contentOf_pos (a : AttrSpec) (hord : ∀ r ∈ a.ranges, r.short = false → r.lo ≤ r.hi) : (contentOf a).RangesPos := by
  intro q hq
  simp only [contentOf, List.mem_map] at hq
  obtain ⟨r, hr, rfl⟩ := hq
  unfold RangeSpec.rng
  cases hs : r.short
  · have := hord r hr hs; simp; omega
  · simp

/-- **text level.** The tokens `RangeSpec.toks` / `strideToks` of the token-level theorem are what the macro sees for
    numbers *written in decimal*: `parse_literal_number` applies `str::parse::<usize>` to the literal's text, and for the
    decimal text of `n < 2^64` that is `n` (`parseUsize_repr`). Hex, octal, binary, suffixed or `_`-separated literals
    and numbers `≥ 2^64` are `.lit none` — "not a number" for the macro — which the executable model shares with the
    lexer of the correspondence driver (`Tok.ofLiteralText`). -/
theorem range_tokens_from_text (r : RangeSpec) (hlo : r.lo < 2 ^ 64) (hhi : r.hi < 2 ^ 64) :
    r.toks = if r.short then [Tok.ofLiteralText (Nat.repr r.lo)]
             else [Tok.ofLiteralText (Nat.repr r.lo), .punct '.', .punct '.', .punct '=', Tok.ofLiteralText (Nat.repr r.hi)] := by
  unfold RangeSpec.toks
  rw [Tok.ofLiteralText_repr r.lo hlo, Tok.ofLiteralText_repr r.hi hhi]

theorem stride_tokens_from_text (s : Nat) (hs : s < 2 ^ 64) :
    strideToks (some s) = [.punct ',', .ident "stride", .punct '=', Tok.ofLiteralText (Nat.repr s)] := by
  unfold strideToks
  rw [Tok.ofLiteralText_repr s hs]

/-- a literal too large for `usize` is not a number (so `bits(0..=18446744073709551616)` is rejected, not wrapped) -/
theorem huge_literal_not_a_number (n : Nat) (h : 2 ^ 64 ≤ n) : Tok.ofLiteralText (Nat.repr n) = .lit none :=
  Tok.ofLiteralText_repr_large n h

/-- the attribute with its arguments written as the token list `T` -/
def _root_.Bb.AttrSpec.renderWith (a : AttrSpec) (T : List Tok) : Attr := { a.render with toks := T }

def FieldSpec.renderWith (f : FieldSpec) (T : List Tok) : FieldSyn :=
  { name := f.name, ty := f.ty, count := f.count, attrs := List.replicate f.docs docAttr ++ [f.attr.renderWith T] }

theorem parseAttrs_renderWith (hasCount : Bool) (a : AttrSpec) (T : List Tok) (ps : PState) (docs : Nat) :
    parseAttrs hasCount [a.renderWith T] ps docs =
      (match parseTopTokens a.isRange hasCount T 0 .reset ps with
       | .ok ps' => .ok (ps', docs)
       | .error e => .error e) := by
  have hname : ((a.renderWith T).name = "bits" ∨ (a.renderWith T).name = "bit") := by
    unfold AttrSpec.renderWith AttrSpec.render; cases a.isRange <;> simp
  have hbits : decide ((a.renderWith T).name = "bits") = a.isRange := render_name a
  simp only [parseAttrs, hname, if_true, hbits]
  have hl : (a.renderWith T).isList = true := rfl
  have hdl : (a.renderWith T).delim = '(' := rfl
  have ht : (a.renderWith T).toks = T := rfl
  simp only [hl, Bool.not_true, Bool.false_eq_true, if_false, bind, Except.bind, hdl, ne_eq, not_true_eq_false, ht]
  cases parseTopTokens a.isRange hasCount T 0 AP.reset ps <;> rfl

/-- the acceptance theorem for any way `T` of writing the arguments that the `ArgumentParser` reads as the attribute's
    content (or rejects for a reversed range / a stride on a scalar) -/
theorem field_accept_iff_toks (resolve : List String → Nat) (N : Nat) (hN : N ≤ 128) (f : FieldSpec) (ti : TyInfo) (T : List Tok)
    (hti : typeInfo resolve f.ty = .ok ti) (hcnt : ∀ c, f.count = some c → c < 2 ^ 64)
    (hok : (∀ r ∈ f.attr.ranges, r.short = false → r.lo ≤ r.hi) → (f.attr.stride.isSome = true → f.count.isSome = true) →
      ∃ ps, parseTopTokens f.attr.isRange f.count.isSome T 0 .reset {} = .ok ps ∧ f.attr.Content ps)
    (hrevT : (∃ r ∈ f.attr.ranges, r.short = false ∧ r.lo > r.hi) →
      ∃ e, parseTopTokens f.attr.isRange f.count.isSome T 0 .reset {} = .error e)
    (hstrT : (∀ r ∈ f.attr.ranges, r.short = false → r.lo ≤ r.hi) → ∀ s, f.attr.stride = some s → f.count.isSome = false →
      ∃ e, parseTopTokens f.attr.isRange false T 0 .reset {} = .error e) :
    (∃ fd, parseField resolve N (f.renderWith T) = .ok fd) ↔
      ((∀ r ∈ f.attr.ranges, r.short = false → r.lo ≤ r.hi) ∧ (f.attr.stride.isSome = true → f.count.isSome = true) ∧
       RuleValid N ti f.count (contentOf f.attr)) := by
  have hct : countTooLarge (f.renderWith T).count = false := by
    cases hc : f.count with
    | none => simp [FieldSpec.renderWith, countTooLarge, hc]
    | some c => have := hcnt c hc; simp [FieldSpec.renderWith, countTooLarge, hc]; omega
  have hparse : parseField resolve N (f.renderWith T) =
      (match parseAttrs f.count.isSome (List.replicate f.docs docAttr ++ [f.attr.renderWith T]) {} 0 with
       | .error r => .error r
       | .ok (ps, docs) => match firstError N ti f.count ps with
         | some r => .error r
         | none => .ok (mkFieldDef f.name ti f.count ps docs)) := by
    unfold parseField
    rw [hct]
    simp only [Bool.false_eq_true, if_false]
    have : (f.renderWith T).ty = f.ty := rfl
    rw [this, hti]
    rfl
  rw [hparse, parseAttrs_docs, parseAttrs_renderWith]
  by_cases hord : ∀ r ∈ f.attr.ranges, r.short = false → r.lo ≤ r.hi
  · by_cases hs : f.attr.stride.isSome = true → f.count.isSome = true
    · obtain ⟨ps, hp, hc⟩ := hok hord hs
      rw [hp]
      simp only
      have hfe := firstError_congr N ti f.count ps (contentOf f.attr) hc.1 hc.2.2.2
      rw [hfe]
      have hiff := accept_iff_rules N hN ti f.count (contentOf f.attr) (typeInfo_wf resolve f.ty ti hti) (contentOf_pos f.attr hord)
      constructor
      · rintro ⟨fd, h⟩
        cases hf : firstError N ti f.count (contentOf f.attr) with
        | none => exact ⟨hord, hs, hiff.mp hf⟩
        | some r => rw [hf] at h; cases h
      · rintro ⟨_, _, hr⟩
        rw [hiff.mpr hr]
        exact ⟨_, rfl⟩
    · -- a stride on a non-array field
      have hcn : f.count.isSome = false := by
        cases h : f.count.isSome with
        | false => rfl
        | true => exact absurd (fun _ => h) hs
      have hsome : ∃ s, f.attr.stride = some s := by
        cases h : f.attr.stride with
        | none => exact absurd (fun h' => by rw [h] at h'; cases h') hs
        | some s => exact ⟨s, rfl⟩
      obtain ⟨s, hss⟩ := hsome
      obtain ⟨e, he⟩ := hstrT hord s hss hcn
      rw [hcn, he]
      constructor
      · rintro ⟨fd, h⟩; cases h
      · rintro ⟨_, h, _⟩; rw [hcn] at hs; exact absurd h hs
  · -- a reversed range
    have hrev : ∃ r ∈ f.attr.ranges, r.short = false ∧ r.lo > r.hi := by
      false_or_by_contra
      rename_i hno
      apply hord
      intro r hr hsh
      by_cases hle : r.lo ≤ r.hi
      · exact hle
      · exact absurd ⟨r, hr, hsh, by omega⟩ hno
    obtain ⟨e, he⟩ := hrevT hrev
    rw [he]
    constructor
    · rintro ⟨fd, h⟩; cases h
    · rintro ⟨h, _⟩; exact absurd h hord

theorem renderWith_self (f : FieldSpec) : f.renderWith f.attr.render.toks = f.render := rfl

/-- **C09 at the token level.** A field declared with a supported type and a well-formed `bit` / `bits` attribute is
    accepted by the macro exactly when no range is reversed, a stride is only given for an array, and the rule set
    holds for the attribute's content. -/
theorem field_accept_iff (resolve : List String → Nat) (N : Nat) (hN : N ≤ 128) (f : FieldSpec) (ti : TyInfo)
    (hwf : f.attr.WF) (hti : typeInfo resolve f.ty = .ok ti) (hcnt : ∀ c, f.count = some c → c < 2 ^ 64) :
    (∃ fd, parseField resolve N f.render = .ok fd) ↔
      ((∀ r ∈ f.attr.ranges, r.short = false → r.lo ≤ r.hi) ∧ (f.attr.stride.isSome = true → f.count.isSome = true) ∧
       RuleValid N ti f.count (contentOf f.attr)) := by
  rw [← renderWith_self]
  exact field_accept_iff_toks resolve N hN f ti _ hti hcnt
    (fun hord hs => parse_render_ok f.count.isSome f.attr hwf hord hs)
    (fun hrev => parse_render_reversed f.count.isSome f.attr hwf hrev)
    (fun hord s hss _ => parse_render_stride_scalar f.attr hwf hord s hss)

/-- **… whatever the order of the arguments.** The range(s), the access specifier and the stride may be written in any
    of the six orders (`bits(stride = 4, rw, 0..=3)` …): the macro accepts exactly the same fields. -/
theorem field_accept_iff_any_order (resolve : List String → Nat) (N : Nat) (hN : N ≤ 128) (f : FieldSpec) (ti : TyInfo)
    (hwf : f.attr.WF) (hti : typeInfo resolve f.ty = .ok ti) (hcnt : ∀ c, f.count = some c → c < 2 ^ 64) (o : ArgOrder) :
    (∃ fd, parseField resolve N (f.renderWith (f.attr.toksIn o)) = .ok fd) ↔
      ((∀ r ∈ f.attr.ranges, r.short = false → r.lo ≤ r.hi) ∧ (f.attr.stride.isSome = true → f.count.isSome = true) ∧
       RuleValid N ti f.count (contentOf f.attr)) :=
  field_accept_iff_toks resolve N hN f ti _ hti hcnt
    (fun hord hs => parse_any_order f.count.isSome f.attr hwf hord hs o)
    (fun hrev => parse_any_order_reversed f.count.isSome f.attr hwf hrev o)
    (fun hord s hss _ => parse_any_order_stride_scalar f.attr hwf hord s hss o)

/-! non-vacuity: the content of `#[bits(1..=4, rw, stride = 5)] arr: [u4; 3]` over `u24` is valid, one more element is not -/
def arrPs : PState := { ranges := [⟨1, 4⟩], rangesToken := some 0, provideGetter := true, provideSetter := true, indexedStride := some 5 }
def u4Ti : TyInfo := { fromDT := some 4, isSigned := false, custom := none }
example : RuleValid 24 u4Ti (some 3) arrPs := ⟨by simp [arrPs], by simp [u4Ti, arrPs, sumLens], by simp [arrPs, sumLens, strideOf, maxEnd]⟩
example : firstError 24 u4Ti (some 5) arrPs ≠ none := by decide

end Bb.C09

namespace Bb.C09
open Bb

theorem parseFields_ok (resolve : List String → Nat) (B : Base) : ∀ (fs : List FieldSyn) (fds : List FieldDef),
    parseFields resolve B fs = .ok fds → ∀ fd ∈ fds, FieldOk B fd := by
  intro fs
  induction fs with
  | nil => intro fds h fd hfd; simp [parseFields] at h; subst h; cases hfd
  | cons f fs ih =>
    intro fds h fd hfd
    simp only [parseFields, bind, Except.bind] at h
    cases hf : parseField resolve B.exposed f with
    | error e => rw [hf] at h; cases h
    | ok d =>
      rw [hf] at h
      simp only at h
      cases hrest : parseFields resolve B fs with
      | error e => rw [hrest] at h; cases h
      | ok ds =>
        rw [hrest] at h
        simp only [Except.ok.injEq] at h
        subst h
        rcases List.mem_cons.mp hfd with rfl | h'
        · exact parseField_ok resolve B f _ hf
        · exact ih ds hrest fd h'

/-- **declaration level.** Whenever the macro (model: `expand`) produces an expansion, the base is one of
    `u8 … u128` / `u1 … u127` and *every* field of the program satisfies `FieldOk` – so the accessor theorems
    C01–C05, C08, C11–C13, C16 apply to every accessor of every accepted declaration. -/
theorem expand_fields_ok (resolve : List String → Nat) (types : Nat → Option CustomInfo) (d : DeclSyn) (p : Program)
    (h : expand resolve types d = .ok p) : p.base.WF ∧ ∀ fd ∈ p.fields, FieldOk p.base fd := by
  unfold expand at h
  simp only [bind, Except.bind, pure, Except.pure] at h
  cases hb : baseOf d.baseIdent with
  | none => simp [hb] at h
  | some B =>
    simp only [hb] at h
    have hB := base_supported d.baseIdent B hb
    split at h
    · cases h
    · cases hfs : parseFields resolve B d.fields with
      | error e => simp [hfs] at h
      | ok fds =>
        simp only [hfs] at h
        have hall := parseFields_ok resolve B d.fields fds hfs
        (repeat' split at h) <;> (try (cases h)) <;> exact ⟨hB, hall⟩

end Bb.C09
