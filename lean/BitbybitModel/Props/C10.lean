import BitbybitModel.Lemmas.Enum
import BitbybitModel.Lemmas.Literal
/-!
# C10 — bitenum declarations are validated: exhaustiveness claims are sound

The theorem is about `bitenumCore`, i.e. `bitenum()` after the attribute arguments have been turned into a
`Config` (`Config.parse` – splitting `uN` into the letter and the number – is executed by the driver and
compared with rustc on every run, but is not part of this statement). The storage type is written as a plain
identifier `uN` (`isIdent = true`), as the documentation prescribes.
-/
namespace Bb.C10
open Bb

/-- the rule set of the property, for storage `uN`, an optional `exhaustive = …` argument and the variants -/
def EnumValid (N : Nat) (exh : Option Exhaustiveness) (vs : List VariantSyn) : Prop :=
  1 ≤ N ∧ N ≤ 64 ∧
  -- every variant has an explicit integer-literal discriminant below 2^N
  AllLit vs ∧ AllBelow vs (2 ^ N) ∧
  (match exh.getD .fls with
   -- `exhaustive = true` exactly when all 2^N values are present; no cfg-gated variants
   | .tru => vs.length = 2 ^ N ∧ vs.any (·.hasCfg) = false
   -- `false` or nothing exactly when they are not, with no more than 2^N variants; no cfg-gated variants
   | .fls => vs.length < 2 ^ N ∧ vs.any (·.hasCfg) = false
   -- `conditional` alone may carry cfg-gated variants and more than 2^N of them
   | .conditional => True)

theorem baseType_ok_iff (b : Bits) : (∃ t, b.baseType = .ok t) ↔ 1 ≤ b.size ∧ b.size ≤ 64 := by
  unfold Bits.baseType
  constructor
  · rintro ⟨t, h⟩
    (repeat' split at h) <;> first | omega | (simp at h)
  · intro h
    (repeat' split) <;> first | exact ⟨_, rfl⟩ | omega

/-- the conditions of `bitenumCore`, one per check, in the order of the code -/
theorem core_ok_iff (bits : Bits) (exh : Option Exhaustiveness) (vs : List VariantSyn) :
    (∃ d, bitenumCore { explicitBits := some bits, explicitExhaustive := exh } vs = .ok d) ↔
      ¬ (vs.any (·.hasCfg) = true ∧ exh.getD .fls ≠ .conditional) ∧
      bits.size < 128 ∧
      ¬ (vs.length > 2 ^ bits.size ∧ exh.getD .fls ≠ .conditional) ∧
      (exh.getD .fls).matches (decide (vs.length = 2 ^ bits.size)) = true ∧
      (∃ m, maxDiscr vs 0 = .ok m ∧ m < 2 ^ bits.size) ∧
      (∃ t, bits.baseType = .ok t) ∧
      ¬ (bits.isIdent = false ∧ (bits.size == 8 || bits.size == 16 || bits.size == 32 || bits.size == 64) = false) := by
  unfold bitenumCore
  simp only
  by_cases h1 : vs.any (·.hasCfg) = true ∧ exh.getD .fls ≠ .conditional
  · simp [h1]
  · rw [if_neg h1]
    by_cases h2 : bits.size ≥ 128
    · rw [if_pos h2]; simp; intro _ _; omega
    · rw [if_neg h2]
      by_cases h3 : vs.length > 2 ^ bits.size ∧ exh.getD .fls ≠ .conditional
      · rw [if_pos h3]; simp [h3]
      · rw [if_neg h3]
        by_cases h4 : (exh.getD .fls).matches (decide (vs.length = 2 ^ bits.size)) = false
        · rw [if_pos h4]; simp [h4]
        · rw [if_neg h4]
          have h4' : (exh.getD .fls).matches (decide (vs.length = 2 ^ bits.size)) = true := by simpa using h4
          cases hm : maxDiscr vs 0 with
          | error r => simp
          | ok m =>
            simp only
            by_cases h5 : m ≥ 2 ^ bits.size
            · rw [if_pos h5]; simp; intro _ _ _ _ _; omega
            · rw [if_neg h5]
              cases hb : bits.baseType with
              | error r => simp
              | ok t =>
                simp only
                by_cases h6 : bits.isIdent = false ∧ (bits.size == 8 || bits.size == 16 || bits.size == 32 || bits.size == 64) = false
                · rw [if_pos h6]; simp [h6]
                · rw [if_neg h6]
                  refine ⟨fun _ => ⟨h1, by omega, h3, h4', ⟨m, rfl, by omega⟩, ⟨t, rfl⟩, h6⟩, fun _ => ⟨_, rfl⟩⟩

/-- **C10.** A bitenum over `uN` is accepted by the macro iff it satisfies the rule set. -/
theorem enum_accept_iff (N : Nat) (exh : Option Exhaustiveness) (vs : List VariantSyn) :
    (∃ d, bitenumCore { explicitBits := some ⟨true, N⟩, explicitExhaustive := exh } vs = .ok d) ↔ EnumValid N exh vs := by
  rw [core_ok_iff]
  unfold EnumValid
  have hbt := baseType_ok_iff ⟨true, N⟩
  simp only at hbt
  have hpos : 0 < 2 ^ N := Nat.two_pow_pos N
  constructor
  · rintro ⟨h1, h2, h3, h4, ⟨m, hm, hmlt⟩, h6, _⟩
    obtain ⟨hN1, hN2⟩ := hbt.mp h6
    obtain ⟨hlit, _, _⟩ := maxDiscr_ok vs 0 m hm
    have hbelow := ((maxDiscr_lt vs 0 m (2 ^ N) hm).mp hmlt).2
    refine ⟨hN1, hN2, hlit, hbelow, ?_⟩
    cases he : exh.getD .fls with
    | tru =>
      simp only [he, Exhaustiveness.matches] at h4 h1 h3 ⊢
      refine ⟨?_, ?_⟩
      · by_cases hc : vs.length = 2 ^ N
        · exact hc
        · simp [hc] at h4
      · cases hh : vs.any (·.hasCfg) with
        | false => rfl
        | true => exact absurd ⟨hh, by simp⟩ h1
    | fls =>
      simp only [he, Exhaustiveness.matches] at h4 h1 h3 ⊢
      refine ⟨?_, ?_⟩
      · by_cases hc : vs.length = 2 ^ N
        · simp [hc] at h4
        · have : ¬ vs.length > 2 ^ N := fun h => h3 ⟨h, by simp⟩
          omega
      · cases hh : vs.any (·.hasCfg) with
        | false => rfl
        | true => exact absurd ⟨hh, by simp⟩ h1
    | conditional => trivial
  · rintro ⟨hN1, hN2, hlit, hbelow, hex⟩
    obtain ⟨m, hm⟩ := maxDiscr_exists vs 0 hlit
    have hmlt : m < 2 ^ N := (maxDiscr_lt vs 0 m (2 ^ N) hm).mpr ⟨hpos, hbelow⟩
    refine ⟨?_, (show N < 128 by omega), ?_, ?_, ⟨m, hm, hmlt⟩, hbt.mpr ⟨hN1, hN2⟩, by simp⟩
    · cases he : exh.getD .fls with
      | tru => simp only [he] at hex; simp [hex.2]
      | fls => simp only [he] at hex; simp [hex.2]
      | conditional => simp
    · cases he : exh.getD .fls with
      | tru => simp only [he] at hex; simp; omega
      | fls => simp only [he] at hex; simp; omega
      | conditional => simp
    · cases he : exh.getD .fls with
      | tru => simp only [he] at hex; simp [Exhaustiveness.matches, hex.1]
      | fls => simp only [he] at hex; have : ¬ vs.length = 2 ^ N := by omega
               simp [Exhaustiveness.matches, this]
      | conditional => simp [Exhaustiveness.matches]

/-- consequence: an accepted discriminant is representable in the storage type -/
theorem accepted_discr_lt (N : Nat) (exh : Option Exhaustiveness) (vs : List VariantSyn) (d : EnumDef)
    (h : bitenumCore { explicitBits := some ⟨true, N⟩, explicitExhaustive := exh } vs = .ok d) :
    AllBelow vs (2 ^ N) := ((enum_accept_iff N exh vs).mp ⟨d, h⟩).2.2.2.1

/-! non-vacuity: `#[bitenum(u2, exhaustive = true)] enum { A = 0, B = 1, C = 2, D = 3 }` is valid; dropping `D` is not -/
def v (name : String) (n : Nat) : VariantSyn := { name := name, discr := .lit n }
example : EnumValid 2 (some .tru) [v "A" 0, v "B" 1, v "C" 2, v "D" 3] := by
  refine ⟨by decide, by decide, ?_, ?_, by decide, by decide⟩
  · intro w hw; simp [v] at hw; rcases hw with rfl | rfl | rfl | rfl <;> exact ⟨_, rfl⟩
  · intro w hw n hn; simp [v] at hw; rcases hw with rfl | rfl | rfl | rfl <;> (simp at hn; omega)
example : ¬ EnumValid 2 (some .tru) [v "A" 0, v "B" 1, v "C" 2] := by
  rintro ⟨_, _, _, _, h⟩; simp at h


/-! ## the storage argument at the text level -/

theorem repr_head_digit (n : Nat) : ∃ c cs, (Nat.repr n).toList = c :: cs ∧ c.isDigit = true := by
  rw [Nat.toList_repr]
  cases h : Nat.toDigits 10 n with
  | nil => exact absurd h Nat.toDigits_ne_nil
  | cons c cs =>
    refine ⟨c, cs, rfl, ?_⟩
    exact Nat.isDigit_of_mem_toDigits (b := 10) (n := n) (by decide) (by decide) (by rw [h]; simp)

/-- **storage argument, text level**: the identifier `u<n>` (decimal `n < 2^64`) is read as the size `n` -/
theorem config_parse_bits (c : Config) (n : Nat) (hn : n < 2 ^ 64) (pre : List String) (isIdent : Bool) :
    c.parse (.path (pre ++ ["u" ++ Nat.repr n]) isIdent) = .ok { c with explicitBits := some { isIdent := isIdent, size := n } } := by
  obtain ⟨d, ds, hds, hd⟩ := repr_head_digit n
  have hl : (pre ++ ["u" ++ Nat.repr n]).getLast? = some ("u" ++ Nat.repr n) := by simp
  have htl : ("u" ++ Nat.repr n).toList = 'u' :: d :: ds := by
    rw [String.toList_append, hds]; rfl
  have hplus : d ≠ '+' := by intro h; subst h; simp at hd
  unfold Config.parse
  simp only [hl, htl]
  have : stripPlus (d :: ds) = d :: ds := by
    unfold stripPlus
    split
    · rename_i r heq; cases heq; exact absurd rfl hplus
    · rfl
  rw [this, ← hds]
  have hof : String.ofList (Nat.repr n).toList = Nat.repr n := String.ofList_toList
  rw [hof, parseUsize_repr n hn]

end Bb.C10
