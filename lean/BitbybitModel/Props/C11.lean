import BitbybitModel.Lemmas.History
import BitbybitModel.Props.C06
/-!
# C11 — arbitrary-int bases behave as N-bit registers; `raw_value()` is the whole state
-/
namespace Bb.C11
open Bb

/-- the invariant: the storage integer never holds a bit at or above the exposed width `N` -/
def Inv (B : Base) (s : Nat) : Prop := s < 2 ^ B.exposed

/-- `new_with_raw_value` establishes the invariant (a `uN` is below `2^N`) -/
theorem inv_new (Γ : CustomEnv) (chk : Bool) (B : Base) (r : Nat) (hB : B.WF) (hr : r < 2 ^ B.exposed) :
    ∃ s, eval Γ chk { raw := .bool false, value := C06.baseVal B r } (newWithRawBody B) = .ok (.int B.W s) ∧ Inv B s :=
  ⟨r, C06.new_with_raw Γ chk B r hB, hr⟩

/-- every `with_` / `set_` of an accepted declaration preserves it – for every accepted field, including lists
    that name a bit twice -/
theorem inv_step (Γ : CustomEnv) (chk : Bool) (B : Base) (fd : FieldDef) (s i : Nat) (fv : Val) (v : Nat)
    (hB : B.WF) (hok : FieldOk B fd) (hwide : fd.totalBits ≤ B.internal)
    (hi : ∀ c st, fd.array = some (c, st) → i < c) (harg : ArgOk Γ fd fv v) (hinv : Inv B s) :
    ∃ e, setterBody B fd = some e ∧ ∃ x,
      eval Γ chk { raw := .int B.W s, index := .int .usize i, fieldValue := fv } e = .ok (.int B.W x) ∧ Inv B x := by
  have hs : s < 2 ^ B.internal := Nat.lt_of_lt_of_le hinv (two_pow_le_of_le hB.exposed_le)
  obtain ⟨e, he, x, hev, _, _, hinv', _⟩ := eval_setterBody Γ chk B fd s i fv v hB hok hwide hs hi harg
  exact ⟨e, he, x, hev, hinv' hinv⟩

/-- hence the invariant holds after any history of legal writes -/
theorem inv_reachable (Γ : CustomEnv) (chk : Bool) (B : Base) (hB : B.WF) : ∀ (steps : List Step) (s t : Nat),
    Inv B s → (∀ st ∈ steps, FieldOk B st.fd ∧ st.fd.totalBits ≤ B.internal ∧
      (∀ c k, st.fd.array = some (c, k) → st.i < c) ∧ ArgOk Γ st.fd st.fv st.v) →
    Runs Γ chk B s steps t → Inv B t := by
  intro steps
  induction steps with
  | nil => intro s t h _ hr; cases hr; exact h
  | cons st rest ih =>
    intro s t h hok hr
    cases hr with
    | cons _ x _ _ _ e he hev hrest =>
      obtain ⟨h1, h2, h3, h4⟩ := hok st (by simp)
      obtain ⟨e', he', x', hev', hinv'⟩ := inv_step Γ chk B st.fd s st.i st.fv st.v hB h1 h2 h3 h4 h
      have : e = e' := by rw [he] at he'; exact Option.some.inj he'
      subst this
      have : x = x' := by rw [hev] at hev'; cases hev'; rfl
      subst this
      exact ih x t hinv' (fun q hq => hok q (by simp [hq])) hrest

/-- `raw_value()` never panics and returns a valid `uN`, whatever the storage holds -/
theorem raw_value_total (Γ : CustomEnv) (chk : Bool) (B : Base) (s : Nat) (hB : B.WF) :
    ∃ r, eval Γ chk { raw := .int B.W s } (rawValueBody B) = .ok (C06.baseVal B r) ∧ (B.isArbitrary = true → r < 2 ^ B.exposed) := by
  refine ⟨_, C06.raw_value_of_storage Γ chk B s hB, ?_⟩
  intro h; simp [h]; exact Nat.mod_lt _ (Nat.two_pow_pos _)

/-- **re-wrap identity**: under the invariant, `new_with_raw_value(x.raw_value())` has the same storage as `x`,
    so it is indistinguishable from `x` through every getter (each getter is a function of the storage) -/
theorem rewrap_id (Γ : CustomEnv) (chk : Bool) (B : Base) (s : Nat) (hB : B.WF) (hinv : Inv B s) :
    ∃ r, eval Γ chk { raw := .int B.W s } (rawValueBody B) = .ok (C06.baseVal B r) ∧
      eval Γ chk { raw := .bool false, value := C06.baseVal B r } (newWithRawBody B) = .ok (.int B.W s) := by
  have h1 := C06.raw_value_of_storage Γ chk B s hB
  have : (if B.isArbitrary = true then s % 2 ^ B.exposed else s) = s := by
    split
    · exact Nat.mod_eq_of_lt hinv
    · rfl
  rw [this] at h1
  exact ⟨s, h1, C06.new_with_raw Γ chk B s hB⟩

/-- no getter can reveal state above bit `N-1`: every position a field reads lies below `N` -/
theorem getter_reads_below (B : Base) (fd : FieldDef) (i : Nat) (hok : FieldOk B fd)
    (hi : ∀ c s, fd.array = some (c, s) → i < c) (r : Rng) (hr : r ∈ fd.ranges) (b : Nat) (hb : b < r.len) :
    r.lo + offOf i fd.stride + b < B.exposed := by
  have := hok.elem_in_bounds hi hr; omega

/-! non-vacuity -/
example : Inv (Base.new 24) 0xFFFFFF := by unfold Inv; decide
example := rewrap_id Ex.noTypes true (Base.new 24) 0xABCDEF Ex.wf24 (by unfold Inv; decide)

end Bb.C11
