import BitbybitModel.Lemmas.History
import BitbybitModel.Props.Examples
/-!
# C12 — any history of writes ends in last-write-wins state, bit by bit

A history is a list of legal `with_` / `set_` calls (`Step.Ok`: accepted field of the declaration, in-range
index, a value of the field's type; fields whose own range list repeats a bit are excluded, as in C04).
`Runs` executes the generated bodies one after the other.
-/
namespace Bb.C12
open Bb

/-- **C12.** Every legal history runs to completion under both profiles, and every bit of the final register is
    the bit supplied by the last write that covered it, or the initial bit if no write covered it. -/
theorem history (Γ : CustomEnv) (chk : Bool) (B : Base) (hB : B.WF) (steps : List Step) (init t : Nat)
    (hinit : init < 2 ^ B.internal) (hok : ∀ st ∈ steps, st.Ok Γ B) (hrun : Runs Γ chk B init steps t) (k : Nat) :
    t.testBit k = (decide (k < B.internal) && lastWrite init (steps.map Step.toOp) k) := by
  rw [runs_unique Γ chk B hB steps init t hinit hok hrun]
  exact testBit_applyWrites B.internal _ init k hinit

/-- such a run exists for every legal history: no write can panic -/
theorem history_runs (Γ : CustomEnv) (chk : Bool) (B : Base) (hB : B.WF) (steps : List Step) (init : Nat)
    (hinit : init < 2 ^ B.internal) (hok : ∀ st ∈ steps, st.Ok Γ B) :
    ∃ t, Runs Γ chk B init steps t := ⟨_, runs_exists Γ chk B hB steps init hinit hok⟩

/-- all getters observe exactly that state: a getter is a function of the final register alone (C01/C04) -/
theorem getters_observe_state (Γ : CustomEnv) (chk : Bool) (B : Base) (fd : FieldDef) (t i : Nat)
    (hB : B.WF) (hok : FieldOk B fd) (hwide : fd.totalBits ≤ B.internal) (hi : ∀ c s, fd.array = some (c, s) → i < c) :
    ∃ e, getterBody B fd = some e ∧
      eval Γ chk { raw := .int B.W t, index := .int .usize i } e = getterResult Γ fd (gather t (offOf i fd.stride) fd.ranges 0) :=
  eval_getterBody Γ chk B fd t i hB hok hwide hi

/-- **read-back after a history.** Whatever legal writes came before – to this field, to fields overlapping it, to any
    array element – the field written last reads back exactly the value written, under both profiles (the multi-step form
    of C02 / C04's "write followed by read is the identity": the receiver of the last write is an arbitrary reachable
    state, not a freshly wrapped raw value) -/
theorem readback_after_history (Γ : CustomEnv) (chk : Bool) (B : Base) (hB : B.WF) (steps : List Step) (last : Step)
    (init t : Nat) (hinit : init < 2 ^ B.internal) (hok : ∀ st ∈ steps ++ [last], st.Ok Γ B)
    (hrun : Runs Γ chk B init (steps ++ [last]) t) :
    ∃ e, getterBody B last.fd = some e ∧
      eval Γ chk { raw := .int B.W t, index := .int .usize last.i } e = getterResult Γ last.fd last.v := by
  have hl : last.Ok Γ B := hok last (by simp)
  have ht := runs_unique Γ chk B hB (steps ++ [last]) init t hinit hok hrun
  obtain ⟨e, he, hev⟩ := eval_getterBody Γ chk B last.fd t last.i hB hl.field_ok hl.wide hl.index
  refine ⟨e, he, ?_⟩
  rw [hev, ht]
  congr 1
  simp only [List.map_append, List.map_cons, List.map_nil, applyWrites, List.foldl_append, List.foldl_cons, List.foldl_nil,
    Step.toOp]
  apply gather_writeSpec
  · intro r hr
    exact Nat.le_trans (hl.field_ok.elem_in_bounds hl.index hr) hB.exposed_le
  · exact hl.disjoint
  · rw [← totalBits_eq]; exact hl.arg.1

/-- **a write through any accepted field – a list naming a bit twice included – leaves every position its ranges do not
    cover exactly as it was** (the "or its initial value if no write covered it" half of C12 needs no disjointness) -/
theorem write_keeps_uncovered (Γ : CustomEnv) (chk : Bool) (B : Base) (fd : FieldDef) (raw i : Nat) (fv : Val) (v : Nat)
    (hB : B.WF) (hok : FieldOk B fd) (hwide : fd.totalBits ≤ B.internal) (hraw : raw < 2 ^ B.internal)
    (hi : ∀ c s, fd.array = some (c, s) → i < c) (harg : ArgOk Γ fd fv v) :
    ∃ e, setterBody B fd = some e ∧ ∃ x,
      eval Γ chk { raw := .int B.W raw, index := .int .usize i, fieldValue := fv } e = .ok (.int B.W x) ∧
      ∀ p, fd.ranges.any (·.covers (offOf i fd.stride) p) = false → x.testBit p = raw.testBit p := by
  obtain ⟨e, he, x, hev, _, _, _, hout⟩ := eval_setterBody Γ chk B fd raw i fv v hB hok hwide hraw hi harg
  exact ⟨e, he, x, hev, hout⟩

/-- writes to disjoint position sets commute -/
theorem disjoint_commute (W init : Nat) (a b : WriteOp) (hinit : init < 2 ^ W)
    (hdis : ∀ p, (written a.v a.off a.rs 0 p).isSome → (written b.v b.off b.rs 0 p) = none) :
    applyWrites W init [a, b] = applyWrites W init [b, a] := by
  apply Nat.eq_of_testBit_eq
  intro k
  rw [testBit_applyWrites W _ init k hinit, testBit_applyWrites W _ init k hinit]
  simp only [lastWrite, lastWriteIn]
  cases ha : written a.v a.off a.rs 0 k with
  | none => cases hb : written b.v b.off b.rs 0 k <;> simp
  | some x =>
    have := hdis k (by simp [ha])
    simp [this]

/-- overlapping fields alias the same bits coherently: what any field reads after a history depends only on the
    final register, so two fields sharing a position read the same bit there -/
theorem overlap_alias (t off off' : Nat) (pre : List Rng) (r : Rng) (post : List Rng) (pre' : List Rng) (r' : Rng) (post' : List Rng)
    (b b' : Nat) (hb : b < r.len) (hb' : b' < r'.len) (hsame : r.lo + off + b = r'.lo + off' + b') :
    (gather t off (pre ++ r :: post) 0).testBit (totalLen pre + b)
      = (gather t off' (pre' ++ r' :: post') 0).testBit (totalLen pre' + b') := by
  rw [gather_bit t off pre r post b hb, gather_bit t off' pre' r' post' b' hb', hsame]

/-! non-vacuity: a two-step history on the RISC-V immediate -/
def stepImm (v : Nat) : Step := { fd := Ex.imm, i := 0, fv := .uint 12 v, v := v }
theorem stepImm_ok (v : Nat) (hv : v < 2 ^ 12) : (stepImm v).Ok Ex.noTypes (Base.new 32) :=
  ⟨Ex.imm_ok, by simp [stepImm, Ex.imm, FieldDef.totalBits, Base.new, storageOf], by simp [stepImm, Ex.imm], ⟨by simpa [stepImm, Ex.imm, FieldDef.totalBits] using hv, by simp [stepImm, Ex.imm, FieldDef.totalBits]⟩,
   Ex.imm_disjoint⟩
example := history_runs Ex.noTypes true (Base.new 32) Ex.wf32 [stepImm 0xABC, stepImm 0x123] 0xFFFFFFFF (by decide)
  (by intro st hst; simp at hst; rcases hst with rfl | rfl <;> exact stepImm_ok _ (by decide))
/-- after writing `0xFFF` and then `0x001` the immediate reads back `0x001` (the shape of the demonstration of the seeded
    changes S81 / S87, which break exactly this) -/
example (t : Nat) (h : Runs Ex.noTypes true (Base.new 32) 0 ([stepImm 0xFFF] ++ [stepImm 0x001]) t) :=
  readback_after_history Ex.noTypes true (Base.new 32) Ex.wf32 [stepImm 0xFFF] (stepImm 0x001) 0 t (by decide)
    (by intro st hst; simp at hst; rcases hst with rfl | rfl <;> exact stepImm_ok _ (by decide)) h

end Bb.C12
