import BitbybitModel.Lemmas.History
import BitbybitModel.Props.Examples
/-!
# C12 — any history of writes ends in last-write-wins state, bit by bit

A history is a list of legal `with_` / `set_` calls (`Step.Ok`: accepted field of the declaration, in-range
index, a value of the field's type; fields whose own range list repeats a bit are excluded, as in C04).
`Runs` executes the generated bodies one after the other.
-/
namespace Bb.C12
open Bb

/-- **C12.** Every legal history runs to completion under both profiles, and every bit of the final register is
    the bit supplied by the last write that covered it, or the initial bit if no write covered it. -/
theorem history (Γ : CustomEnv) (chk : Bool) (B : Base) (hB : B.WF) (steps : List Step) (init t : Nat)
    (hinit : init < 2 ^ B.internal) (hok : ∀ st ∈ steps, st.Ok Γ B) (hrun : Runs Γ chk B init steps t) (k : Nat) :
    t.testBit k = (decide (k < B.internal) && lastWrite init (steps.map Step.toOp) k) := by
  rw [runs_unique Γ chk B hB steps init t hinit hok hrun]
  exact testBit_applyWrites B.internal _ init k hinit

/-- such a run exists for every legal history: no write can panic -/
theorem history_runs (Γ : CustomEnv) (chk : Bool) (B : Base) (hB : B.WF) (steps : List Step) (init : Nat)
    (hinit : init < 2 ^ B.internal) (hok : ∀ st ∈ steps, st.Ok Γ B) :
    ∃ t, Runs Γ chk B init steps t := ⟨_, runs_exists Γ chk B hB steps init hinit hok⟩

/-- all getters observe exactly that state: a getter is a function of the final register alone (C01/C04) -/
theorem getters_observe_state (Γ : CustomEnv) (chk : Bool) (B : Base) (fd : FieldDef) (t i : Nat)
    (hB : B.WF) (hok : FieldOk B fd) (hwide : fd.totalBits ≤ B.internal) (hi : ∀ c s, fd.array = some (c, s) → i < c) :
    ∃ e, getterBody B fd = some e ∧
      eval Γ chk { raw := .int B.W t, index := .int .usize i } e = getterResult Γ fd (gather t (offOf i fd.stride) fd.ranges 0) :=
  eval_getterBody Γ chk B fd t i hB hok hwide hi

/-- **read-back after a history.** Whatever legal writes came before – to this field, to fields overlapping it, to any
    array element – the field written last reads back exactly the value written, under both profiles (the multi-step form
    of C02 / C04's "write followed by read is the identity": the receiver of the last write is an arbitrary reachable
    state, not a freshly wrapped raw value) -/
theorem readback_after_history (Γ : CustomEnv) (chk : Bool) (B : Base) (hB : B.WF) (steps : List Step) (last : Step)
    (init t : Nat) (hinit : init < 2 ^ B.internal) (hok : ∀ st ∈ steps ++ [last], st.Ok Γ B)
    (hrun : Runs Γ chk B init (steps ++ [last]) t) :
    ∃ e, getterBody B last.fd = some e ∧
      eval Γ chk { raw := .int B.W t, index := .int .usize last.i } e = getterResult Γ last.fd last.v := by
  have hl : last.Ok Γ B := hok last (by simp)
  have ht := runs_unique Γ chk B hB (steps ++ [last]) init t hinit hok hrun
  obtain ⟨e, he, hev⟩ := eval_getterBody Γ chk B last.fd t last.i hB hl.field_ok hl.wide hl.index
  refine ⟨e, he, ?_⟩
  rw [hev, ht]
  congr 1
  simp only [List.map_append, List.map_cons, List.map_nil, applyWrites, List.foldl_append, List.foldl_cons, List.foldl_nil,
    Step.toOp]
  apply gather_writeSpec
  · intro r hr
    exact Nat.le_trans (hl.field_ok.elem_in_bounds hl.index hr) hB.exposed_le
  · exact hl.disjoint
  · rw [← totalBits_eq]; exact hl.arg.1

/-- **a write through any accepted field – a list naming a bit twice included – leaves every position its ranges do not
    cover exactly as it was** (the "or its initial value if no write covered it" half of C12 needs no disjointness) -/
theorem write_keeps_uncovered (Γ : CustomEnv) (chk : Bool) (B : Base) (fd : FieldDef) (raw i : Nat) (fv : Val) (v : Nat)
    (hB : B.WF) (hok : FieldOk B fd) (hwide : fd.totalBits ≤ B.internal) (hraw : raw < 2 ^ B.internal)
    (hi : ∀ c s, fd.array = some (c, s) → i < c) (harg : ArgOk Γ fd fv v) :
    ∃ e, setterBody B fd = some e ∧ ∃ x,
      eval Γ chk { raw := .int B.W raw, index := .int .usize i, fieldValue := fv } e = .ok (.int B.W x) ∧
      ∀ p, fd.ranges.any (·.covers (offOf i fd.stride) p) = false → x.testBit p = raw.testBit p := by
  obtain ⟨e, he, x, hev, _, _, _, hout⟩ := eval_setterBody Γ chk B fd raw i fv v hB hok hwide hraw hi harg
  exact ⟨e, he, x, hev, hout⟩

/-- writes to disjoint position sets commute -/
theorem disjoint_commute (W init : Nat) (a b : WriteOp) (hinit : init < 2 ^ W)
    (hdis : ∀ p, (written a.v a.off a.rs 0 p).isSome → (written b.v b.off b.rs 0 p) = none) :
    applyWrites W init [a, b] = applyWrites W init [b, a] := by
  apply Nat.eq_of_testBit_eq
  intro k
  rw [testBit_applyWrites W _ init k hinit, testBit_applyWrites W _ init k hinit]
  simp only [lastWrite, lastWriteIn]
  cases ha : written a.v a.off a.rs 0 k with
  | none => cases hb : written b.v b.off b.rs 0 k <;> simp
  | some x =>
    have := hdis k (by simp [ha])
    simp [this]

/-- overlapping fields alias the same bits coherently: what any field reads after a history depends only on the
    final register, so two fields sharing a position read the same bit there -/
theorem overlap_alias (t off off' : Nat) (pre : List Rng) (r : Rng) (post : List Rng) (pre' : List Rng) (r' : Rng) (post' : List Rng)
    (b b' : Nat) (hb : b < r.len) (hb' : b' < r'.len) (hsame : r.lo + off + b = r'.lo + off' + b') :
    (gather t off (pre ++ r :: post) 0).testBit (totalLen pre + b)
      = (gather t off' (pre' ++ r' :: post') 0).testBit (totalLen pre' + b') := by
  rw [gather_bit t off pre r post b hb, gather_bit t off' pre' r' post' b' hb', hsame]

/-! non-vacuity: a two-step history on the RISC-V immediate -/
def stepImm (v : Nat) : Step := { fd := Ex.imm, i := 0, fv := .uint 12 v, v := v }
theorem stepImm_ok (v : Nat) (hv : v < 2 ^ 12) : (stepImm v).Ok Ex.noTypes (Base.new 32) :=
  ⟨Ex.imm_ok, by simp [stepImm, Ex.imm, FieldDef.totalBits, Base.new, storageOf], by simp [stepImm, Ex.imm], ⟨by simpa [stepImm, Ex.imm, FieldDef.totalBits] using hv, by simp [stepImm, Ex.imm, FieldDef.totalBits]⟩,
   Ex.imm_disjoint⟩
example := history_runs Ex.noTypes true (Base.new 32) Ex.wf32 [stepImm 0xABC, stepImm 0x123] 0xFFFFFFFF (by decide)
  (by intro st hst; simp at hst; rcases hst with rfl | rfl <;> exact stepImm_ok _ (by decide))
/-- after writing `0xFFF` and then `0x001` the immediate reads back `0x001` (the shape of the demonstration of the seeded
    changes S81 / S87, which break exactly this) -/
example (t : Nat) (h : Runs Ex.noTypes true (Base.new 32) 0 ([stepImm 0xFFF] ++ [stepImm 0x001]) t) :=
  readback_after_history Ex.noTypes true (Base.new 32) Ex.wf32 [stepImm 0xFFF] (stepImm 0x001) 0 t (by decide)
    (by intro st hst; simp at hst; rcases hst with rfl | rfl <;> exact stepImm_ok _ (by decide)) h


/-! ## Order-independence, dead writes, idempotence (any number of writes) -/

/-- the two writes touch no common position -/
def Apart (a b : WriteOp) : Prop :=
  ∀ p, (written a.v a.off a.rs 0 p).isSome → written b.v b.off b.rs 0 p = none

theorem Apart.symm {a b : WriteOp} (h : Apart a b) : Apart b a := by
  intro p hb
  cases ha : written a.v a.off a.rs 0 p with
  | none => rfl
  | some x => have := h p (by simp [ha]); simp [this] at hb

theorem lastWriteIn_some_mem : ∀ (ops : List WriteOp) (p : Nat) (b : Bool), lastWriteIn ops p = some b →
    ∃ op ∈ ops, written op.v op.off op.rs 0 p = some b := by
  intro ops
  induction ops with
  | nil => intro p b h; simp [lastWriteIn] at h
  | cons x rest ih =>
    intro p b h
    simp only [lastWriteIn] at h
    cases hl : lastWriteIn rest p with
    | some c =>
      rw [hl] at h
      obtain ⟨op, hm, hw⟩ := ih p c hl
      simp only [Option.some.injEq] at h
      exact ⟨op, List.mem_cons_of_mem _ hm, h ▸ hw⟩
    | none =>
      rw [hl] at h
      exact ⟨x, List.mem_cons_self, h⟩

theorem lastWriteIn_of_mem : ∀ (ops : List WriteOp) (p : Nat) (b : Bool), ops.Pairwise Apart →
    ∀ op ∈ ops, written op.v op.off op.rs 0 p = some b → lastWriteIn ops p = some b := by
  intro ops
  induction ops with
  | nil => intro p b _ op hm; simp at hm
  | cons x rest ih =>
    intro p b hpw op hm hw
    rw [List.pairwise_cons] at hpw
    simp only [lastWriteIn]
    rcases List.mem_cons.mp hm with rfl | hm'
    · cases hl : lastWriteIn rest p with
      | none => exact hw
      | some c =>
        obtain ⟨y, hy, hyw⟩ := lastWriteIn_some_mem rest p c hl
        have := hpw.1 y hy p (by simp [hw])
        simp [this] at hyw
    · rw [ih p b hpw.2 op hm' hw]

/-- **order-independence, any number of writes.** Two histories that consist of the same writes in a different order
    (`List.Perm`), the writes being pairwise on disjoint position sets, end in the same register -/
theorem disjoint_perm (W init : Nat) (ops ops' : List WriteOp) (hinit : init < 2 ^ W) (hp : ops.Perm ops')
    (hdis : ops.Pairwise Apart) : applyWrites W init ops = applyWrites W init ops' := by
  have hdis' : ops'.Pairwise Apart := (hp.pairwise_iff (fun h => Apart.symm h)).mp hdis
  apply Nat.eq_of_testBit_eq
  intro k
  rw [testBit_applyWrites W _ init k hinit, testBit_applyWrites W _ init k hinit]
  have : lastWriteIn ops k = lastWriteIn ops' k := by
    apply Option.ext
    intro b
    constructor
    · intro h
      obtain ⟨op, hm, hw⟩ := lastWriteIn_some_mem ops k b h
      exact lastWriteIn_of_mem ops' k b hdis' op (hp.mem_iff.mp hm) hw
    · intro h
      obtain ⟨op, hm, hw⟩ := lastWriteIn_some_mem ops' k b h
      exact lastWriteIn_of_mem ops k b hdis op (hp.mem_iff.mpr hm) hw
  simp only [lastWrite, this]

/-- **a dead write.** A write all of whose positions are covered again by the next write leaves no trace -/
theorem overwrite (W init : Nat) (a b : WriteOp) (hinit : init < 2 ^ W)
    (hcov : ∀ p, (written a.v a.off a.rs 0 p).isSome → (written b.v b.off b.rs 0 p).isSome) :
    applyWrites W init [a, b] = applyWrites W init [b] := by
  apply Nat.eq_of_testBit_eq
  intro k
  rw [testBit_applyWrites W _ init k hinit, testBit_applyWrites W _ init k hinit]
  simp only [lastWrite, lastWriteIn]
  cases hb : written b.v b.off b.rs 0 k with
  | some x => simp
  | none =>
    cases ha : written a.v a.off a.rs 0 k with
    | none => simp
    | some y => have := hcov k (by simp [ha]); simp [hb] at this

/-- writing the same value to the same field twice is writing it once -/
theorem write_idempotent (W init : Nat) (a : WriteOp) (hinit : init < 2 ^ W) :
    applyWrites W init [a, a] = applyWrites W init [a] := overwrite W init a a hinit (fun _ h => h)


/-- **order-independence of the generated setters.** Two legal histories of `with_` / `set_` calls that are permutations of
    each other, the calls pairwise touching no common position (different non-overlapping fields, or different elements of
    an array whose elements do not overlap), leave the same register – under both profiles, for any number of calls -/
theorem history_order_independent (Γ : CustomEnv) (chk : Bool) (B : Base) (hB : B.WF) (steps steps' : List Step)
    (init t t' : Nat) (hinit : init < 2 ^ B.internal) (hok : ∀ st ∈ steps, st.Ok Γ B) (hp : steps.Perm steps')
    (hdis : (steps.map Step.toOp).Pairwise Apart)
    (hrun : Runs Γ chk B init steps t) (hrun' : Runs Γ chk B init steps' t') : t = t' := by
  have hok' : ∀ st ∈ steps', st.Ok Γ B := fun st h => hok st (hp.mem_iff.mpr h)
  rw [runs_unique Γ chk B hB steps init t hinit hok hrun, runs_unique Γ chk B hB steps' init t' hinit hok' hrun']
  exact disjoint_perm B.internal init _ _ hinit (hp.map _) hdis

/-- single-range writes whose intervals are disjoint are `Apart` (what discharges the hypothesis for contiguous fields) -/
theorem apart_single (r q : Rng) (v w : Nat) (h : r.disj q = true) : Apart ⟨[r], 0, v⟩ ⟨[q], 0, w⟩ := by
  intro p hp
  simp only [written, Rng.covers, Rng.disj, Nat.add_zero, Bool.or_eq_true, decide_eq_true_eq] at hp h ⊢
  by_cases hc : (decide (r.lo ≤ p) && decide (p < r.lo + r.len)) = true
  · by_cases hc' : (decide (q.lo ≤ p) && decide (p < q.lo + q.len)) = true
    · simp only [Bool.and_eq_true, decide_eq_true_eq] at hc hc'
      omega
    · simp [hc']
  · simp [hc] at hp

/-! non-vacuity: three writes to three disjoint contiguous fields in two different orders -/
def wA : WriteOp := ⟨[⟨0, 4⟩], 0, 5⟩
def wB : WriteOp := ⟨[⟨8, 4⟩], 0, 3⟩
def wC : WriteOp := ⟨[⟨4, 2⟩], 0, 1⟩
example : applyWrites 16 0xFFFF [wA, wB, wC] = applyWrites 16 0xFFFF [wC, wA, wB] :=
  disjoint_perm 16 0xFFFF [wA, wB, wC] [wC, wA, wB] (by decide)
    (List.perm_append_comm (l₁ := [wA, wB]) (l₂ := [wC]))
    (by
      simp only [List.pairwise_cons, List.mem_cons, List.not_mem_nil, or_false, forall_eq_or_imp, forall_eq,
        false_imp_iff, implies_true, List.Pairwise.nil, and_true]
      exact ⟨⟨apart_single _ _ _ _ (by decide), apart_single _ _ _ _ (by decide)⟩, apart_single _ _ _ _ (by decide)⟩)
/-- and the hypothesis is needed: overlapping writes do not commute -/
example : applyWrites 8 0 [⟨[⟨0, 4⟩], 0, 5⟩, ⟨[⟨2, 4⟩], 0, 3⟩] ≠ applyWrites 8 0 [⟨[⟨2, 4⟩], 0, 3⟩, ⟨[⟨0, 4⟩], 0, 5⟩] := by decide


/-- which positions a write covers depends on the ranges and the element offset only, not on the value -/
theorem written_isSome_indep (v w off : Nat) : ∀ (rs : List Rng) (t t' p : Nat),
    (written v off rs t p).isSome = (written w off rs t' p).isSome := by
  intro rs
  induction rs with
  | nil => intro t t' p; rfl
  | cons r rest ih =>
    intro t t' p
    simp only [written]
    by_cases hc : r.covers off p = true
    · simp [hc]
    · simp [hc, ih (t + r.len) (t' + r.len) p]

/-- **the second write to the same field (same element) wins entirely**: nothing of the first value survives, also for
    lists and for lists naming a bit twice -/
theorem rewrite_same_field (W init : Nat) (rs : List Rng) (off v w : Nat) (hinit : init < 2 ^ W) :
    applyWrites W init [⟨rs, off, v⟩, ⟨rs, off, w⟩] = applyWrites W init [⟨rs, off, w⟩] :=
  overwrite W init ⟨rs, off, v⟩ ⟨rs, off, w⟩ hinit (fun p h => by rw [← written_isSome_indep v w off rs 0 0 p]; exact h)

/-- the same for the generated setters: two legal calls on the same field and element, then any state is the state after
    the second call alone (either profile) -/
theorem second_write_wins (Γ : CustomEnv) (chk : Bool) (B : Base) (hB : B.WF) (s₁ s₂ : Step) (init t t' : Nat)
    (hinit : init < 2 ^ B.internal) (h₁ : s₁.Ok Γ B) (h₂ : s₂.Ok Γ B) (hfd : s₁.fd = s₂.fd) (hi : s₁.i = s₂.i)
    (hrun : Runs Γ chk B init [s₁, s₂] t) (hrun' : Runs Γ chk B init [s₂] t') : t = t' := by
  rw [runs_unique Γ chk B hB [s₁, s₂] init t hinit (by intro st hst; simp at hst; rcases hst with rfl | rfl <;> assumption) hrun,
    runs_unique Γ chk B hB [s₂] init t' hinit (by intro st hst; simp at hst; subst hst; assumption) hrun']
  simp only [List.map_cons, List.map_nil, Step.toOp, hfd, hi]
  exact rewrite_same_field _ _ _ _ _ _ hinit

/-- single-range writes at element offsets that keep the two intervals apart are `Apart` -/
theorem apart_offsets (r q : Rng) (off off' v w : Nat)
    (h : r.lo + off + r.len ≤ q.lo + off' ∨ q.lo + off' + q.len ≤ r.lo + off) : Apart ⟨[r], off, v⟩ ⟨[q], off', w⟩ := by
  intro p hp
  simp only [written, Rng.covers] at hp ⊢
  by_cases hc : (decide (r.lo + off ≤ p) && decide (p < r.lo + off + r.len)) = true
  · by_cases hc' : (decide (q.lo + off' ≤ p) && decide (p < q.lo + off' + q.len)) = true
    · simp only [Bool.and_eq_true, decide_eq_true_eq] at hc hc'
      omega
    · simp [hc']
  · simp [hc] at hp

/-- **different elements of a contiguous array whose stride is at least the element width never share a position**, so
    writes to them commute (`disjoint_perm` / `history_order_independent`) -/
theorem apart_elements (fd : FieldDef) (r : Rng) (st i j v w : Nat) (hr : fd.ranges = [r]) (hs : fd.stride = some st)
    (hst : r.len ≤ st) (hij : i ≠ j) :
    Apart (Step.toOp { fd := fd, i := i, fv := .uint 0 0, v := v }) (Step.toOp { fd := fd, i := j, fv := .uint 0 0, v := w }) := by
  simp only [Step.toOp, hr, hs]
  apply apart_offsets
  simp only [offOf]
  rcases Nat.lt_or_gt_of_ne hij with h | h
  · left
    have : (i + 1) * st ≤ j * st := Nat.mul_le_mul_right _ h
    rw [Nat.add_mul] at this
    omega
  · right
    have : (j + 1) * st ≤ i * st := Nat.mul_le_mul_right _ h
    rw [Nat.add_mul] at this
    omega

end Bb.C12
