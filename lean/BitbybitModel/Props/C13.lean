import BitbybitModel.Lemmas.BuilderChain
import BitbybitModel.Props.Examples
import BitbybitModel.Props.C12
/-!
# C13 — `builder()…build()` equals the default with every field written

The generated chain is `Partial(self.0.with_f(value))` per scalar step and
`Partial(self.0.with_f(0, value[0]).with_f(1, value[1])…)` per array step, started from `DEFAULT` (or from
`new_with_raw_value(0)` / `ZERO`), and `build()` returns `self.0`. So evaluating a chain is running the `with_`
bodies of its steps in order (`Runs`).
-/
namespace Bb.C13
open Bb

/-- the `with_` calls one builder step performs for its argument -/
def stepCalls (s : BuilderStep) (a : BuilderArg) : List Step :=
  match s.field.array, a with
  | none, .scalar fv v => [{ fd := s.field, i := 0, fv := fv, v := v }]
  | some _, .array elems => elems.zipIdx.map (fun e => { fd := s.field, i := e.2, fv := e.1.1, v := e.1.2 })
  | _, _ => []

/-- all calls of the chain, in order -/
def chainCalls : List BuilderStep → List BuilderArg → List Step
  | s :: ss, a :: as => stepCalls s a ++ chainCalls ss as
  | _, _ => []

/-- the register the builder starts from: the declared default, else zero -/
def builderInit (p : Program) : Nat := p.default.getD 0

/-- the steps of an offered builder are the writable fields in declaration order, one step each -/
theorem steps_are_writable_fields (B : Base) (hasDefault : Bool) (fds : List FieldDef) (steps : List BuilderStep) (final : Nat)
    (h : makeBuilder B hasDefault fds = .chain steps final) : steps.map (·.field) = fds.filter (·.setter) := by
  unfold makeBuilder at h
  cases hl : builderLoop fds 0 [] with
  | chain st fin =>
    simp only [hl] at h
    have hf := builderLoop_fields fds 0 [] st fin hl
    split at h
    · cases h
    · cases h
      simpa using hf
  | panic => simp [hl] at h
  | none => simp [hl] at h

/-- **C13.** Running the chain from the start value ends in the register obtained by applying the reference write of
    every call in order – i.e. `with_<field>` for every writable field with the supplied argument, array arguments
    assigning element `i` from position `i`. -/
theorem builder_eval (Γ : CustomEnv) (chk : Bool) (B : Base) (hB : B.WF) (steps : List BuilderStep) (args : List BuilderArg)
    (init t : Nat) (hinit : init < 2 ^ B.internal) (hok : ∀ st ∈ chainCalls steps args, st.Ok Γ B)
    (hrun : Runs Γ chk B init (chainCalls steps args) t) :
    t = applyWrites B.internal init ((chainCalls steps args).map Step.toOp) :=
  runs_unique Γ chk B hB _ init t hinit hok hrun

/-- the chain always runs to completion -/
theorem builder_runs (Γ : CustomEnv) (chk : Bool) (B : Base) (hB : B.WF) (steps : List BuilderStep) (args : List BuilderArg)
    (init : Nat) (hinit : init < 2 ^ B.internal) (hok : ∀ st ∈ chainCalls steps args, st.Ok Γ B) :
    ∃ t, Runs Γ chk B init (chainCalls steps args) t := ⟨_, runs_exists Γ chk B hB _ init hinit hok⟩

theorem lastWriteIn_none (ops : List WriteOp) (k : Nat) (h : ∀ op ∈ ops, written op.v op.off op.rs 0 k = none) :
    lastWriteIn ops k = none := by
  induction ops with
  | nil => rfl
  | cons op rest ih =>
    simp [lastWriteIn, ih (fun o ho => h o (by simp [ho])), h op (by simp)]

/-- **bits covered by no writable field keep the start value** (the default's bit, or zero) -/
theorem builder_untouched_bits (W init : Nat) (ops : List WriteOp) (k : Nat) (hinit : init < 2 ^ W)
    (h : ∀ op ∈ ops, written op.v op.off op.rs 0 k = none) :
    (applyWrites W init ops).testBit k = init.testBit k := by
  rw [testBit_applyWrites W ops init k hinit]
  simp only [lastWrite, lastWriteIn_none ops k h, Option.getD_none]
  by_cases hk : k < W
  · simp [hk]
  · simp [hk, testBit_eq_false_of_lt hinit (by omega : W ≤ k)]

/-- array arguments assign element `i` from position `i` of the array -/
theorem array_calls_indexed (s : BuilderStep) (elems : List (Val × Nat)) (c st : Nat) (ha : s.field.array = some (c, st)) :
    (stepCalls s (.array elems)).map (·.i) = List.range elems.length ∧
    (stepCalls s (.array elems)).map (fun x => (x.fv, x.v)) = elems := by
  simp only [stepCalls, ha, List.map_map]
  constructor
  · have : ((fun x : Step => x.i) ∘ fun e : (Val × Nat) × Nat => ({ fd := s.field, i := e.2, fv := e.1.1, v := e.1.2 } : Step))
        = fun e => e.2 := rfl
    rw [this]
    simp [List.zipIdx_map_snd, List.range_eq_range']
  · have : ((fun x : Step => (x.fv, x.v)) ∘ fun e : (Val × Nat) × Nat => ({ fd := s.field, i := e.2, fv := e.1.1, v := e.1.2 } : Step))
        = fun e => e.1 := rfl
    rw [this]
    simp [List.zipIdx_map_fst]


/-- **the builder's result is that of writing the same fields with `with_` / `set_` in any order.** A builder is offered
    only when no position is writable twice (C14), so its calls are pairwise `C12.Apart`; then any permutation of the calls,
    run from the same start value, ends in the register `build()` returns -/
theorem builder_order_irrelevant (Γ : CustomEnv) (chk : Bool) (B : Base) (hB : B.WF) (steps : List BuilderStep)
    (args : List BuilderArg) (calls' : List Step) (init t t' : Nat) (hinit : init < 2 ^ B.internal)
    (hok : ∀ st ∈ chainCalls steps args, st.Ok Γ B) (hp : (chainCalls steps args).Perm calls')
    (hdis : ((chainCalls steps args).map Step.toOp).Pairwise C12.Apart)
    (hrun : Runs Γ chk B init (chainCalls steps args) t) (hrun' : Runs Γ chk B init calls' t') : t' = t :=
  (C12.history_order_independent Γ chk B hB _ calls' init t t' hinit hok hp hdis hrun hrun').symm

end Bb.C13
