import BitbybitModel.Lemmas.BuilderChain
import BitbybitModel.Lemmas.BuilderMask
/-!
# C14 — the builder exists exactly when sound; `build()` is unreachable until all fields are set
-/
namespace Bb.C14
open Bb

/-- the three ways `make_builder` declines to offer a builder, exactly as coded: a writable field whose own ranges /
    elements overlap, a writable field overlapping an earlier writable field, or – without a default – writable
    fields that do not cover all `N` bits -/
theorem no_builder_cases (B : Base) (hasDefault : Bool) (fds : List FieldDef) (h : makeBuilder B hasDefault fds = .none) :
    builderLoop fds 0 [] = .none ∨
    (∃ steps final, builderLoop fds 0 [] = .chain steps final ∧ popCount 128 final ≠ B.exposed ∧ hasDefault = false) := by
  unfold makeBuilder at h
  cases hl : builderLoop fds 0 [] with
  | none => exact Or.inl rfl
  | panic => simp [hl] at h
  | chain steps final =>
    simp only [hl] at h
    split at h
    · rename_i hc
      exact Or.inr ⟨steps, final, rfl, hc.1, by simpa using hc.2⟩
    · cases h

/-- when a builder is offered, the type-state is a linear chain: `builder()` returns `Partial<0>`, step `k` is
    implemented on `Partial<maskₖ₋₁>` only and returns `Partial<maskₖ>` with `maskₖ = maskₖ₋₁ | fieldmaskₖ`, where the
    field's mask is disjoint from everything set before; `build()` is implemented on the last mask only. -/
theorem typestate_linear (B : Base) (hasDefault : Bool) (fds : List FieldDef) (steps : List BuilderStep) (final : Nat)
    (h : makeBuilder B hasDefault fds = .chain steps final) :
    ChainFrom 0 steps final ∧ steps.map (·.field) = fds.filter (·.setter) ∧
    (hasDefault = true ∨ popCount 128 final = B.exposed) := by
  unfold makeBuilder at h
  cases hl : builderLoop fds 0 [] with
  | none => simp [hl] at h
  | panic => simp [hl] at h
  | chain st fin =>
    simp only [hl] at h
    obtain ⟨tail, h1, h2⟩ := builderLoop_chain fds 0 [] st fin hl
    have hf := builderLoop_fields fds 0 [] st fin hl
    simp only [List.reverse_nil, List.nil_append] at h1
    subst h1
    by_cases hc : popCount 128 fin ≠ B.exposed ∧ (!hasDefault) = true
    · rw [if_pos hc] at h; cases h
    · rw [if_neg hc] at h
      simp only [BuilderResult.chain.injEq] at h
      obtain ⟨hs, hfin⟩ := h
      subst hs; subst hfin
      refine ⟨h2, by simpa using hf, ?_⟩
      cases hd : hasDefault with
      | true => exact Or.inl rfl
      | false =>
        right
        rcases Classical.em (popCount 128 fin = B.exposed) with hp | hp
        · exact hp
        · exact absurd ⟨hp, by rw [hd]; rfl⟩ hc

/-- masks along a chain only grow: a later `Partial<m>` type is never equal to an earlier one unless no field lies
    between them (so a step cannot be skipped or repeated) -/
theorem chain_monotone : ∀ (steps : List BuilderStep) (m final : Nat), ChainFrom m steps final →
    ∀ k, m.testBit k = true → final.testBit k = true := by
  intro steps
  induction steps with
  | nil => intro m final h k hk; simp only [ChainFrom] at h; rw [h]; exact hk
  | cons s rest ih =>
    intro m final h k hk
    obtain ⟨h1, ⟨fm, _, _, h3⟩, _, h4⟩ := h
    apply ih s.nextMask final h4 k
    rw [h3, Nat.testBit_or, h1, hk]; rfl

/-- the mask the macro computes for a field has bit `k` exactly when some (element, range) piece of the field
    covers position `k`; the macro's `u128` arithmetic never overflows for an accepted field -/
theorem mask_bits {B : Base} {fd : FieldDef} (hB : B.WF) (hok : FieldOk B fd) (m : Nat) (h : fieldMask fd = .mask m) (k : Nat) :
    m.testBit k = (fieldPieces fd).any (·.covers 0 k) := by
  rw [fieldMask_spec hB hok] at h
  split at h
  · cases h; exact testBit_maskBits 0 _ k
  · cases h

/-- the self-overlap test answers "self overlap" exactly when two pieces of the field share a position -/
theorem self_overlap_iff {B : Base} {fd : FieldDef} (hB : B.WF) (hok : FieldOk B fd) :
    fieldMask fd = .selfOverlap ↔ pairwiseDisjoint (fieldPieces fd) = false := by
  rw [fieldMask_spec hB hok]
  cases hd : pairwiseDisjoint (fieldPieces fd) <;> simp

/-- **C14 (decision).** For every accepted declaration: `builder()` is offered iff no position is writable through
    more than one field, array element or range (the pieces of all writable fields are pairwise disjoint) and either a
    default is declared or the writable positions are all `N` bits of the base. -/
theorem builder_offered_iff {B : Base} (hB : B.WF) (hasDefault : Bool) (fds : List FieldDef) (hok : ∀ fd ∈ fds, FieldOk B fd) :
    (∃ steps final, makeBuilder B hasDefault fds = .chain steps final) ↔
      pairwiseDisjoint (writablePieces fds) = true ∧
      (hasDefault = true ∨ ∀ p, p < B.exposed → (writablePieces fds).any (·.covers 0 p) = true) :=
  Bb.builder_offered_iff hB hasDefault fds hok

/-- in particular, when a builder is offered every position is covered by at most one writable piece -/
theorem no_double_write {B : Base} (hB : B.WF) (hasDefault : Bool) (fds : List FieldDef) (hok : ∀ fd ∈ fds, FieldOk B fd)
    (h : ∃ steps final, makeBuilder B hasDefault fds = .chain steps final) (p : Nat) : cov (writablePieces fds) p ≤ 1 :=
  cov_le_one _ p ((builder_offered_iff hB hasDefault fds hok).mp h).1

/-! non-vacuity: `#[bitfield(u8)] { lo: u4 @0..=3 rw, hi: u4 @4..=7 rw }` gets a builder without a default;
    with `hi` moved to 3..=6 it does not -/
def lo4 : FieldDef := {
  name := "lo", ranges := [⟨0, 4⟩], unsignedFieldType := none, array := none, fieldTypeSize := 4,
  getter := true, setter := true, fromDataType := some 4, useRegularInt := false, primitiveType := .u8, custom := none, docs := 0 }
def hi4 (lo : Nat) : FieldDef := {
  name := "hi", ranges := [⟨lo, 4⟩], unsignedFieldType := none, array := none, fieldTypeSize := 4,
  getter := true, setter := true, fromDataType := some 4, useRegularInt := false, primitiveType := .u8, custom := none, docs := 0 }
set_option maxRecDepth 8192 in
example : makeBuilder (Base.new 8) false [lo4, hi4 4] ≠ .none := by decide
example : makeBuilder (Base.new 8) false [lo4, hi4 3] = .none := by decide

end Bb.C14
