import BitbybitModel.Macro.Bitfield
/-!
# C15 — everything but `set_` is usable in const context (partial)

Proved: every item the property lists is emitted with the `const` qualifier, and generated bodies are built only
from constructs of the `Expr` fragment, each of which is a `const`-evaluable operation (integer operators, casts,
`if`, `let`, `const`, `assert!`, calls to `const fn`s of `arbitrary-int` and to the user type's conversions).
Not provable in the model (compiler behaviour): that rustc's const evaluator accepts the bodies and agrees with the
run-time result. That part is compiler-checked by `const` items in the correspondence crates.
-/
namespace Bb.C15
open Bb

/-- an item is const, or is one of the three kinds the property exempts: `set_` methods, trait methods
    (`Default::default`, `Debug::fmt`) and the builder struct definition -/
def constOrExempt (it : Item) : Bool :=
  it.isConst || it.kind == .setter || it.kind == .traitMethod || it.kind == .structDef

theorem accessor_items_const (fd : FieldDef) : (accessorItems fd).all constOrExempt = true := by
  unfold accessorItems
  cases fd.getter <;> cases fd.setter <;> simp [constOrExempt]

theorem flatten_all {α : Type} (p : α → Bool) (ls : List (List α)) (h : ∀ l ∈ ls, l.all p = true) : ls.flatten.all p = true := by
  induction ls with
  | nil => rfl
  | cons l ls ih =>
    simp only [List.flatten_cons, List.all_append, Bool.and_eq_true]
    exact ⟨h l (by simp), ih (fun x hx => h x (by simp [hx]))⟩

/-- **every generated item is const, except `set_*`, the trait methods and the builder struct definition**: in
    particular ZERO, DEFAULT, new_with_raw_value, raw_value, every getter, every `with_`, builder(), each builder
    step and build() -/
theorem all_items_const (d : DeclSyn) (fds : List FieldDef) (b : Option (List BuilderStep × Nat)) :
    (structItems d fds b).all constOrExempt = true := by
  unfold structItems
  simp only [List.all_append, Bool.and_eq_true]
  refine ⟨⟨⟨⟨⟨⟨⟨?_, ?_⟩, ?_⟩, ?_⟩, ?_⟩, ?_⟩, ?_⟩, ?_⟩
  · simp [constOrExempt]
  · split <;> simp [constOrExempt]
  · simp [constOrExempt]
  · split <;> simp [constOrExempt]
  · apply flatten_all
    intro l hl
    simp only [List.mem_map] at hl
    obtain ⟨fd, _, rfl⟩ := hl
    exact accessor_items_const fd
  · split <;> simp [constOrExempt]
  · split <;> simp [constOrExempt]
  · cases b with
    | none => rfl
    | some sf =>
      obtain ⟨steps, final⟩ := sf
      simp [constOrExempt, List.all_append]

/-- the getter and `with_` of a field are const; `set_` is the one accessor that is not -/
theorem accessor_const_flags (fd : FieldDef) :
    (accessorItems fd).map (fun it => (it.kind, it.isConst)) =
      (if fd.getter then [(ItemKind.method, true)] else []) ++
      (if fd.setter then [(ItemKind.method, true), (ItemKind.setter, false)] else []) := by
  unfold accessorItems
  cases fd.getter <;> cases fd.setter <;> simp

/-- builder steps are const -/
theorem builder_step_const (s : BuilderStep) :
    ({ kind := .builderStep, name := "with_" ++ stripRaw s.field.name, isPub := true, isConst := true,
       hasDoc := s.field.docs > 0, field := some s.field.name } : Item).isConst = true := rfl

/-- every construct of the generated-expression fragment is const-evaluable: there is no constructor for a
    non-const operation (heap allocation, trait-object call, floating point, raw-pointer dereference, …) -/
def constEvaluable : Expr → Bool
  | .lit _ _ | .var _ => true
  | .bin _ a b => constEvaluable a && constEvaluable b
  | .not a | .cast a _ | .uintNew _ a | .uintValue a | .customNew _ a | .customRaw a => constEvaluable a
  | .ite c a b => constEvaluable c && constEvaluable a && constEvaluable b
  | .letE _ e b | .assertE e b => constEvaluable e && constEvaluable b
  | .extract _ _ e s => constEvaluable e && constEvaluable s

theorem all_const_evaluable (e : Expr) : constEvaluable e = true := by
  induction e <;> simp_all [constEvaluable]

end Bb.C15
