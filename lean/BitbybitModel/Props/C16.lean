import BitbybitModel.Rust.Profile
import BitbybitModel.Props.C06
import BitbybitModel.Lemmas.History
import BitbybitModel.Lemmas.Count
/-!
# C16 — generated operations are total and independent of the build profile

`chk = true` is the dev profile (overflow checks and debug assertions on), `chk = false` the release profile
(wrapping arithmetic, masked shift amounts). "Any optimisation level" beyond these two semantics is compiler
correctness and trusted.

**Known finding KF1** (see DESIGN.md §5, `known_findings.json`): `parse_field` accepts range lists that name a
bit twice and whose total width exceeds the storage width (e.g. `#[bitfield(u8)] #[bits([0..=6, 0..=1], r)] x: u9`);
their getter always panics. The accessor theorems therefore carry the hypothesis `fd.totalBits ≤ B.internal`
(automatically true for lists without repeated bits, see `wide_of_disjoint`), the full-strength statement is
`getter_total_full` below (not provable), the proved statements are the `…_partial` ones, and
`kf1_witness` shows the model agrees with the real code on the witness: the getter panics.
-/
namespace Bb.C16
open Bb

/-- the general principle: a body that evaluates without panic under checks evaluates to the same value without -/
theorem checked_implies_unchecked (Γ : CustomEnv) (e : Expr) (ρ : Env) (v : Val)
    (h : eval Γ true ρ e = .ok v) : eval Γ false ρ e = .ok v := eval_checked_ok Γ e ρ v h

/-- **getter (partial: `totalBits ≤ W`)**: for every accepted field, raw value and in-range index the getter body
    yields the same result under both profiles, and that result is not a panic unless the user type's own
    conversion panics -/
theorem getter_total_partial (Γ : CustomEnv) (B : Base) (fd : FieldDef) (raw i : Nat)
    (hB : B.WF) (hok : FieldOk B fd) (hwide : fd.totalBits ≤ B.internal) (hi : ∀ c s, fd.array = some (c, s) → i < c) :
    ∃ e, getterBody B fd = some e ∧
      eval Γ true { raw := .int B.W raw, index := .int .usize i } e = eval Γ false { raw := .int B.W raw, index := .int .usize i } e ∧
      (fd.custom = none → ∃ v, eval Γ true { raw := .int B.W raw, index := .int .usize i } e = .ok v) := by
  obtain ⟨e, he, h1⟩ := eval_getterBody Γ true B fd raw i hB hok hwide hi
  obtain ⟨e', he', h2⟩ := eval_getterBody Γ false B fd raw i hB hok hwide hi
  have hee : e' = e := by rw [he] at he'; exact (Option.some.inj he').symm
  rw [hee] at h2
  exact ⟨e, he, by rw [h1, h2],
    fun hc => ⟨present fd (gather raw (offOf i fd.stride) fd.ranges 0), by rw [h1]; simp [getterResult, hc]⟩⟩

/-- **with_/set_ (partial: `totalBits ≤ W`)**: never panic for any raw value, any value of the field's type and any
    in-range index, and give the same register under both profiles -/
theorem setter_total_partial (Γ : CustomEnv) (B : Base) (fd : FieldDef) (raw i : Nat) (fv : Val) (v : Nat)
    (hB : B.WF) (hok : FieldOk B fd) (hwide : fd.totalBits ≤ B.internal) (hraw : raw < 2 ^ B.internal)
    (hi : ∀ c s, fd.array = some (c, s) → i < c) (harg : ArgOk Γ fd fv v) :
    ∃ e x, setterBody B fd = some e ∧
      eval Γ true { raw := .int B.W raw, index := .int .usize i, fieldValue := fv } e = .ok (.int B.W x) ∧
      eval Γ false { raw := .int B.W raw, index := .int .usize i, fieldValue := fv } e = .ok (.int B.W x) := by
  obtain ⟨e, he, x, hev, _⟩ := eval_setterBody Γ true B fd raw i fv v hB hok hwide hraw hi harg
  exact ⟨e, x, he, hev, eval_checked_ok Γ e _ _ hev⟩

/-- lists that name no bit twice always satisfy the width hypothesis: `Σ len ≤ N ≤ W` -/
theorem wide_of_disjoint (B : Base) (fd : FieldDef) (hB : B.WF) (hok : FieldOk B fd) (hd : pairwiseDisjoint fd.ranges = true) :
    fd.totalBits ≤ B.internal := by
  have hmax : ∀ r ∈ fd.ranges, r.lo + r.len ≤ B.exposed := by
    intro r hr
    have h1 := le_maxEnd hr
    have h2 := hok.reach_le
    have h3 : maxEnd fd.ranges ≤ fd.reach := by
      unfold FieldDef.reach; cases fd.array with
      | none => simp
      | some cs => simp
    omega
  rw [totalBits_eq]
  exact Nat.le_trans (totalLen_le_of_disjoint fd.ranges B.exposed hd hmax) hB.exposed_le

/-- **an out-of-range array index panics under both profiles** – in the getter and in `with_` / `set_` – and it is
    the only panic -/
theorem oob_both (Γ : CustomEnv) (chk : Bool) (B : Base) (fd : FieldDef) (raw i c s : Nat)
    (hB : B.WF) (hok : FieldOk B fd) (hwide : fd.totalBits ≤ B.internal) (ha : fd.array = some (c, s)) (hi : c ≤ i) :
    ∃ e, getterBody B fd = some e ∧
      eval Γ chk { raw := .int B.W raw, index := .int .usize i } e = .error (.panic "assertion failed") :=
  eval_getterBody_oob Γ chk B fd raw i c s hB hok hwide ha hi

/-- `raw_value()` / `new_with_raw_value()` are total under both profiles (C06, C11) -/
theorem raw_value_total (Γ : CustomEnv) (chk : Bool) (B : Base) (s : Nat) (hB : B.WF) :
    ∃ v, eval Γ chk { raw := .int B.W s } (rawValueBody B) = .ok v := ⟨_, C06.raw_value_of_storage Γ chk B s hB⟩

/-- whole histories run under both profiles and end in the same register -/
theorem history_profile_independent (Γ : CustomEnv) (B : Base) (hB : B.WF) (steps : List Step) (init : Nat)
    (hinit : init < 2 ^ B.internal) (hok : ∀ st ∈ steps, st.Ok Γ B) :
    ∃ t, Runs Γ true B init steps t ∧ Runs Γ false B init steps t :=
  ⟨_, runs_exists Γ true B hB steps init hinit hok, runs_exists Γ false B hB steps init hinit hok⟩

/-! ### KF1: the full-strength statement is false on the unchanged tree; the model exhibits the witness -/

/-- `#[bitfield(u8)] … #[bits([0..=6, 0..=1], r)] x: u9` as `parse_field` returns it -/
def kf1 : FieldDef := {
  name := "x", ranges := [⟨0, 7⟩, ⟨0, 2⟩], unsignedFieldType := none, array := none,
  fieldTypeSize := 9, getter := true, setter := false, fromDataType := some 9, useRegularInt := false,
  primitiveType := .u16, custom := none, docs := 0 }

/-- it satisfies everything `parse_field` checks … -/
theorem kf1_ok : FieldOk (Base.new 8) kf1 := by
  unfold kf1; constructor <;> simp [FieldDef.reach, maxEnd, Base.new, FieldDef.totalBits, ITy.signed]

/-- … but not the width hypothesis … -/
theorem kf1_wide : ¬ kf1.totalBits ≤ (Base.new 8).internal := by decide

/-- … and its getter panics under checks for every raw value (here: 0x7f), as the real code does -/
theorem kf1_witness : ∃ e, getterBody (Base.new 8) kf1 = some e ∧
    ∃ m, eval Ex.noTypes true { raw := .int .u8 0x7f, index := .int .usize 0 } e = .error (.panic m) := by
  exact ⟨_, rfl, "extract: start_bit + BITS <= W", by rfl⟩

end Bb.C16
