import BitbybitModel.Lemmas.BuilderChain
import BitbybitModel.Lemmas.ReadBack
/-!
# C17 — access specifiers decide the API surface: r, w, rw, none

`fd.getter` / `fd.setter` are what `parse_field` records for the access specifier (`r` sets the first, `w` the
second, `rw` both, none neither – `finishedArgument`, cases `read` / `write` / `readWrite`).
-/
namespace Bb.C17
open Bb

/-- the names of the accessor items the macro emits for a field -/
theorem accessor_names (fd : FieldDef) :
    (accessorItems fd).map (·.name) =
      (if fd.getter then [fd.name] else []) ++
      (if fd.setter then ["with_" ++ stripRaw fd.name, "set_" ++ stripRaw fd.name] else []) := by
  unfold accessorItems
  cases fd.getter <;> cases fd.setter <;> simp

/-- `r`: a getter and nothing that can modify the field -/
theorem surface_r (fd : FieldDef) (hg : fd.getter = true) (hs : fd.setter = false) :
    (accessorItems fd).map (·.name) = [fd.name] := by simp [accessor_names, hg, hs]

/-- `w`: `with_` / `set_` and no getter -/
theorem surface_w (fd : FieldDef) (hg : fd.getter = false) (hs : fd.setter = true) :
    (accessorItems fd).map (·.name) = ["with_" ++ stripRaw fd.name, "set_" ++ stripRaw fd.name] := by
  simp [accessor_names, hg, hs]

/-- `rw`: both -/
theorem surface_rw (fd : FieldDef) (hg : fd.getter = true) (hs : fd.setter = true) :
    (accessorItems fd).map (·.name) = [fd.name, "with_" ++ stripRaw fd.name, "set_" ++ stripRaw fd.name] := by
  simp [accessor_names, hg, hs]

/-- no specifier: neither -/
theorem surface_none (fd : FieldDef) (hg : fd.getter = false) (hs : fd.setter = false) :
    accessorItems fd = [] := by simp [accessorItems, hg, hs]

/-- a builder step exists exactly for the writable fields, in declaration order -/
theorem builder_steps_writable (B : Base) (hasDefault : Bool) (fds : List FieldDef) (steps : List BuilderStep) (final : Nat)
    (h : makeBuilder B hasDefault fds = .chain steps final) : steps.map (·.field) = fds.filter (·.setter) := by
  unfold makeBuilder at h
  cases hl : builderLoop fds 0 [] with
  | chain st fin =>
    simp only [hl] at h
    have hf := builderLoop_fields fds 0 [] st fin hl
    split at h
    · cases h
    · cases h; simpa using hf
  | panic => simp [hl] at h
  | none => simp [hl] at h

/-- every item that mutates the register belongs to a writable field: the only emitted mutators are `with_f`,
    `set_f` and the builder step of fields with `setter = true` -/
theorem mutators_are_writable (fd : FieldDef) (it : Item) (h : it ∈ accessorItems fd)
    (hm : it.name = "with_" ++ stripRaw fd.name ∨ it.name = "set_" ++ stripRaw fd.name) (hne : fd.name ≠ it.name) :
    fd.setter = true := by
  unfold accessorItems at h
  cases hs : fd.setter with
  | true => rfl
  | false =>
    cases hg : fd.getter with
    | true => simp [hs, hg] at h; subst h; exact absurd rfl hne
    | false => simp [hs, hg] at h

/-- **read-only bits cannot be changed**: a position covered by no range of the written field (here: any position
    of a field that is not itself writable and not overlapped by a writable one) keeps its bit under every mutator -/
theorem readonly_bits_fixed (W raw v off : Nat) (rs : List Rng) (p : Nat) (hraw : raw < 2 ^ W)
    (hp : rs.any (·.covers off p) = false) : (writeSpec W raw v off rs).testBit p = raw.testBit p :=
  writeSpec_outside W raw v off rs p hraw hp

/-- **write-only bits cannot be read**: what a getter returns depends only on the positions of its own field -/
theorem writeonly_not_read (x y off : Nat) (rs : List Rng)
    (h : ∀ p, rs.any (·.covers off p) = true → x.testBit p = y.testBit p) : gather x off rs 0 = gather y off rs 0 :=
  gather_congr x y off rs 0 h

end Bb.C17
