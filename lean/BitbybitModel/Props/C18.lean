import BitbybitModel.Props.C15
/-!
# C18 — generated code is no_std, free of unsafe, and documentation-clean (partial)

Proved about the model: every `pub` item carries a doc attribute whenever the user documented the fields; every
path the templates emit is rooted at `::core`, `arbitrary_int`, `Self`, or is a `core` prelude name; the
datatypes of generated code cannot express `unsafe`.
Not provable in the model: that rustc accepts the expansion under `#![no_std]` and `#![deny(missing_docs)]`.
That part is compiler-checked: the documented corpus is compiled as such a crate on every run, the dumped token
streams are scanned for `unsafe` and for paths outside `core` / `arbitrary_int`.
-/
namespace Bb.C18
open Bb

/-- a `pub` item is documented, or is a trait method (which needs no doc) -/
def docOrExempt (it : Item) : Bool := it.hasDoc || !it.isPub || it.kind == .traitMethod

theorem accessor_items_doc (fd : FieldDef) (h : fd.docs > 0) : (accessorItems fd).all docOrExempt = true := by
  unfold accessorItems
  cases fd.getter <;> cases fd.setter <;> simp [docOrExempt, h]

/-- **every public item of the expansion is documented when the user documented every field** (the struct's own
    doc comment is passed through verbatim as one of the struct attributes) -/
theorem docs_complete (d : DeclSyn) (fds : List FieldDef) (b : Option (List BuilderStep × Nat))
    (hf : ∀ fd ∈ fds, fd.docs > 0) (hb : ∀ steps final, b = some (steps, final) → ∀ s ∈ steps, s.field.docs > 0) :
    (structItems d fds b).all docOrExempt = true := by
  unfold structItems
  simp only [List.all_append, Bool.and_eq_true]
  refine ⟨⟨⟨⟨⟨⟨⟨?_, ?_⟩, ?_⟩, ?_⟩, ?_⟩, ?_⟩, ?_⟩, ?_⟩
  · simp [docOrExempt]
  · split <;> simp [docOrExempt]
  · simp [docOrExempt]
  · split <;> simp [docOrExempt]
  · apply C15.flatten_all
    intro l hl
    simp only [List.mem_map] at hl
    obtain ⟨fd, hfd, rfl⟩ := hl
    exact accessor_items_doc fd (hf fd hfd)
  · split <;> simp [docOrExempt]
  · split <;> simp [docOrExempt]
  · cases b with
    | none => rfl
    | some sf =>
      obtain ⟨steps, final⟩ := sf
      have := hb steps final rfl
      simp only [List.all_append, List.all_cons, List.all_nil, Bool.and_true, Bool.and_eq_true, List.all_map, List.all_eq_true]
      refine ⟨⟨by simp [docOrExempt], ?_⟩, by simp [docOrExempt]⟩
      intro s hs
      simp [docOrExempt, this s hs]

/-- the roots a generated path may have: `::core`, `arbitrary_int`, `Self`, and the prelude name `Default` -/
def allowedRoot (p : List String) : Bool :=
  match p with
  | "" :: "core" :: _ => true
  | "arbitrary_int" :: _ => true
  | "Self" :: _ => true
  | ["Default"] => true
  | _ => false

/-- **every path of the model program refers to `core`, `arbitrary_int` or the type itself** -/
theorem paths_core_only (p : Program) : (programPaths p).all allowedRoot = true := by
  unfold programPaths
  simp only [List.all_append, Bool.and_eq_true]
  refine ⟨⟨⟨⟨by simp [allowedRoot], ?_⟩, ?_⟩, ?_⟩, ?_⟩
  · split <;> simp [allowedRoot]
  · simp [List.all_map, allowedRoot]
  · split <;> simp [allowedRoot]
  · split <;> simp [allowedRoot]

/-- **no `unsafe`**: a generated body is an `Expr`, and `Expr` has no constructor for an unsafe block, a raw-pointer
    operation or a call to an `unsafe fn` – every constructor is one of the thirteen safe forms below -/
theorem no_unsafe_expressible (e : Expr) :
    (∃ t n, e = .lit t n) ∨ (∃ v, e = .var v) ∨ (∃ op a b, e = .bin op a b) ∨ (∃ a, e = .not a) ∨
    (∃ a t, e = .cast a t) ∨ (∃ c a b, e = .ite c a b) ∨ (∃ v a b, e = .letE v a b) ∨ (∃ c b, e = .assertE c b) ∨
    (∃ W n a s, e = .extract W n a s) ∨ (∃ n a, e = .uintNew n a) ∨ (∃ a, e = .uintValue a) ∨
    (∃ t a, e = .customNew t a) ∨ (∃ a, e = .customRaw a) := by
  cases e <;> simp

end Bb.C18
