import BitbybitModel.Lemmas.GetterBody
import BitbybitModel.Spec.Debug
/-!
# C19 — the `debug` option prints every field by name from the getters, in order

`core::fmt::DebugStruct` is modelled by `DVal.render` (`{:?}` and `{:#?}`); the model of the formatter is
validated against the real one by the differential on every run.
-/
namespace Bb.C19
open Bb

/-- with `debug`, the impl lists every field of the declaration, by name, in declaration order -/
theorem debug_fields (p : Program) (h : p.debug = true) :
    debugImpl p = some (p.name, p.fields.map (·.name)) := by simp [debugImpl, h]

/-- without the option there is no `Debug` impl -/
theorem no_debug (p : Program) (h : p.debug = false) : debugImpl p = none := by simp [debugImpl, h]

/-- a declaration with `debug` is only accepted when every field has a getter and none is an array
    (otherwise `.field(stringify!(f), &self.f())` does not type-check) -/
theorem debug_requires_getters (resolve : List String → Nat) (types : Nat → Option CustomInfo) (d : DeclSyn) (p : Program)
    (h : expand resolve types d = .ok p) (hd : d.debug = true) :
    p.debug = true ∧ ∀ fd ∈ p.fields, fd.getter = true ∧ fd.array = none := by
  unfold expand at h
  simp only [bind, Except.bind, pure, Except.pure] at h
  (repeat' split at h) <;> (try (simp at h)) <;> (try (cases h))
  all_goals
    (refine ⟨hd, fun fd hfd => ?_⟩
     simp only at hfd
     have hh : ¬(d.debug = true ∧ _) := ‹¬(d.debug = true ∧ _)›
     simp only [hd, true_and, List.any_eq_true, not_exists, not_and, Bool.or_eq_true, Bool.not_eq_true'] at hh
     have := hh fd hfd
     cases hg : fd.getter <;> cases ha : fd.array <;> simp_all)

/-- the rendered text: `Name { f0: <v0>, f1: <v1>, … }` in the standard struct format, where `vᵢ` is the `Debug`
    rendering of getter `i`'s value – a function of the raw value alone, since every getter is (C01/C04) -/
def debugText (alt : Bool) (name : String) (fields : List (String × DVal)) : String :=
  (DVal.struct name fields).render alt 0

theorem debug_text_compact (name : String) (f : String) (v : DVal) :
    debugText false name [(f, v)] = name ++ " { " ++ f ++ ": " ++ v.render false 0 ++ " }" := by
  simp [debugText, DVal.render, renderFields, String.append_assoc]

theorem debug_text_empty (alt : Bool) (name : String) : debugText alt name [] = name := by
  cases alt <;> simp [debugText, DVal.render]

/-- the text is determined by the register: equal registers give equal field values, hence equal text -/
theorem debug_function_of_raw (Γ : CustomEnv) (chk : Bool) (B : Base) (fd : FieldDef) (raw : Nat)
    (hB : B.WF) (hok : FieldOk B fd) (hwide : fd.totalBits ≤ B.internal) (hs : fd.array = none) :
    ∃ e, getterBody B fd = some e ∧
      eval Γ chk { raw := .int B.W raw, index := .int .usize 0 } e = getterResult Γ fd (gather raw 0 fd.ranges 0) := by
  obtain ⟨e, he, hev⟩ := eval_getterBody Γ chk B fd raw 0 hB hok hwide (by simp [hs])
  exact ⟨e, he, by simpa [FieldDef.stride, hs, offOf] using hev⟩

end Bb.C19
