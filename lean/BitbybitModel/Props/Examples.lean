import BitbybitModel.Lemmas.SetterBody
/-! # Concrete layouts used as non-vacuity witnesses by the property files -/
namespace Bb.Ex
open Bb

theorem wf32 : (Base.new 32).WF := ⟨by decide, by decide, rfl⟩
theorem wf127 : (Base.new 127).WF := ⟨by decide, by decide, rfl⟩
theorem wf64 : (Base.new 64).WF := ⟨by decide, by decide, rfl⟩
theorem wf24 : (Base.new 24).WF := ⟨by decide, by decide, rfl⟩

/-- `#[bitfield(u127)]` … `#[bit(126, rw)] top: bool` -/
def top : FieldDef := {
  name := "top", ranges := [⟨126, 1⟩], unsignedFieldType := none, array := none,
  fieldTypeSize := 0, getter := true, setter := true, fromDataType := some 0, useRegularInt := true,
  primitiveType := .u8, custom := none, docs := 0 }
theorem top_ok : FieldOk (Base.new 127) top := by
  unfold top; constructor <;> simp [FieldDef.reach, maxEnd, Base.new, FieldDef.totalBits, ITy.signed]

/-- `#[bitfield(u32)]` … `#[bits(0..=31, rw)] all: u32` (full width) -/
def all : FieldDef := {
  name := "all", ranges := [⟨0, 32⟩], unsignedFieldType := none, array := none,
  fieldTypeSize := 32, getter := true, setter := true, fromDataType := some 32, useRegularInt := true,
  primitiveType := .u32, custom := none, docs := 0 }
theorem all_ok : FieldOk (Base.new 32) all := by
  unfold all; constructor <;> simp [FieldDef.reach, maxEnd, Base.new, FieldDef.totalBits, ITy.signed, ITy.bits]

/-- RISC-V SB-type immediate `#[bits([8..=11, 25..=30, 7, 31], rw)] imm: u12` over `u32` -/
def imm : FieldDef := {
  name := "imm", ranges := [⟨8, 4⟩, ⟨25, 6⟩, ⟨7, 1⟩, ⟨31, 1⟩], unsignedFieldType := none, array := none,
  fieldTypeSize := 12, getter := true, setter := true, fromDataType := some 12, useRegularInt := false,
  primitiveType := .u16, custom := none, docs := 0 }
theorem imm_ok : FieldOk (Base.new 32) imm := by
  unfold imm; constructor <;> simp [FieldDef.reach, maxEnd, Base.new, FieldDef.totalBits, ITy.signed]
theorem imm_disjoint : pairwiseDisjoint imm.ranges = true := by decide

/-- `#[bits(1..=4, rw, stride = 5)] arr: [u4; 3]` over `u24` (gaps between the elements) -/
def arr : FieldDef := {
  name := "arr", ranges := [⟨1, 4⟩], unsignedFieldType := none, array := some (3, 5),
  fieldTypeSize := 4, getter := true, setter := true, fromDataType := some 4, useRegularInt := false,
  primitiveType := .u8, custom := none, docs := 0 }
theorem arr_ok : FieldOk (Base.new 24) arr := by
  unfold arr; constructor <;> simp [FieldDef.reach, maxEnd, Base.new, FieldDef.totalBits, ITy.signed]

/-- `#[bits(48..=63, rw)] s: i16` at the top of a `u64` -/
def sgn : FieldDef := {
  name := "s", ranges := [⟨48, 16⟩], unsignedFieldType := some .u16, array := none,
  fieldTypeSize := 16, getter := true, setter := true, fromDataType := some 16, useRegularInt := true,
  primitiveType := .i16, custom := none, docs := 0 }
theorem sgn_ok : FieldOk (Base.new 64) sgn := by
  unfold sgn; constructor <;> simp [FieldDef.reach, maxEnd, Base.new, FieldDef.totalBits, ITy.signed, ITy.bits, ITy.toUnsigned]

/-- `#[bits(5..=7, rw)] e: Option<E>` with a 3-bit enum, over `u32` -/
def enm : FieldDef := {
  name := "e", ranges := [⟨5, 3⟩], unsignedFieldType := none, array := none,
  fieldTypeSize := 3, getter := true, setter := true, fromDataType := none, useRegularInt := false,
  primitiveType := .u8, custom := some ⟨0, true⟩, docs := 0 }
theorem enm_ok : FieldOk (Base.new 32) enm := by
  unfold enm; constructor <;> simp [FieldDef.reach, maxEnd, Base.new, FieldDef.totalBits, ITy.signed]

/-- a custom environment that knows nothing -/
def noTypes : CustomEnv := ⟨fun _ _ => .error (.stuck "no custom types"), fun _ => .error (.stuck "no custom types")⟩

end Bb.Ex
