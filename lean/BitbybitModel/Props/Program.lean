import BitbybitModel.Props.C06
import BitbybitModel.Props.C09
import BitbybitModel.Props.C12
import BitbybitModel.Props.C13
import BitbybitModel.Props.C14
import BitbybitModel.Props.C16
/-!
# Declaration-level statements: from "the macro accepted these tokens" to "every accessor obeys the register spec"

The accessor theorems of C01–C05, C08, C11–C13 and C16 speak about a field definition `fd` that satisfies
`FieldOk`.  `C09.expand_fields_ok` shows that every field of every *accepted* declaration satisfies it.  The
theorems below put the two together, so that the only hypotheses left are the ones a user can see:

* the declaration was accepted (`expand … = .ok p`),
* the field is one of its fields, the index is in range, the argument has the field's type,
* the field's own range list names no bit twice (the restriction of C04 / known finding KF1; it holds for every
  scalar, array and contiguous field automatically, see `single_disjoint`).

Nothing here is a new proof technique: it closes the gap between the parser theorems and the evaluator theorems,
so that no property silently relies on a well-formedness predicate nothing satisfies.
-/
namespace Bb.Prog
open Bb

/-- every accepted field whose list names no bit twice fits the storage -/
theorem accepted_wide (resolve : List String → Nat) (types : Nat → Option CustomInfo) (d : DeclSyn) (p : Program)
    (h : expand resolve types d = .ok p) (fd : FieldDef) (hfd : fd ∈ p.fields)
    (hd : pairwiseDisjoint fd.ranges = true) : fd.totalBits ≤ p.base.internal :=
  let ⟨hB, hall⟩ := C09.expand_fields_ok resolve types d p h
  C16.wide_of_disjoint p.base fd hB (hall fd hfd) hd

/-- **getter, declaration level** (C01, C03, C04, C05, C08, C16): for every accepted declaration, every field, every
    register value, every in-range index and either build profile, the generated getter body exists and evaluates to
    the presentation of the gathered bits. -/
theorem accepted_getter (resolve : List String → Nat) (types : Nat → Option CustomInfo) (d : DeclSyn) (p : Program)
    (h : expand resolve types d = .ok p) (fd : FieldDef) (hfd : fd ∈ p.fields)
    (hd : pairwiseDisjoint fd.ranges = true)
    (Γ : CustomEnv) (chk : Bool) (raw i : Nat) (hi : ∀ c s, fd.array = some (c, s) → i < c) :
    ∃ e, getterBody p.base fd = some e ∧
      eval Γ chk { raw := .int p.base.W raw, index := .int .usize i } e
        = getterResult Γ fd (gather raw (offOf i fd.stride) fd.ranges 0) := by
  obtain ⟨hB, hall⟩ := C09.expand_fields_ok resolve types d p h
  exact eval_getterBody Γ chk p.base fd raw i hB (hall fd hfd)
    (C16.wide_of_disjoint p.base fd hB (hall fd hfd) hd) hi

/-- **`with_` / `set_`, declaration level** (C02–C05, C11, C16): the new register value fits the storage (and the exposed
    width, when the old one did) and is the reference write. -/
theorem accepted_setter (resolve : List String → Nat) (types : Nat → Option CustomInfo) (d : DeclSyn) (p : Program)
    (h : expand resolve types d = .ok p) (fd : FieldDef) (hfd : fd ∈ p.fields)
    (hd : pairwiseDisjoint fd.ranges = true)
    (Γ : CustomEnv) (chk : Bool) (raw i : Nat) (fv : Val) (v : Nat) (hraw : raw < 2 ^ p.base.internal)
    (hi : ∀ c s, fd.array = some (c, s) → i < c) (harg : ArgOk Γ fd fv v) :
    ∃ e, setterBody p.base fd = some e ∧
      eval Γ chk { raw := .int p.base.W raw, index := .int .usize i, fieldValue := fv } e
        = .ok (.int p.base.W (writeSpec p.base.internal raw v (offOf i fd.stride) fd.ranges)) ∧
      writeSpec p.base.internal raw v (offOf i fd.stride) fd.ranges < 2 ^ p.base.internal ∧
      (raw < 2 ^ p.base.exposed → writeSpec p.base.internal raw v (offOf i fd.stride) fd.ranges < 2 ^ p.base.exposed) := by
  obtain ⟨hB, hall⟩ := C09.expand_fields_ok resolve types d p h
  obtain ⟨e, he, x, hev, hx, hsp, hex, _⟩ := eval_setterBody Γ chk p.base fd raw i fv v hB (hall fd hfd)
    (C16.wide_of_disjoint p.base fd hB (hall fd hfd) hd) hraw hi harg
  have hxs := hsp hd
  subst hxs
  exact ⟨e, he, hev, hx, hex⟩

/-- an out-of-range index panics in both profiles, in the getter and in the setter, for every accepted array field -/
theorem accepted_oob (resolve : List String → Nat) (types : Nat → Option CustomInfo) (d : DeclSyn) (p : Program)
    (h : expand resolve types d = .ok p) (fd : FieldDef) (hfd : fd ∈ p.fields)
    (hd : pairwiseDisjoint fd.ranges = true)
    (Γ : CustomEnv) (chk : Bool) (raw i c s : Nat) (ha : fd.array = some (c, s)) (hi : c ≤ i) :
    ∃ e, getterBody p.base fd = some e ∧
      eval Γ chk { raw := .int p.base.W raw, index := .int .usize i } e = .error (.panic "assertion failed") := by
  obtain ⟨hB, hall⟩ := C09.expand_fields_ok resolve types d p h
  exact eval_getterBody_oob Γ chk p.base fd raw i c s hB (hall fd hfd)
    (C16.wide_of_disjoint p.base fd hB (hall fd hfd) hd) ha hi

/-- a step of a history against an accepted declaration -/
structure LegalStep (p : Program) (Γ : CustomEnv) (st : Step) : Prop where
  field : st.fd ∈ p.fields
  index : ∀ c s, st.fd.array = some (c, s) → st.i < c
  arg : ArgOk Γ st.fd st.fv st.v
  disjoint : pairwiseDisjoint st.fd.ranges = true

theorem LegalStep.ok {resolve : List String → Nat} {types : Nat → Option CustomInfo} {d : DeclSyn} {p : Program}
    (h : expand resolve types d = .ok p) {Γ : CustomEnv} {st : Step} (hs : LegalStep p Γ st) : st.Ok Γ p.base :=
  let ⟨hB, hall⟩ := C09.expand_fields_ok resolve types d p h
  ⟨hall st.fd hs.field, C16.wide_of_disjoint p.base st.fd hB (hall st.fd hs.field) hs.disjoint, hs.index, hs.arg, hs.disjoint⟩

/-- **histories, declaration level** (C12, C11, C16): any sequence of writes through the accessors of an accepted
    declaration runs to completion in both profiles, and bit `k` of the final register is the bit the last covering
    write supplied (the initial bit if none did); nothing above the storage width is ever set. -/
theorem accepted_history (resolve : List String → Nat) (types : Nat → Option CustomInfo) (d : DeclSyn) (p : Program)
    (h : expand resolve types d = .ok p) (Γ : CustomEnv) (chk : Bool) (steps : List Step) (init : Nat)
    (hinit : init < 2 ^ p.base.internal) (hsteps : ∀ st ∈ steps, LegalStep p Γ st) :
    ∃ t, Runs Γ chk p.base init steps t ∧
      (∀ t', Runs Γ chk p.base init steps t' → t' = t) ∧
      ∀ k, t.testBit k = (decide (k < p.base.internal) && lastWrite init (steps.map Step.toOp) k) := by
  obtain ⟨hB, _⟩ := C09.expand_fields_ok resolve types d p h
  have hok : ∀ st ∈ steps, st.Ok Γ p.base := fun st hst => (hsteps st hst).ok h
  refine ⟨_, runs_exists Γ chk p.base hB steps init hinit hok, ?_, ?_⟩
  · intro t' ht'
    exact runs_unique Γ chk p.base hB steps init t' hinit hok ht'
  · intro k
    exact testBit_applyWrites p.base.internal _ init k hinit

/-- **read-back after a history, declaration level** (C02–C05, C08, C12): after any sequence of writes through the accessors
    of an accepted declaration, the getter of the field written last returns the value written – in both profiles, whatever
    the earlier writes (to this field, to overlapping fields, to other elements) left behind. -/
theorem accepted_history_readback (resolve : List String → Nat) (types : Nat → Option CustomInfo) (d : DeclSyn) (p : Program)
    (h : expand resolve types d = .ok p) (Γ : CustomEnv) (chk : Bool) (steps : List Step) (last : Step) (init : Nat)
    (hinit : init < 2 ^ p.base.internal) (hsteps : ∀ st ∈ steps ++ [last], LegalStep p Γ st) :
    ∃ t, Runs Γ chk p.base init (steps ++ [last]) t ∧
      ∃ e, getterBody p.base last.fd = some e ∧
        eval Γ chk { raw := .int p.base.W t, index := .int .usize last.i } e = getterResult Γ last.fd last.v := by
  obtain ⟨hB, _⟩ := C09.expand_fields_ok resolve types d p h
  have hok : ∀ st ∈ steps ++ [last], st.Ok Γ p.base := fun st hst => (hsteps st hst).ok h
  have hrun := runs_exists Γ chk p.base hB (steps ++ [last]) init hinit hok
  exact ⟨_, hrun, C12.readback_after_history Γ chk p.base hB steps last init _ hinit hok hrun⟩

/-- the final register of a history does not depend on the build profile -/
theorem accepted_history_profile_independent (resolve : List String → Nat) (types : Nat → Option CustomInfo) (d : DeclSyn)
    (p : Program) (h : expand resolve types d = .ok p) (Γ : CustomEnv) (steps : List Step) (init t₁ t₂ : Nat)
    (hinit : init < 2 ^ p.base.internal) (hsteps : ∀ st ∈ steps, LegalStep p Γ st)
    (h₁ : Runs Γ true p.base init steps t₁) (h₂ : Runs Γ false p.base init steps t₂) : t₁ = t₂ := by
  obtain ⟨hB, _⟩ := C09.expand_fields_ok resolve types d p h
  have hok : ∀ st ∈ steps, st.Ok Γ p.base := fun st hst => (hsteps st hst).ok h
  rw [runs_unique Γ true p.base hB steps init t₁ hinit hok h₁, runs_unique Γ false p.base hB steps init t₂ hinit hok h₂]

/-- **order-independence, declaration level** (C12): two sequences of writes through the accessors of an accepted declaration
    that are permutations of each other, the writes pairwise touching no common position, both run to completion and end in
    the same register – in either profile, and also when the two sequences are run under different profiles. -/
theorem accepted_history_order_independent (resolve : List String → Nat) (types : Nat → Option CustomInfo) (d : DeclSyn)
    (p : Program) (h : expand resolve types d = .ok p) (Γ : CustomEnv) (chk chk' : Bool) (steps steps' : List Step) (init : Nat)
    (hinit : init < 2 ^ p.base.internal) (hsteps : ∀ st ∈ steps, LegalStep p Γ st) (hp : steps.Perm steps')
    (hdis : (steps.map Step.toOp).Pairwise C12.Apart) :
    ∃ t, Runs Γ chk p.base init steps t ∧ Runs Γ chk' p.base init steps' t := by
  obtain ⟨hB, _⟩ := C09.expand_fields_ok resolve types d p h
  have hok : ∀ st ∈ steps, st.Ok Γ p.base := fun st hst => (hsteps st hst).ok h
  have hok' : ∀ st ∈ steps', st.Ok Γ p.base := fun st hst => hok st (hp.mem_iff.mpr hst)
  refine ⟨_, runs_exists Γ chk p.base hB steps init hinit hok, ?_⟩
  rw [C12.disjoint_perm p.base.internal init _ _ hinit (hp.map Step.toOp) hdis]
  exact runs_exists Γ chk' p.base hB steps' init hinit hok'

/-! ## the builder -/

/-- what an accepted expansion records, read off the definition of `expand` -/
theorem expand_inv (resolve : List String → Nat) (types : Nat → Option CustomInfo) (d : DeclSyn) (p : Program)
    (h : expand resolve types d = .ok p) :
    baseOf d.baseIdent = some p.base ∧ parseFields resolve p.base d.fields = .ok p.fields ∧
    p.default = d.default.map DefaultSyn.val ∧
    (∀ v, p.default = some v → v < 2 ^ p.base.exposed) ∧
    (match p.builder with
     | some (steps, final) => makeBuilder p.base d.default.isSome p.fields = .chain steps final
     | none => makeBuilder p.base d.default.isSome p.fields = .none) ∧
    p.items = structItems d p.fields p.builder ∧ p.debug = d.debug ∧ p.name = d.name := by
  unfold expand at h
  simp only [bind, Except.bind] at h
  cases hb : baseOf d.baseIdent with
  | none => simp [hb] at h
  | some B =>
    simp only [hb] at h
    split at h
    · cases h
    · cases hfs : parseFields resolve B d.fields with
      | error e => simp [hfs] at h
      | ok fds =>
        simp only [hfs] at h
        split at h
        · cases h
        · split at h
          · cases h
          · split at h
            · cases h
            · split at h
              · cases h
              · rename_i hdef
                have hdefault : ∀ v, d.default.map DefaultSyn.val = some v → v < 2 ^ B.exposed := by
                  intro v hv
                  rw [hv] at hdef
                  simpa [defaultTooLarge] using hdef
                split at h
                · cases h
                · rename_i hmb
                  cases h
                  exact ⟨rfl, hfs, rfl, hdefault, hmb, rfl, rfl, rfl⟩
                · rename_i steps final hmb
                  cases h
                  exact ⟨rfl, hfs, rfl, hdefault, hmb, rfl, rfl, rfl⟩

theorem pairwiseDisjoint_append_left {a b : List Rng} (h : pairwiseDisjoint (a ++ b) = true) : pairwiseDisjoint a = true := by
  induction a with
  | nil => rfl
  | cons r a ih =>
    simp only [List.cons_append, pairwiseDisjoint, Bool.and_eq_true, List.all_append] at h ⊢
    exact ⟨h.1.1, ih h.2⟩

theorem pairwiseDisjoint_shifted (off : Nat) : ∀ rs : List Rng, pairwiseDisjoint (rs.map (·.shifted off)) = pairwiseDisjoint rs := by
  intro rs
  induction rs with
  | nil => rfl
  | cons r rs ih =>
    simp only [List.map_cons, pairwiseDisjoint, ih, List.all_map]
    congr 1
    apply List.all_congr rfl
    intro q
    simp only [Function.comp, Rng.disj, Rng.shifted]
    rw [Bool.eq_iff_iff]
    simp only [Bool.or_eq_true, decide_eq_true_eq, Nat.add_right_comm _ off, Nat.add_le_add_iff_right]

/-- a field whose pieces (over all elements) are pairwise disjoint has a pairwise disjoint range list -/
theorem ranges_disjoint_of_pieces {B : Base} {fd : FieldDef} (hok : FieldOk B fd) (h : pairwiseDisjoint (fieldPieces fd) = true) :
    pairwiseDisjoint fd.ranges = true := by
  unfold fieldPieces at h
  cases ha : fd.array with
  | none => simpa [ha] using h
  | some cs =>
    obtain ⟨c, s⟩ := cs
    have hc := hok.count_ge c s ha
    simp only [ha] at h
    obtain ⟨n, rfl⟩ : ∃ n, c = n + 1 := ⟨c - 1, by omega⟩
    simp only [piecesFrom, elemPieces] at h
    have := pairwiseDisjoint_append_left h
    rwa [pairwiseDisjoint_shifted] at this

theorem pieces_disjoint_of_writable : ∀ (fds : List FieldDef) (fd : FieldDef), fd ∈ fds → fd.setter = true →
    pairwiseDisjoint (writablePieces fds) = true → pairwiseDisjoint (fieldPieces fd) = true := by
  intro fds
  induction fds with
  | nil => intro fd h; cases h
  | cons g fds ih =>
    intro fd hfd hs hd
    simp only [writablePieces] at hd
    rcases List.mem_cons.mp hfd with rfl | hin
    · simp only [hs, if_true] at hd
      exact pairwiseDisjoint_append_left hd
    · exact ih fd hin hs (pairwiseDisjoint_append_right hd)

/-- the argument of one builder step has the step's shape and type -/
def ArgFor (Γ : CustomEnv) (s : BuilderStep) : BuilderArg → Prop
  | .scalar fv v => s.field.array = none ∧ ArgOk Γ s.field fv v
  | .array elems => ∃ c st, s.field.array = some (c, st) ∧ elems.length = c ∧ ∀ e ∈ elems, ArgOk Γ s.field e.1 e.2

/-- one well-typed argument per step -/
def ArgsFor (Γ : CustomEnv) : List BuilderStep → List BuilderArg → Prop
  | [], [] => True
  | s :: ss, a :: as => ArgFor Γ s a ∧ ArgsFor Γ ss as
  | _, _ => False

theorem stepCalls_ok (Γ : CustomEnv) (s : BuilderStep) (a : BuilderArg) (h : ArgFor Γ s a) :
    ∀ st ∈ C13.stepCalls s a, st.fd = s.field ∧ (∀ c k, st.fd.array = some (c, k) → st.i < c) ∧ ArgOk Γ st.fd st.fv st.v := by
  intro st hst
  cases a with
  | scalar fv v =>
    obtain ⟨ha, harg⟩ := h
    simp only [C13.stepCalls, ha, List.mem_singleton] at hst
    subst hst
    exact ⟨rfl, by intro c k h'; simp [ha] at h', harg⟩
  | array elems =>
    obtain ⟨c, k, ha, hlen, harg⟩ := h
    simp only [C13.stepCalls, ha, List.mem_map] at hst
    obtain ⟨e, he, rfl⟩ := hst
    obtain ⟨e1, e2⟩ := e
    have hm := List.mem_zipIdx he
    refine ⟨rfl, ?_, ?_⟩
    · intro c' k' h'
      simp only [ha, Option.some.injEq, Prod.mk.injEq] at h'
      obtain ⟨rfl, rfl⟩ := h'
      simp only
      omega
    · simp only
      have : e1 ∈ elems := by
        have := hm.2.2
        simp only [Nat.sub_zero] at this
        rw [this]; exact List.getElem_mem _
      exact harg e1 this

theorem chainCalls_ok (Γ : CustomEnv) : ∀ (steps : List BuilderStep) (args : List BuilderArg), ArgsFor Γ steps args →
    ∀ st ∈ C13.chainCalls steps args, st.fd ∈ steps.map (·.field) ∧ (∀ c k, st.fd.array = some (c, k) → st.i < c) ∧ ArgOk Γ st.fd st.fv st.v := by
  intro steps
  induction steps with
  | nil => intro args _ st hst; cases args <;> simp [C13.chainCalls] at hst
  | cons s ss ih =>
    intro args h st hst
    cases args with
    | nil => simp [C13.chainCalls] at hst
    | cons a as =>
      obtain ⟨h1, h2⟩ := h
      simp only [C13.chainCalls, List.mem_append] at hst
      rcases hst with hst | hst
      · obtain ⟨e1, e2, e3⟩ := stepCalls_ok Γ s a h1 st hst
        exact ⟨by simp [e1], e2, e3⟩
      · obtain ⟨e1, e2, e3⟩ := ih as h2 st hst
        exact ⟨by simp only [List.map_cons, List.mem_cons]; exact Or.inr e1, e2, e3⟩

/-- **builder, declaration level** (C13, C14): when an accepted declaration offers a builder, its steps are the
    writable fields in declaration order; for every well-typed argument tuple the chain `builder().with_…().build()`
    runs to completion in both profiles from `DEFAULT` (zero without a default), and every bit of the result is the bit
    the (last, in fact only) covering write supplied, or the start value's bit where no writable field covers it. -/
theorem accepted_builder (resolve : List String → Nat) (types : Nat → Option CustomInfo) (d : DeclSyn) (p : Program)
    (h : expand resolve types d = .ok p) (steps : List BuilderStep) (final : Nat) (hb : p.builder = some (steps, final))
    (Γ : CustomEnv) (chk : Bool) (args : List BuilderArg) (hargs : ArgsFor Γ steps args) :
    steps.map (·.field) = p.fields.filter (·.setter) ∧
    C13.builderInit p < 2 ^ p.base.exposed ∧
    ∃ t, Runs Γ chk p.base (C13.builderInit p) (C13.chainCalls steps args) t ∧
      (∀ t', Runs Γ chk p.base (C13.builderInit p) (C13.chainCalls steps args) t' → t' = t) ∧
      ∀ k, t.testBit k = (decide (k < p.base.internal) &&
        lastWrite (C13.builderInit p) ((C13.chainCalls steps args).map Step.toOp) k) := by
  obtain ⟨hB, hall⟩ := C09.expand_fields_ok resolve types d p h
  obtain ⟨_, _, _, hdef, hmb, _⟩ := expand_inv resolve types d p h
  rw [hb] at hmb
  simp only at hmb
  have hfields := (C14.typestate_linear p.base d.default.isSome p.fields steps final hmb).2.1
  have hdisj := ((C14.builder_offered_iff hB d.default.isSome p.fields hall).mp ⟨steps, final, hmb⟩).1
  have hinit : C13.builderInit p < 2 ^ p.base.exposed := by
    unfold C13.builderInit
    cases hd : p.default with
    | none => simp [Nat.two_pow_pos]
    | some v => simpa using hdef v hd
  have hinit' : C13.builderInit p < 2 ^ p.base.internal :=
    Nat.lt_of_lt_of_le hinit (Nat.pow_le_pow_right (by omega) hB.exposed_le)
  have hsteps : ∀ st ∈ C13.chainCalls steps args, LegalStep p Γ st := by
    intro st hst
    obtain ⟨e1, e2, e3⟩ := chainCalls_ok Γ steps args hargs st hst
    rw [hfields, List.mem_filter] at e1
    have hpd := pieces_disjoint_of_writable p.fields st.fd e1.1 (by simpa using e1.2) hdisj
    exact ⟨e1.1, e2, e3, ranges_disjoint_of_pieces (hall st.fd e1.1) hpd⟩
  exact ⟨hfields, hinit, accepted_history resolve types d p h Γ chk _ _ hinit' hsteps⟩


/-! ## the attribute's argument list -/

/-- **default, declaration level** (C06): when the whole attribute macro (`expandDecl`: argument list, then `expand`)
    accepts a declaration whose argument list declares a default, the program's default is that value, it fits the base
    type, and `DEFAULT_RAW_VALUE` evaluates to it in both profiles – every bit, covered by a field or not. -/
theorem accepted_default (resolve : List String → Nat) (types : Nat → Option CustomInfo) (cv : String → Option Nat)
    (d : DeclTokens) (p : Program) (h : expandDecl resolve types cv d = .ok p)
    (b : String) (dflt : DefaultSyn) (dbg : Bool) (ha : parseBitfieldArgs cv d.args = .ok (b, some dflt, dbg)) :
    p.default = some dflt.val ∧ dflt.val < 2 ^ p.base.exposed ∧ p.debug = dbg ∧
    ∀ (Γ : CustomEnv) (chk : Bool) (ρ : Env), eval Γ chk ρ (defaultRawValue p.base dflt.val) = .ok (C06.baseVal p.base dflt.val) := by
  unfold expandDecl at h
  rw [ha] at h
  simp only at h
  obtain ⟨hB, _⟩ := C09.expand_fields_ok resolve types _ p h
  obtain ⟨_, _, hdef, hlt, _, _, hdbg, _⟩ := expand_inv resolve types _ p h
  simp only [Option.map_some] at hdef
  have hv := hlt dflt.val hdef
  exact ⟨hdef, hv, hdbg, fun Γ chk ρ => C06.default_raw Γ chk ρ p.base dflt.val hB hv⟩

/-- without a declared default there is none: no `DEFAULT`, no `Default` impl (C06, C17) -/
theorem accepted_no_default (resolve : List String → Nat) (types : Nat → Option CustomInfo) (cv : String → Option Nat)
    (d : DeclTokens) (p : Program) (h : expandDecl resolve types cv d = .ok p)
    (b : String) (dbg : Bool) (ha : parseBitfieldArgs cv d.args = .ok (b, none, dbg)) : p.default = none := by
  unfold expandDecl at h
  rw [ha] at h
  simp only at h
  obtain ⟨_, _, hdef, _⟩ := expand_inv resolve types _ p h
  simpa using hdef

/-! non-vacuity: a concrete declaration (`#[bitfield(u32)] struct T { #[bits(0..=7, rw)] lo: u8, #[bits([8..=11, 20..=27], rw)] imm: u12 }`),
    given as the token trees the macro receives, is accepted, and the theorems apply to its second field -/
def exDecl : DeclSyn := { name := "T", baseIdent := "u32", fields := [
  { name := "lo", ty := { segs := ["u8"] }, attrs := [{ name := "bits", toks := [.lit (some 0), .punct '.', .punct '.', .punct '=', .lit (some 7), .punct ',', .ident "rw"] }] },
  { name := "imm", ty := { segs := ["u12"] }, attrs := [{ name := "bits", toks := [.group '[' [.lit (some 8), .punct '.', .punct '.', .punct '=', .lit (some 11), .punct ',', .lit (some 20), .punct '.', .punct '.', .punct '=', .lit (some 27)], .punct ',', .ident "rw"] }] }] }
def exImm : FieldDef := { name := "imm", ranges := [⟨8, 4⟩, ⟨20, 8⟩], unsignedFieldType := none, array := none, fieldTypeSize := 12,
                          getter := true, setter := true, fromDataType := some 12, useRegularInt := false, primitiveType := .u16, custom := none, docs := 0 }
def exProg : Program := match expand (fun _ => 0) (fun _ => none) exDecl with | .ok p => p | .error _ => default
set_option maxRecDepth 100000 in
theorem ex_accepted : expand (fun _ => 0) (fun _ => none) exDecl = .ok exProg := by rfl
def exLo : FieldDef := { name := "lo", ranges := [⟨0, 8⟩], unsignedFieldType := none, array := none, fieldTypeSize := 8,
                         getter := true, setter := true, fromDataType := some 8, useRegularInt := true, primitiveType := .u8, custom := none, docs := 0 }
set_option maxRecDepth 100000 in
theorem ex_fields : exProg.fields = [exLo, exImm] := by rfl
set_option maxRecDepth 100000 in
theorem ex_base : exProg.base = Base.new 32 := by rfl
theorem ex_field : exImm ∈ exProg.fields := by rw [ex_fields]; simp
theorem ex_disjoint : pairwiseDisjoint exImm.ranges = true := by rfl
example := accepted_getter _ _ exDecl exProg ex_accepted exImm ex_field ex_disjoint Ex.noTypes true 0xDEADBEEF 0 (by intro c s h; simp [exImm] at h)
example := accepted_history _ _ exDecl exProg ex_accepted Ex.noTypes false
  [{ fd := exImm, i := 0, fv := .uint 12 0xABC, v := 0xABC }, { fd := exImm, i := 0, fv := .uint 12 0x123, v := 0x123 }] 0xFFFFFFFF (by rw [ex_base]; decide)
  (by intro st hst; simp at hst; rcases hst with rfl | rfl <;>
      exact ⟨ex_field, (by intro c s h; cases h), (by simp [ArgOk, exImm, FieldDef.totalBits]), ex_disjoint⟩)

/-! the same declaration with `default = 0xFF00_0000` offers a builder (bits 12..19 and 28..31 stay at the default) -/
def exDecl2 : DeclSyn := { exDecl with default := some (.lit 0xFF000000) }
def exProg2 : Program := match expand (fun _ => 0) (fun _ => none) exDecl2 with | .ok p => p | .error _ => default
set_option maxRecDepth 100000 in
theorem ex2_accepted : expand (fun _ => 0) (fun _ => none) exDecl2 = .ok exProg2 := by rfl
def exSteps : List BuilderStep := match exProg2.builder with | some (s, _) => s | none => []
def exFinal : Nat := match exProg2.builder with | some (_, f) => f | none => 0
set_option maxRecDepth 100000 in
theorem ex2_builder : exProg2.builder = some (exSteps, exFinal) := by rfl
set_option maxRecDepth 100000 in
theorem ex2_steps : exSteps.map (·.field) = [exLo, exImm] := by rfl
set_option maxRecDepth 100000 in
theorem ex2_steps' : exSteps = [⟨exLo, 0, 0xFF⟩, ⟨exImm, 0xFF, 0xFF00FFF⟩] := by rfl
example := accepted_builder _ _ exDecl2 exProg2 ex2_accepted exSteps exFinal ex2_builder Ex.noTypes true
  [.scalar (.int .u8 0x12) 0x12, .scalar (.uint 12 0xABC) 0xABC]
  (by rw [ex2_steps']
      exact ⟨⟨by simp [exLo], by simp [ArgOk, exLo, FieldDef.totalBits]⟩, ⟨by simp [exImm], by simp [ArgOk, exImm, FieldDef.totalBits]⟩, trivial⟩)

end Bb.Prog
