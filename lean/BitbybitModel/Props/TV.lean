import BitbybitModel.Symbolic.NfSound
import BitbybitModel.Symbolic.Ctx
import BitbybitModel.Props.Examples
import BitbybitModel.Props.Program
/-!
# TV — translation validation: the accessor theorems hold for every emitted body the normaliser accepts

The accessor theorems (`eval_getterBody`, `eval_setterBody`, …) speak about the body the *model* generates. The
run compares that body with the body the real macro emitted for each corpus declaration. When the two are not
syntactically equal (a harmless rewrite of a template), `Nf.bodiesEquiv` – an executable function the driver runs –
is asked instead. These theorems say what a `true` answer means: the emitted body `a` returns exactly what the
theorems promise about the model's body, for **every** raw value, written value, index and both profiles.
-/
namespace Bb.TV
open Bb Bb.Nf

/-- **Getter, in range.** An emitted getter body that the normaliser finds equivalent to the model's returns the
    gathered bits (through `T::new_with_raw_value` for custom types), for every raw value and both profiles. -/
theorem getter_validated (Γ : CustomEnv) (chk : Bool) (B : Base) (fd : FieldDef) (raw i : Nat) (a m : Expr)
    (hB : B.WF) (hok : FieldOk B fd) (hwide : fd.totalBits ≤ B.internal) (hraw : raw < 2 ^ B.internal)
    (hi : ∀ c s, fd.array = some (c, s) → i < c)
    (hm : getterBody B fd = some m) (heq : bodiesEquiv (getterCtx B) a m = true) :
    ResEq (eval Γ chk { raw := .int B.W raw, index := .int .usize i } a)
      (getterResult Γ fd (gather raw (offOf i fd.stride) fd.ranges 0)) := by
  obtain ⟨e, he, hev⟩ := eval_getterBody Γ chk B fd raw i hB hok hwide hi
  rw [hm] at he; injection he with he; subst he
  rw [← hev]
  exact bodiesEquiv_sound heq ⟨Γ, raw, 0, .bool false⟩ chk chk _
    ⟨rfl, by rw [show (getterCtx B).rawTy = B.W from rfl, hB.W_bits]; exact hraw, Or.inl rfl, trivial⟩ trivial

/-- for a field of a plain (non-custom) type the emitted getter returns exactly the presented bits -/
theorem getter_validated_plain (Γ : CustomEnv) (chk : Bool) (B : Base) (fd : FieldDef) (raw i : Nat) (a m : Expr)
    (hB : B.WF) (hok : FieldOk B fd) (hwide : fd.totalBits ≤ B.internal) (hraw : raw < 2 ^ B.internal)
    (hi : ∀ c s, fd.array = some (c, s) → i < c) (hc : fd.custom = none)
    (hm : getterBody B fd = some m) (heq : bodiesEquiv (getterCtx B) a m = true) :
    eval Γ chk { raw := .int B.W raw, index := .int .usize i } a
      = .ok (present fd (gather raw (offOf i fd.stride) fd.ranges 0)) := by
  have := getter_validated Γ chk B fd raw i a m hB hok hwide hraw hi hm heq
  exact this.ok_left (by simp [getterResult, hc])

/-- **Getter, out of range**: the emitted body panics, in both profiles -/
theorem getter_validated_oob (Γ : CustomEnv) (chk : Bool) (B : Base) (fd : FieldDef) (raw i c s : Nat) (a m : Expr)
    (hB : B.WF) (hok : FieldOk B fd) (hwide : fd.totalBits ≤ B.internal) (hraw : raw < 2 ^ B.internal)
    (ha : fd.array = some (c, s)) (hi : c ≤ i)
    (hm : getterBody B fd = some m) (heq : bodiesEquiv (getterCtx B) a m = true) :
    ∃ msg, eval Γ chk { raw := .int B.W raw, index := .int .usize i } a = .error (.panic msg) := by
  obtain ⟨e, he, hev⟩ := eval_getterBody_oob Γ chk B fd raw i c s hB hok hwide ha hi
  rw [hm] at he; injection he with he; subst he
  exact (bodiesEquiv_sound heq ⟨Γ, raw, 0, .bool false⟩ chk chk _
    ⟨rfl, by rw [show (getterCtx B).rawTy = B.W from rfl, hB.W_bits]; exact hraw, Or.inl rfl, trivial⟩ trivial).panic_left hev

/-- the typing assumption of the setter theorems is what the normaliser's context announces -/
theorem setter_env (Γ : CustomEnv) (B : Base) (fd : FieldDef) (raw i : Nat) (fv : Val) (v : Nat)
    (hB : B.WF) (hok : FieldOk B fd) (hraw : raw < 2 ^ B.internal) (harg : Bb.ArgOk Γ fd fv v) :
    EnvOk ⟨Γ, raw, v, fv⟩ (setterCtx B fd) { raw := .int B.W raw, index := .int .usize i, fieldValue := fv } ∧
    Nf.ArgOk ⟨Γ, raw, v, fv⟩ (setterCtx B fd) := by
  obtain ⟨hv, hcase⟩ := harg
  have hrawlt : raw < 2 ^ (setterCtx B fd).rawTy.bits := by
    rw [show (setterCtx B fd).rawTy = B.W from rfl, hB.W_bits]; exact hraw
  cases hc : fd.custom with
  | none =>
    simp only [hc] at hcase
    by_cases hb : fd.fieldTypeSize = 0
    · simp only [hb, if_true] at hcase
      obtain ⟨lo, hr⟩ := hok.bool_one hb
      have hv1 : v < 2 := by simpa [FieldDef.totalBits, hr] using hv
      have hA : (setterCtx B fd).arg = .bool := by simp [setterCtx, setterArgTy, hc, hb]
      refine ⟨⟨rfl, hrawlt, Or.inl rfl, ?_⟩, ?_⟩
      · rw [hA]; simp only [setterCtx, Env.get, hcase]
        have : v = 0 ∨ v = 1 := by omega
        rcases this with rfl | rfl <;> simp
      · unfold Nf.ArgOk; rw [hA]; trivial
    · simp only [hb, if_false] at hcase
      have hw := hok.width_eq hb
      by_cases hreg : fd.useRegularInt = true
      · simp only [hreg, if_true] at hcase
        have hA : (setterCtx B fd).arg = .int fd.primitiveType := by simp [setterCtx, setterArgTy, hc, hb, hreg]
        refine ⟨⟨rfl, hrawlt, Or.inl rfl, ?_⟩, ?_⟩
        · rw [hA]; simp only [setterCtx, Env.get, hcase]
          exact ⟨trivial, by rw [hok.regular_prim hreg hb]; exact hv⟩
        · unfold Nf.ArgOk; rw [hA]; trivial
      · have hreg' : fd.useRegularInt = false := by simpa using hreg
        simp only [hreg', Bool.false_eq_true, if_false] at hcase
        have hA : (setterCtx B fd).arg = .uint fd.totalBits := by simp [setterCtx, setterArgTy, hc, hb, hreg']
        refine ⟨⟨rfl, hrawlt, Or.inl rfl, ?_⟩, ?_⟩
        · rw [hA]; simp only [setterCtx, Env.get, hcase]
          exact ⟨trivial, hv⟩
        · unfold Nf.ArgOk; rw [hA]; trivial
  | some ct =>
    simp only [hc] at hcase
    have hb : fd.fieldTypeSize ≠ 0 := by
      intro hb; have := (hok.bool_regular hb).2.2; rw [hc] at this; exact absurd this (by simp)
    by_cases hreg : fd.useRegularInt = true
    · simp only [hreg, if_true] at hcase
      have hA : (setterCtx B fd).arg = .custom (.int fd.primitiveType) := by simp [setterCtx, setterArgTy, hc, hreg]
      refine ⟨⟨rfl, hrawlt, Or.inl rfl, ?_⟩, ?_⟩
      · rw [hA]; rfl
      · unfold Nf.ArgOk; rw [hA]
        refine ⟨_, hcase, length_inputV _ _ _, ?_⟩
        have hp : fd.primitiveType.bits = fd.totalBits := by
          have := hok.custom_prim (by simp [hc]) hreg
          rw [this, bits_unsignedOf]
          have := hok.regular_prim hreg hb
          rw [‹fd.primitiveType = _›, bits_unsignedOf] at this
          exact this
        show Val.int fd.primitiveType v = Val.int fd.primitiveType (den raw v (inputV true 0 fd.primitiveType.bits))
        rw [den_inputV_fv, Nat.mod_eq_of_lt (by rw [hp]; exact hv)]
    · have hreg' : fd.useRegularInt = false := by simpa using hreg
      simp only [hreg', Bool.false_eq_true, if_false] at hcase
      have hA : (setterCtx B fd).arg = .custom (.uint fd.totalBits) := by simp [setterCtx, setterArgTy, hc, hreg']
      refine ⟨⟨rfl, hrawlt, Or.inl rfl, ?_⟩, ?_⟩
      · rw [hA]; rfl
      · unfold Nf.ArgOk; rw [hA]
        refine ⟨_, hcase, length_inputV _ _ _, ?_⟩
        show Val.uint fd.totalBits v = Val.uint fd.totalBits (den raw v (inputV true 0 fd.totalBits))
        rw [den_inputV_fv, Nat.mod_eq_of_lt hv]

/-- **Setter (`with_` / `set_`), in range.** An emitted body the normaliser accepts yields exactly the register the
    setter theorems describe: it fits the storage, equals the reference write for lists naming no bit twice, stays
    below `2^N`, and leaves every position it does not cover alone. -/
theorem setter_validated (Γ : CustomEnv) (chk : Bool) (B : Base) (fd : FieldDef) (raw i : Nat) (fv : Val) (v : Nat) (a m : Expr)
    (hB : B.WF) (hok : FieldOk B fd) (hwide : fd.totalBits ≤ B.internal) (hrawlt : raw < 2 ^ B.internal)
    (hi : ∀ c s, fd.array = some (c, s) → i < c) (harg : Bb.ArgOk Γ fd fv v)
    (hm : setterBody B fd = some m) (heq : bodiesEquiv (setterCtx B fd) a m = true) :
    ∃ x, eval Γ chk { raw := .int B.W raw, index := .int .usize i, fieldValue := fv } a = .ok (.int B.W x) ∧
      x < 2 ^ B.internal ∧
      (pairwiseDisjoint fd.ranges = true → x = writeSpec B.internal raw v (offOf i fd.stride) fd.ranges) ∧
      (raw < 2 ^ B.exposed → x < 2 ^ B.exposed) ∧
      (∀ p, fd.ranges.any (·.covers (offOf i fd.stride) p) = false → x.testBit p = raw.testBit p) := by
  obtain ⟨e, he, x, hev, hrest⟩ := eval_setterBody Γ chk B fd raw i fv v hB hok hwide hrawlt hi harg
  rw [hm] at he; injection he with he; subst he
  obtain ⟨henv, hargok⟩ := setter_env Γ B fd raw i fv v hB hok hrawlt harg
  exact ⟨x, (bodiesEquiv_sound heq ⟨Γ, raw, v, fv⟩ chk chk _ henv hargok).ok_left hev, hrest⟩

/-- **Setter, out of range**: the emitted body panics, in both profiles -/
theorem setter_validated_oob (Γ : CustomEnv) (chk : Bool) (B : Base) (fd : FieldDef) (raw i c s : Nat) (fv : Val) (v : Nat) (a m : Expr)
    (hB : B.WF) (hok : FieldOk B fd) (hwide : fd.totalBits ≤ B.internal) (hrawlt : raw < 2 ^ B.internal)
    (ha : fd.array = some (c, s)) (hi : c ≤ i) (harg : Bb.ArgOk Γ fd fv v)
    (hm : setterBody B fd = some m) (heq : bodiesEquiv (setterCtx B fd) a m = true) :
    ∃ msg, eval Γ chk { raw := .int B.W raw, index := .int .usize i, fieldValue := fv } a = .error (.panic msg) := by
  obtain ⟨e, he, hev⟩ := eval_setterBody_oob Γ chk B fd raw i c s fv v hB hok hwide hrawlt ha hi harg
  rw [hm] at he; injection he with he; subst he
  obtain ⟨henv, hargok⟩ := setter_env Γ B fd raw i fv v hB hok hrawlt harg
  exact (bodiesEquiv_sound heq ⟨Γ, raw, v, fv⟩ chk chk _ henv hargok).panic_left hev

/-- the profile does not matter for a validated body either -/
theorem validated_profile_independent {ctx : Ctx} {a m : Expr} (heq : bodiesEquiv ctx a m = true) (w : World) (ρ : Env)
    (hρ : EnvOk w ctx ρ) (harg : Nf.ArgOk w ctx) {v : Val} (h : eval w.Γ true ρ m = .ok v) : eval w.Γ false ρ a = .ok v :=
  transfer_ok heq w false true ρ hρ harg h

end Bb.TV

namespace Bb.TV
open Bb Bb.Nf

/-! ### declaration level: accepted declaration + validated emitted body ⇒ the register specification

The only hypotheses left are user-visible ones: the declaration was accepted by the (model of the) macro, the field is
one of its fields, its list names no bit twice (C04's own exclusion / KF1), the index is in range, the argument has
the field's type – and the run's finding that the body the real macro emitted is equivalent to the model's. -/

/-- for every accepted declaration, a validated emitted getter returns the gathered bits -/
theorem accepted_getter_validated (resolve : List String → Nat) (types : Nat → Option CustomInfo) (d : DeclSyn) (p : Program)
    (h : expand resolve types d = .ok p) (fd : FieldDef) (hfd : fd ∈ p.fields)
    (hd : pairwiseDisjoint fd.ranges = true)
    (Γ : CustomEnv) (chk : Bool) (raw i : Nat) (hraw : raw < 2 ^ p.base.internal)
    (hi : ∀ c s, fd.array = some (c, s) → i < c)
    (a : Expr) (hval : ∀ m, getterBody p.base fd = some m → bodiesEquiv (getterCtx p.base) a m = true) :
    ResEq (eval Γ chk { raw := .int p.base.W raw, index := .int .usize i } a)
      (getterResult Γ fd (gather raw (offOf i fd.stride) fd.ranges 0)) := by
  obtain ⟨hB, hall⟩ := C09.expand_fields_ok resolve types d p h
  have hwide := C16.wide_of_disjoint p.base fd hB (hall fd hfd) hd
  obtain ⟨m, hm, _⟩ := eval_getterBody Γ chk p.base fd raw i hB (hall fd hfd) hwide hi
  exact getter_validated Γ chk p.base fd raw i a m hB (hall fd hfd) hwide hraw hi hm (hval m hm)

/-- for every accepted declaration, a validated emitted `with_` / `set_` body yields exactly the reference write, which
    fits the storage (and the exposed width when the register did) -/
theorem accepted_setter_validated (resolve : List String → Nat) (types : Nat → Option CustomInfo) (d : DeclSyn) (p : Program)
    (h : expand resolve types d = .ok p) (fd : FieldDef) (hfd : fd ∈ p.fields)
    (hd : pairwiseDisjoint fd.ranges = true)
    (Γ : CustomEnv) (chk : Bool) (raw i : Nat) (fv : Val) (v : Nat) (hraw : raw < 2 ^ p.base.internal)
    (hi : ∀ c s, fd.array = some (c, s) → i < c) (harg : Bb.ArgOk Γ fd fv v)
    (a : Expr) (hval : ∀ m, setterBody p.base fd = some m → bodiesEquiv (setterCtx p.base fd) a m = true) :
    eval Γ chk { raw := .int p.base.W raw, index := .int .usize i, fieldValue := fv } a
        = .ok (.int p.base.W (writeSpec p.base.internal raw v (offOf i fd.stride) fd.ranges)) ∧
      writeSpec p.base.internal raw v (offOf i fd.stride) fd.ranges < 2 ^ p.base.internal ∧
      (raw < 2 ^ p.base.exposed → writeSpec p.base.internal raw v (offOf i fd.stride) fd.ranges < 2 ^ p.base.exposed) := by
  obtain ⟨hB, hall⟩ := C09.expand_fields_ok resolve types d p h
  have hwide := C16.wide_of_disjoint p.base fd hB (hall fd hfd) hd
  obtain ⟨m, hm, _⟩ := eval_setterBody Γ chk p.base fd raw i fv v hB (hall fd hfd) hwide hraw hi harg
  obtain ⟨x, hev, hx, hsp, hex, _⟩ := setter_validated Γ chk p.base fd raw i fv v a m hB (hall fd hfd) hwide hraw hi harg hm (hval m hm)
  have hxs := hsp hd
  subst hxs
  exact ⟨hev, hx, hex⟩

end Bb.TV

namespace Bb.TV
open Bb Bb.Nf

/-! ### histories through emitted bodies (C11, C12, C13)

`body fd` is the `with_` / `set_` body the real macro emitted for field `fd`. If every emitted body is validated against
the model's, every legal history executed through the *emitted* bodies runs to completion under either profile and ends in
the last-write-wins register – the statement of `runs_exists` / `runs_unique` / `C12.history` with the model's bodies
replaced by the emitted ones. -/

/-- executing emitted bodies one after the other -/
inductive RunsVia (Γ : CustomEnv) (chk : Bool) (B : Base) (body : FieldDef → Option Expr) : Nat → List Step → Nat → Prop where
  | nil (s : Nat) : RunsVia Γ chk B body s [] s
  | cons (s x t : Nat) (st : Step) (rest : List Step) (e : Expr) :
      body st.fd = some e →
      eval Γ chk { raw := .int B.W s, index := .int .usize st.i, fieldValue := st.fv } e = .ok (.int B.W x) →
      RunsVia Γ chk B body x rest t → RunsVia Γ chk B body s (st :: rest) t

/-- every emitted setter body that exists is validated against the model's -/
def Validated (B : Base) (body : FieldDef → Option Expr) : Prop :=
  ∀ fd a m, body fd = some a → setterBody B fd = some m → bodiesEquiv (setterCtx B fd) a m = true

theorem history_validated_exists (Γ : CustomEnv) (chk : Bool) (B : Base) (hB : B.WF) (body : FieldDef → Option Expr)
    (hval : Validated B body) : ∀ (steps : List Step) (s : Nat),
    s < 2 ^ B.internal → (∀ st ∈ steps, st.Ok Γ B ∧ (body st.fd).isSome) →
    RunsVia Γ chk B body s steps (applyWrites B.internal s (steps.map Step.toOp)) := by
  intro steps
  induction steps with
  | nil => intro s _ _; exact RunsVia.nil s
  | cons st rest ih =>
    intro s hs hok
    obtain ⟨h, hsome⟩ := hok st (by simp)
    obtain ⟨a, ha⟩ := Option.isSome_iff_exists.mp hsome
    obtain ⟨m, hm, _⟩ := eval_setterBody Γ chk B st.fd s st.i st.fv st.v hB h.field_ok h.wide hs h.index h.arg
    obtain ⟨x, hev, hx, hsp, _⟩ := setter_validated Γ chk B st.fd s st.i st.fv st.v a m hB h.field_ok h.wide hs h.index h.arg hm
      (hval st.fd a m ha hm)
    have hxe := hsp h.disjoint
    refine RunsVia.cons s x _ st rest a ha hev ?_
    have := ih x hx (fun q hq => hok q (by simp [hq]))
    simpa [applyWrites, List.foldl, Step.toOp, hxe] using this

/-- … and whatever run through the emitted bodies exists ends there (determinism), so by `testBit_applyWrites` every bit
    of the final register is the bit of the last write that covered it -/
theorem history_validated_unique (Γ : CustomEnv) (chk : Bool) (B : Base) (hB : B.WF) (body : FieldDef → Option Expr)
    (hval : Validated B body) : ∀ (steps : List Step) (s t : Nat),
    s < 2 ^ B.internal → (∀ st ∈ steps, st.Ok Γ B) → RunsVia Γ chk B body s steps t →
    t = applyWrites B.internal s (steps.map Step.toOp) := by
  intro steps
  induction steps with
  | nil => intro s t _ _ h; cases h; rfl
  | cons st rest ih =>
    intro s t hs hok hrun
    cases hrun with
    | cons _ x _ _ _ a ha hev hrest =>
      have h := hok st (by simp)
      obtain ⟨m, hm, _⟩ := eval_setterBody Γ chk B st.fd s st.i st.fv st.v hB h.field_ok h.wide hs h.index h.arg
      obtain ⟨x', hev', hx', hsp, _⟩ := setter_validated Γ chk B st.fd s st.i st.fv st.v a m hB h.field_ok h.wide hs h.index h.arg hm
        (hval st.fd a m ha hm)
      have hxx : x = x' := by rw [hev] at hev'; cases hev'; rfl
      subst hxx
      have := ih x t hx' (fun q hq => hok q (by simp [hq])) hrest
      simpa [applyWrites, List.foldl, Step.toOp, hsp h.disjoint] using this

/-- last write wins, bit by bit, for histories through validated emitted bodies -/
theorem history_validated_bits (Γ : CustomEnv) (chk : Bool) (B : Base) (hB : B.WF) (body : FieldDef → Option Expr)
    (hval : Validated B body) (steps : List Step) (s t : Nat) (hs : s < 2 ^ B.internal)
    (hok : ∀ st ∈ steps, st.Ok Γ B) (hrun : RunsVia Γ chk B body s steps t) (k : Nat) :
    t.testBit k = (decide (k < B.internal) && lastWrite s (steps.map Step.toOp) k) := by
  rw [history_validated_unique Γ chk B hB body hval steps s t hs hok hrun]
  exact testBit_applyWrites B.internal _ s k hs

end Bb.TV

/-! ### non-vacuity: rewritten bodies the normaliser accepts (checked by the kernel), and ones it must not -/
namespace Bb.TV
open Bb Bb.Nf Expr BinOp

/-- H11/H12: `((self.raw_value >> 126) & 1) != 0` for `(self.raw_value & (1 << 126)) != 0` -/
def topRewritten : Expr :=
  .bin .ne (.bin .and (.bin .shr (.var .raw) (usz 126)) (one .u128)) (.lit .u128 0)

example : getterBody (Base.new 127) Ex.top =
    some (.bin .ne (.bin .and (.var .raw) (.bin .shl (one .u128) (usz 126))) (.lit .u128 0)) := rfl
theorem top_equiv : bodiesEquiv (getterCtx (Base.new 127)) topRewritten
    (.bin .ne (.bin .and (.var .raw) (.bin .shl (one .u128) (usz 126))) (.lit .u128 0)) = true := by decide +kernel
example (raw : Nat) (h : raw < 2 ^ 128) := getter_validated_plain Ex.noTypes true (Base.new 127) Ex.top raw 0 topRewritten _
  Ex.wf127 Ex.top_ok (by decide) h (by simp [Ex.top]) rfl rfl top_equiv

/-- H5-like: the mask of the packed array getter written `!(!0 << 4)` instead of `(1 << 4) - 1`, and the element
    offset written `index * 5 + 1` -/
def arrRewritten : Expr :=
  .assertE (.bin .lt (.var .index) (usz 3))
    (.extract .u32 4 (.var .raw) (.bin .add (.bin .mul (.var .index) (usz 5)) (usz 1)))
theorem arr_equiv : ∀ m, getterBody (Base.new 24) Ex.arr = some m → bodiesEquiv (getterCtx (Base.new 24)) arrRewritten m = true := by
  intro m h; injection h with h; subst h; decide +kernel

/-- reading the neighbouring bit is *not* accepted -/
example : bodiesEquiv (getterCtx (Base.new 127))
    (.bin .ne (.bin .and (.bin .shr (.var .raw) (usz 125)) (one .u128)) (.lit .u128 0))
    (.bin .ne (.bin .and (.var .raw) (.bin .shl (one .u128) (usz 126))) (.lit .u128 0)) = false := by decide +kernel

/-- the outermost `|` of a setter body (under the index assertion and the `let`s) written as `+` -/
def plusForOr : Expr → Expr
  | .assertE c b => .assertE c (plusForOr b)
  | .letE v e b => .letE v e (plusForOr b)
  | .bin .or x y => .bin .add x y
  | e => e

/-- `(raw & !mask) + (value << lo)` for `(raw & !mask) | (value << lo)`: the two summands are never both non-zero in one
    position, so the sum cannot carry – accepted (array setter with gaps, every index) -/
theorem arr_setter_plus : ∀ m, setterBody (Base.new 24) Ex.arr = some m →
    plusForOr m ≠ m ∧ bodiesEquiv (setterCtx (Base.new 24) Ex.arr) (plusForOr m) m = true := by
  intro m h; injection h with h; subst h; decide +kernel

/-- `raw ^ (raw & M)` for `raw & !M` (clearing the old bits of a setter by exclusive or): accepted -/
def xorForAndNot : Expr → Expr
  | .assertE c b => .assertE c (xorForAndNot b)
  | .letE v e b => .letE v e (xorForAndNot b)
  | .bin .or (.bin .and x (.not m)) y => .bin .or (.bin .bxor x (.bin .and x m)) y
  | e => e

theorem arr_setter_xor : ∀ m, setterBody (Base.new 24) Ex.arr = some m →
    xorForAndNot m ≠ m ∧ bodiesEquiv (setterCtx (Base.new 24) Ex.arr) (xorForAndNot m) m = true := by
  intro m h; injection h with h; subst h; decide +kernel

/-- the bool getter written `((raw >> 126) & 1) == 1`: accepted; compared with the neighbouring bit or with `== 0`: not -/
theorem top_equiv_eq : bodiesEquiv (getterCtx (Base.new 127))
    (.bin .eqq (.bin .and (.bin .shr (.var .raw) (usz 126)) (one .u128)) (one .u128))
    (.bin .ne (.bin .and (.var .raw) (.bin .shl (one .u128) (usz 126))) (.lit .u128 0)) = true := by decide +kernel
example : bodiesEquiv (getterCtx (Base.new 127))
    (.bin .eqq (.bin .and (.bin .shr (.var .raw) (usz 126)) (one .u128)) (.lit .u128 0))
    (.bin .ne (.bin .and (.var .raw) (.bin .shl (one .u128) (usz 126))) (.lit .u128 0)) = false := by decide +kernel
/-- … and written `(raw & (1 << 126)) > 0`, i.e. `0 < raw & (1 << 126)` -/
theorem top_equiv_gt : bodiesEquiv (getterCtx (Base.new 127))
    (.bin .lt (.lit .u128 0) (.bin .and (.var .raw) (.bin .shl (one .u128) (usz 126))))
    (.bin .ne (.bin .and (.var .raw) (.bin .shl (one .u128) (usz 126))) (.lit .u128 0)) = true := by decide +kernel
/-- `raw ^ raw` is the constant 0, `raw ^ value` has no normal form -/
example : nf { rawTy := .u8 } ({ rawTy := .u8 } : Ctx).init (.bin .bxor (.var .raw) (.var .raw))
    = some (.ok (.int .u8 (zeros 8))) := by decide +kernel
/-- `raw ^ value` is the exclusive or of two input bits per position (`x2`), a normal form of its own -/
example : (nf { rawTy := .u8, arg := .int .u8 } ({ rawTy := .u8, arg := .int .u8 } : Ctx).init
    (.bin .bxor (.var .raw) (.var .fieldValue))).isSome = true := by decide +kernel

/-- the merge idiom `raw ^ ((raw ^ new) & M)` for `(raw & !M) | new`: inside `M` the two occurrences of the old bit cancel,
    outside the masked difference vanishes – accepted (array setter with gaps, every index); without the mask it is not -/
def mergeForOr : Expr → Expr
  | .assertE c b => .assertE c (mergeForOr b)
  | .letE v e b => .letE v e (mergeForOr b)
  | .bin .or (.bin .and x (.not m)) y => .bin .bxor x (.bin .and (.bin .bxor x y) m)
  | e => e

theorem arr_setter_merge : ∀ m, setterBody (Base.new 24) Ex.arr = some m →
    mergeForOr m ≠ m ∧ bodiesEquiv (setterCtx (Base.new 24) Ex.arr) (mergeForOr m) m = true := by
  intro m h; injection h with h; subst h; decide +kernel

def mergeNoMask : Expr → Expr
  | .assertE c b => .assertE c (mergeNoMask b)
  | .letE v e b => .letE v e (mergeNoMask b)
  | .bin .or (.bin .and x (.not _)) y => .bin .bxor x (.bin .bxor x y)
  | e => e

example : ∀ m, setterBody (Base.new 24) Ex.arr = some m →
    bodiesEquiv (setterCtx (Base.new 24) Ex.arr) (mergeNoMask m) m = false := by
  intro m h; injection h with h; subst h; decide +kernel

/-- a signed getter written with an arithmetic shift: `((raw as i64) >> 48) as i16` for `(((raw >> 48) & 0xffff) << 0) as i16`
    (the field is the top 16 bits of a `u64`): accepted; shifting by 47 is not -/
theorem sgn_sar_equiv : ∀ m, getterBody (Base.new 64) Ex.sgn = some m →
    bodiesEquiv (getterCtx (Base.new 64)) (.cast (.bin .shr (.cast (.var .raw) .i64) (usz 48)) .i16) m = true := by
  intro m h; injection h with h; subst h; decide +kernel
example : ∀ m, getterBody (Base.new 64) Ex.sgn = some m →
    bodiesEquiv (getterCtx (Base.new 64)) (.cast (.bin .shr (.cast (.var .raw) .i64) (usz 47)) .i16) m = false := by
  intro m h; injection h with h; subst h; decide +kernel

/-- … whereas a sum that can carry has no normal form: no answer, never "equal" -/
example : nf { rawTy := .u8 } ({ rawTy := .u8 } : Ctx).init (.bin .add (.var .raw) (.var .raw)) = none := by decide +kernel

end Bb.TV
