import BitbybitModel.Rust.Int
/-!
# The expression fragment emitted by the macro, and its evaluation

`eval Γ chk ρ e` follows Rust's semantics for the operators the templates use, for both build
profiles: `chk = true` – overflow checks on (a failing check is a `panic`); `chk = false` – wrapping
arithmetic and masked shift amounts. `Fault.stuck` marks ill-typed / out-of-fragment evaluation; no
theorem concludes `stuck`, so a totalised definition cannot make a theorem true by accident.

The datatype deliberately has no constructor for `unsafe`, raw pointers, loops, `std::` paths or calls
to anything but the three `arbitrary-int` functions and the user type's two conversion functions.
-/
namespace Bb

inductive Fault where
  | panic (why : String)      -- a Rust panic (overflow check, assert!, unreachable!)
  | stuck (why : String)      -- ill-typed / outside the modelled fragment
  deriving Repr, DecidableEq

inductive Val where
  | int (ty : ITy) (bits : Nat)      -- bit pattern, two's complement, < 2^ty.bits
  | bool (b : Bool)
  | uint (n : Nat) (v : Nat)         -- arbitrary_int::UInt<u{storageOf n}, n>
  | custom (ty : Nat) (raw : Val)    -- a value of user type number `ty`, identified by its raw value
  | res (ok : Bool) (v : Val)        -- Result::Ok(v) / Result::Err(v)
  deriving Repr, DecidableEq, Inhabited

abbrev R := Except Fault Val

/-- Variables that occur in generated bodies. -/
inductive Var where
  | raw          -- self.raw_value
  | fieldValue   -- field_value
  | index        -- index
  | temp         -- temp
  | effIndex     -- effective_index
  | extracted    -- extracted_bits
  | constMask    -- MASK / CLEAR_MASK (a `const` item; modelled as a `let`, see DESIGN §8)
  | value        -- value (parameter of new_with_raw_value and of builder steps)
  deriving DecidableEq, Repr

inductive BinOp where
  | shl | shr | and | or | add | sub | mul | ne | lt
  | bxor   -- `^`
  | eqq    -- `==`
  deriving DecidableEq, Repr

inductive Expr where
  | lit (ty : ITy) (n : Nat)
  | var (v : Var)
  | bin (op : BinOp) (a b : Expr)
  | not (a : Expr)
  | cast (a : Expr) (ty : ITy)
  | ite (c a b : Expr)
  | letE (v : Var) (e body : Expr)
  | assertE (c body : Expr)
  | extract (W : ITy) (n : Nat) (e start : Expr)  -- arbitrary_int::u{n}::extract_u{W.bits}(e, start)
  | uintNew (n : Nat) (e : Expr)                  -- u{n}::new(e)
  | uintValue (e : Expr)                          -- e.value()
  | customNew (ty : Nat) (e : Expr)               -- T::new_with_raw_value(e)
  | customRaw (e : Expr)                          -- e.raw_value()
  deriving Repr, DecidableEq, Inhabited

structure Env where
  raw : Val
  fieldValue : Val := .bool false
  index : Val := .bool false
  temp : Val := .bool false
  effIndex : Val := .bool false
  extracted : Val := .bool false
  constMask : Val := .bool false
  value : Val := .bool false

def Env.get (ρ : Env) : Var → Val
  | .raw => ρ.raw | .fieldValue => ρ.fieldValue | .index => ρ.index
  | .temp => ρ.temp | .effIndex => ρ.effIndex | .extracted => ρ.extracted | .constMask => ρ.constMask | .value => ρ.value

def Env.set (ρ : Env) (v : Var) (x : Val) : Env :=
  match v with
  | .raw => { ρ with raw := x } | .fieldValue => { ρ with fieldValue := x }
  | .index => { ρ with index := x } | .temp => { ρ with temp := x }
  | .effIndex => { ρ with effIndex := x } | .extracted => { ρ with extracted := x }
  | .constMask => { ρ with constMask := x } | .value => { ρ with value := x }

/-- The user types reachable from generated code, only through their two conversion functions. -/
structure CustomEnv where
  /-- `T::new_with_raw_value(x)` for user type number `ty` -/
  new : Nat → Val → R
  /-- `v.raw_value()` -/
  raw : Val → R

/-- `>>` on a signed `w`-bit pattern `a` (arithmetic shift): logical shift, then the sign bit copied into the top `s` positions -/
def sar (w a s : Nat) : Nat := (a >>> s) ||| (if a.testBit (w - 1) then (2 ^ s - 1) <<< (w - s) else 0)

/-- `chk = true`: overflow checks on (debug); `false`: wrapping (release). -/
def evalBin (chk : Bool) (op : BinOp) (x y : Val) : R :=
  match op, x, y with
  | .shl, .int t a, .int _ s =>
      if s < t.bits then .ok (.int t ((a <<< s) % 2 ^ t.bits))
      else if chk then .error (.panic "shl overflow")
      else .ok (.int t ((a <<< (s % t.bits)) % 2 ^ t.bits))
  | .shr, .int t a, .int _ s =>
      if t.signed then
        -- arithmetic shift of the two's-complement pattern: the top `s` positions are filled with the sign bit
        (if s < t.bits then .ok (.int t (sar t.bits a s))
         else if chk then .error (.panic "shr overflow")
         else .ok (.int t (sar t.bits a (s % t.bits)))) else
      if s < t.bits then .ok (.int t (a >>> s))
      else if chk then .error (.panic "shr overflow")
      else .ok (.int t (a >>> (s % t.bits)))
  | .and, .int t a, .int t' b => if t = t' then .ok (.int t (a &&& b)) else .error (.stuck "and types")
  | .or, .int t a, .int t' b => if t = t' then .ok (.int t (a ||| b)) else .error (.stuck "or types")
  | .add, .int t a, .int t' b =>
      if t ≠ t' ∨ t.signed then .error (.stuck "add types") else
      if a + b < 2 ^ t.bits then .ok (.int t (a + b))
      else if chk then .error (.panic "add overflow") else .ok (.int t ((a + b) % 2 ^ t.bits))
  | .sub, .int t a, .int t' b =>
      if t ≠ t' ∨ t.signed then .error (.stuck "sub types") else
      if b ≤ a then .ok (.int t (a - b))
      else if chk then .error (.panic "sub overflow") else .ok (.int t ((a + 2 ^ t.bits - b) % 2 ^ t.bits))
  | .mul, .int t a, .int t' b =>
      if t ≠ t' ∨ t.signed then .error (.stuck "mul types") else
      if a * b < 2 ^ t.bits then .ok (.int t (a * b))
      else if chk then .error (.panic "mul overflow") else .ok (.int t ((a * b) % 2 ^ t.bits))
  | .ne, .int t a, .int t' b => if t = t' then .ok (.bool (a != b)) else .error (.stuck "ne types")
  | .lt, .int t a, .int t' b =>
      if t ≠ t' ∨ t.signed then .error (.stuck "lt types") else .ok (.bool (decide (a < b)))
  | .bxor, .int t a, .int t' b => if t = t' then .ok (.int t (a ^^^ b)) else .error (.stuck "xor types")
  | .eqq, .int t a, .int t' b => if t = t' then .ok (.bool (a == b)) else .error (.stuck "eq types")
  | _, _, _ => .error (.stuck "binop operands")

/-- `arbitrary_int::UInt::<_, n>::extract_u{W}(value, start)`: `assert!(start + n <= W)`, then shift, cast, mask.
    The addition `start + n` is a `usize` addition (panics / wraps like any other). -/
def evalExtract (chk : Bool) (W : ITy) (n : Nat) (x s : Val) : R :=
  match x, s with
  | .int t a, .int .usize st =>
      if t ≠ W ∨ W.signed then .error (.stuck "extract operand type") else
      if st + n < 2 ^ 64 then
        (if st + n ≤ W.bits then .ok (.uint n ((a >>> st) % 2 ^ n))
         else .error (.panic "extract: start_bit + BITS <= W"))
      else if chk then .error (.panic "add overflow")
      else (if (st + n) % 2 ^ 64 ≤ W.bits then .ok (.uint n ((a >>> (st % W.bits)) % 2 ^ n))
            else .error (.panic "extract: start_bit + BITS <= W"))
  | _, _ => .error (.stuck "extract operands")

def eval (Γ : CustomEnv) (chk : Bool) (ρ : Env) : Expr → R
  | .lit t n => if n < 2 ^ t.bits then .ok (.int t n) else .error (.stuck "literal out of range")
  | .var v => .ok (ρ.get v)
  | .bin op a b =>
      match eval Γ chk ρ a with
      | .error f => .error f
      | .ok x => match eval Γ chk ρ b with
        | .error f => .error f
        | .ok y => evalBin chk op x y
  | .not a =>
      match eval Γ chk ρ a with
      | .ok (.int t x) => if t.signed then .error (.stuck "not on signed") else .ok (.int t (2 ^ t.bits - 1 - x))
      | .ok (.bool b) => .ok (.bool (!b))
      | .ok _ => .error (.stuck "not operand")
      | .error f => .error f
  | .cast a ty =>
      match eval Γ chk ρ a with
      | .ok (.int t x) => .ok (.int ty (castBits t ty x))
      | .ok (.bool b) => .ok (.int ty (if b then 1 else 0))      -- `true as T == 1`
      | .ok _ => .error (.stuck "cast operand")
      | .error f => .error f
  | .ite c a b =>
      match eval Γ chk ρ c with
      | .ok (.bool true) => eval Γ chk ρ a
      | .ok (.bool false) => eval Γ chk ρ b
      | .ok _ => .error (.stuck "if on non-bool")
      | .error f => .error f
  | .letE v e body =>
      match eval Γ chk ρ e with
      | .ok x => eval Γ chk (ρ.set v x) body
      | .error f => .error f
  | .assertE c body =>
      match eval Γ chk ρ c with
      | .ok (.bool true) => eval Γ chk ρ body
      | .ok (.bool false) => .error (.panic "assertion failed")
      | .ok _ => .error (.stuck "assert on non-bool")
      | .error f => .error f
  | .extract W n e s =>
      match eval Γ chk ρ e with
      | .error f => .error f
      | .ok x => match eval Γ chk ρ s with
        | .error f => .error f
        | .ok y => evalExtract chk W n x y
  | .uintNew n e =>
      match eval Γ chk ρ e with
      | .ok (.int t x) =>
          if t ≠ ITy.unsignedOf n then .error (.stuck "UInt::new operand type")
          else if x < 2 ^ n then .ok (.uint n x) else .error (.panic "UInt::new: value <= MAX")
      | .ok _ => .error (.stuck "UInt::new operand")
      | .error f => .error f
  | .uintValue e =>
      match eval Γ chk ρ e with
      | .ok (.uint n x) => .ok (.int (ITy.unsignedOf n) x)
      | .ok _ => .error (.stuck "value() receiver")
      | .error f => .error f
  | .customNew ty e =>
      match eval Γ chk ρ e with
      | .ok x => Γ.new ty x
      | .error f => .error f
  | .customRaw e =>
      match eval Γ chk ρ e with
      | .ok x => Γ.raw x
      | .error f => .error f

end Bb
