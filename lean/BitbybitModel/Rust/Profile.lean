import BitbybitModel.Rust.Expr
/-!
# A panic-free checked evaluation agrees with the unchecked one

If the evaluation with overflow checks (`chk = true`, the dev profile) yields a value, the wrapping
evaluation (`chk = false`, release) yields the same value. Hence "no generated operation panics under
checks" implies "results are identical in both profiles".
-/
namespace Bb

theorem evalBin_checked_ok (op : BinOp) (x y v : Val) (h : evalBin true op x y = .ok v) :
    evalBin false op x y = .ok v := by
  cases op <;> cases x <;> cases y <;> simp only [evalBin] at h ⊢ <;> (try exact h) <;>
    (repeat' split at h) <;> simp_all <;> (try (rename_i h1 _; obtain ⟨rfl, h2⟩ := h1; exact h2))

theorem evalExtract_checked_ok (W : ITy) (n : Nat) (x s v : Val) (h : evalExtract true W n x s = .ok v) :
    evalExtract false W n x s = .ok v := by
  unfold evalExtract at h ⊢
  split
  · rename_i t a st
    simp only at h
    split at h
    · simp_all
    · rename_i hne
      split at h
      · rename_i hlt; simp [hne, hlt] at h ⊢; exact h
      · simp at h
  · simp_all

theorem eval_checked_ok (Γ : CustomEnv) (e : Expr) : ∀ (ρ : Env) (v : Val),
    eval Γ true ρ e = .ok v → eval Γ false ρ e = .ok v := by
  induction e with
  | lit t n => intro ρ v h; simpa [eval] using h
  | var x => intro ρ v h; simpa [eval] using h
  | bin op a b iha ihb =>
    intro ρ v h
    simp only [eval] at h ⊢
    cases ha : eval Γ true ρ a with
    | error f => simp [ha] at h
    | ok x =>
      cases hb : eval Γ true ρ b with
      | error f => simp [ha, hb] at h
      | ok y =>
        simp only [ha, hb] at h
        simp only [iha ρ x ha, ihb ρ y hb]
        exact evalBin_checked_ok op x y v h
  | not a ih =>
    intro ρ v h
    simp only [eval] at h ⊢
    cases ha : eval Γ true ρ a with
    | error f => simp [ha] at h
    | ok x => simp only [ha] at h; simp only [ih ρ x ha]; exact h
  | cast a ty ih =>
    intro ρ v h
    simp only [eval] at h ⊢
    cases ha : eval Γ true ρ a with
    | error f => simp [ha] at h
    | ok x => simp only [ha] at h; simp only [ih ρ x ha]; exact h
  | ite c a b ihc iha ihb =>
    intro ρ v h
    simp only [eval] at h ⊢
    cases hc : eval Γ true ρ c with
    | error f => simp [hc] at h
    | ok x =>
      simp only [hc] at h; simp only [ihc ρ x hc]
      cases x with
      | bool b => cases b <;> simp_all
      | _ => simp at h
  | letE x e body ihe ihb =>
    intro ρ v h
    simp only [eval] at h ⊢
    cases he : eval Γ true ρ e with
    | error f => simp [he] at h
    | ok x => simp only [he] at h; simp only [ihe ρ x he]; exact ihb _ v h
  | assertE c body ihc ihb =>
    intro ρ v h
    simp only [eval] at h ⊢
    cases hc : eval Γ true ρ c with
    | error f => simp [hc] at h
    | ok x =>
      simp only [hc] at h; simp only [ihc ρ x hc]
      cases x with
      | bool b => cases b <;> simp_all
      | _ => simp at h
  | extract W n e s ihe ihs =>
    intro ρ v h
    simp only [eval] at h ⊢
    cases he : eval Γ true ρ e with
    | error f => simp [he] at h
    | ok x =>
      cases hs : eval Γ true ρ s with
      | error f => simp [he, hs] at h
      | ok y =>
        simp only [he, hs] at h
        simp only [ihe ρ x he, ihs ρ y hs]
        exact evalExtract_checked_ok W n x y v h
  | uintNew n e ih =>
    intro ρ v h
    simp only [eval] at h ⊢
    cases he : eval Γ true ρ e with
    | error f => simp [he] at h
    | ok x => simp only [he] at h; simp only [ih ρ x he]; exact h
  | uintValue e ih =>
    intro ρ v h
    simp only [eval] at h ⊢
    cases he : eval Γ true ρ e with
    | error f => simp [he] at h
    | ok x => simp only [he] at h; simp only [ih ρ x he]; exact h
  | customNew ty e ih =>
    intro ρ v h
    simp only [eval] at h ⊢
    cases he : eval Γ true ρ e with
    | error f => simp [he] at h
    | ok x => simp only [he] at h; simp only [ih ρ x he]; exact h
  | customRaw e ih =>
    intro ρ v h
    simp only [eval] at h ⊢
    cases he : eval Γ true ρ e with
    | error f => simp [he] at h
    | ok x => simp only [he] at h; simp only [ih ρ x he]; exact h

end Bb
