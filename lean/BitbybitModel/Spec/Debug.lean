/-!
# Reference rendering of `core::fmt::DebugStruct` / `DebugTuple` output (`{:?}` and `{:#?}`)

`core::fmt` is modelled, not verified; the differential check validates it against the real formatter.
-/
namespace Bb

inductive DVal where
  | atom (s : String)                                  -- integers, bools, unit enum variants
  | tuple (name : String) (arg : DVal)                 -- `Ok(..)`, `Err(..)`
  | struct (name : String) (fields : List (String × DVal))
  deriving Repr, Inhabited

def pad (n : Nat) : String := String.ofList (List.replicate (4 * n) ' ')

mutual
  def DVal.render (alt : Bool) (ind : Nat) : DVal → String
    | .atom s => s
    | .tuple name arg =>
      if alt then name ++ "(\n" ++ pad (ind + 1) ++ arg.render alt (ind + 1) ++ ",\n" ++ pad ind ++ ")"
      else name ++ "(" ++ arg.render alt ind ++ ")"
    | .struct name fields =>
      match fields with
      | [] => name
      | _ =>
        if alt then name ++ " {\n" ++ renderFieldsAlt ind fields ++ pad ind ++ "}"
        else name ++ " { " ++ renderFields fields ++ " }"
  def renderFieldsAlt (ind : Nat) : List (String × DVal) → String
    | [] => ""
    | (n, v) :: rest => pad (ind + 1) ++ n ++ ": " ++ v.render true (ind + 1) ++ ",\n" ++ renderFieldsAlt ind rest
  def renderFields : List (String × DVal) → String
    | [] => ""
    | [(n, v)] => n ++ ": " ++ v.render false 0
    | (n, v) :: rest => n ++ ": " ++ v.render false 0 ++ ", " ++ renderFields rest
end

end Bb
