import BitbybitModel.Macro.Decl
/-!
# Reference semantics: a bitfield as an N-bit register

Written without reference to the macro's templates. Bit `k` of a natural number weighs `2^k`
(`Nat.testBit`). A field is a list of ranges; range `j` supplies / receives the value's bits
`t_j … t_j + len_j - 1`, where `t_j` is the sum of the lengths of the ranges before it.
-/
namespace Bb

/-- the number whose bit `k` (for `k < W`) is `f k` -/
def ofBitsBelow : Nat → (Nat → Bool) → Nat
  | 0, _ => 0
  | W + 1, f => ofBitsBelow W f ||| (if f W then 2 ^ W else 0)

/-- bits `lo … lo+len-1` of `raw`, moved down to bit 0 -/
def field (raw lo len : Nat) : Nat := (raw >>> lo) % 2 ^ len

/-- concatenation of the ranges (each moved up by `off`), first range least significant,
    the first range landing at target bit `tgt` -/
def gather (raw off : Nat) : List Rng → Nat → Nat
  | [], _ => 0
  | r :: rs, tgt => (field raw (r.lo + off) r.len) <<< tgt ||| gather raw off rs (tgt + r.len)

def Rng.covers (r : Rng) (off p : Nat) : Bool := decide (r.lo + off ≤ p) && decide (p < r.lo + off + r.len)

/-- the value bit a write of `v` to the ranges `rs` (moved up by `off`) supplies for position `p`;
    `none` when no range covers `p`. (For lists that name a bit twice – outside every guarantee – the
    first range wins here.) -/
def written (v off : Nat) : List Rng → Nat → Nat → Option Bool
  | [], _, _ => none
  | r :: rs, t, p => if r.covers off p then some (v.testBit (t + (p - (r.lo + off))))
                     else written v off rs (t + r.len) p

/-- the register after writing `v` to the field: every covered position takes the value's bit, every
    other position keeps the old bit -/
def writeSpec (W raw v off : Nat) (rs : List Rng) : Nat :=
  ofBitsBelow W (fun p => (written v off rs 0 p).getD (raw.testBit p))

def Rng.disj (r q : Rng) : Bool := decide (r.lo + r.len ≤ q.lo) || decide (q.lo + q.len ≤ r.lo)

/-- ranges are pairwise disjoint (interval form, computable) -/
def pairwiseDisjoint : List Rng → Bool
  | [] => true
  | r :: rs => rs.all (r.disj ·) && pairwiseDisjoint rs

/-- a write operation on a register: field ranges, element offset, value -/
structure WriteOp where
  rs : List Rng
  off : Nat
  v : Nat
  deriving Repr

/-- the bit supplied by the last write in `ops` (oldest first) that covers `p`, if any -/
def lastWriteIn : List WriteOp → Nat → Option Bool
  | [], _ => none
  | op :: ops, p =>
    match lastWriteIn ops p with
    | some b => some b                      -- a later write wins
    | none => written op.v op.off op.rs 0 p

/-- last-write-wins: the bit at position `p` after the history `ops` (oldest first) from `init` -/
def lastWrite (init : Nat) (ops : List WriteOp) (p : Nat) : Bool :=
  (lastWriteIn ops p).getD (init.testBit p)

end Bb
