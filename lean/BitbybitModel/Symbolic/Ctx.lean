import BitbybitModel.Symbolic.Nf
import BitbybitModel.Macro.Bitfield
/-! # The normaliser's context for each kind of generated body -/
namespace Bb.TV
open Bb Bb.Nf

def getterCtx (B : Base) : Ctx := { rawTy := B.W }

/-- type of `field_value` in `with_f` / `set_f` -/
def setterArgTy (fd : FieldDef) : ArgTy :=
  match fd.custom with
  | none => if fd.fieldTypeSize = 0 then .bool else if fd.useRegularInt then .int fd.primitiveType else .uint fd.totalBits
  | some _ => if fd.useRegularInt then .custom (.int fd.primitiveType) else .custom (.uint fd.totalBits)

def setterCtx (B : Base) (fd : FieldDef) : Ctx := { rawTy := B.W, arg := setterArgTy fd, argVar := .fieldValue }

/-- `raw_value()` -/
def rawValueCtx (B : Base) : Ctx := { rawTy := B.W }

/-- `new_with_raw_value(value)` -/
def newWithRawCtx (B : Base) : Ctx :=
  { rawTy := B.W, arg := if B.isArbitrary then .uint B.exposed else .int B.W, argVar := .value }

end Bb.TV
