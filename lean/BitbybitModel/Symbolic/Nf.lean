import BitbybitModel.Rust.Expr
/-!
# A bit-provenance normaliser for generated bodies (`nf`)

For a fixed layout and a fixed (concrete) `index`, every expression the macro emits is *bit-parallel*: each bit
of the result is a constant or one bit of an input (`self.raw_value`, the written value), possibly negated;
shift amounts, masks and `+ - *` involve constants only. `nf` evaluates an `Expr` over that symbolic domain.
Its result determines the value of the expression for **every** raw value and every written value
(`Symbolic/NfSound.lean`), so two bodies with the same normal form are interchangeable on that layout for all
inputs and both build profiles – translation validation of the macro's real output against the body the model
generates, used when the two are not syntactically equal (a harmless rewrite of a template).

`nf` answers `none` whenever it cannot establish that: a possible overflow, a shift amount that is not a
constant, two different input bits meeting in one position, an ill-typed operation. `none` never counts as
"equal".

Core Lean only (the driver links this file).
-/
namespace Bb.Nf
open Bb

/-- one input bit, possibly negated: bit `j` of the raw value (`arg = false`) / of the written value (`arg = true`) -/
structure Lit where
  arg : Bool
  j : Nat
  neg : Bool
  deriving DecidableEq, Repr, Inhabited

def Lit.eval (raw fv : Nat) (l : Lit) : Bool := (if l.arg then fv else raw).testBit l.j != l.neg

def Lit.lt (a b : Lit) : Bool :=
  (!a.arg && b.arg) || (a.arg == b.arg && (a.j < b.j || (a.j == b.j && (!a.neg && b.neg))))

/-- insertion into a sorted list of literals without duplicates (the canonical form of a disjunction) -/
def insertLit (l : Lit) : List Lit → List Lit
  | [] => [l]
  | x :: xs => if l = x then x :: xs else if Lit.lt l x then l :: x :: xs else x :: insertLit l xs

/-- where one bit of a value comes from -/
inductive Src where
  | c (b : Bool)                              -- a constant
  | inp (arg : Bool) (j : Nat) (neg : Bool)   -- bit `j` of the raw value (`arg = false`) / of the written value (`arg = true`), negated if `neg`
  | ors (ls : List Lit)                       -- the disjunction of two or more input bits (writes through a list that names a bit twice)
  | x2 (g : Bool) (j : Nat) (g' : Bool) (j' : Nat) (neg : Bool)   -- bit `(g, j)` xor bit `(g', j')` (two different positions, the first one smaller), negated if `neg` – the intermediate value of the merge idiom `a ^ ((a ^ b) & m)`
  | top                                       -- poison: not expressible (never part of a result)
  deriving DecidableEq, Repr, Inhabited

def Src.eval (raw fv : Nat) : Src → Bool
  | .c b => b
  | .inp false j n => raw.testBit j != n
  | .inp true j n => fv.testBit j != n
  | .ors ls => ls.any (Lit.eval raw fv)
  | .x2 g j g' j' n => (((if g then fv else raw).testBit j != (if g' then fv else raw).testBit j') != n)
  | .top => false

def Src.not : Src → Src
  | .c b => .c (!b)
  | .inp a j n => .inp a j (!n)
  | .ors _ => .top
  | .x2 g j g' j' n => .x2 g j g' j' (!n)
  | .top => .top

def Src.and (x y : Src) : Src :=
  match x, y with
  | .top, _ => .top
  | _, .top => .top
  | .c false, _ => .c false
  | _, .c false => .c false
  | .c true, s => s
  | s, .c true => s
  | .ors a, b => if Src.ors a = b then .ors a else .top
  | a, .ors b => if a = Src.ors b then .ors b else .top
  | a, b => if a = b then a else if a = b.not then .c false else .top

def Src.or (x y : Src) : Src :=
  match x, y with
  | .top, _ => .top
  | _, .top => .top
  | .c true, _ => .c true
  | _, .c true => .c true
  | .c false, s => s
  | s, .c false => s
  | .ors a, .ors b => .ors (a.foldr insertLit b)
  | .ors a, .inp g j n => .ors (insertLit ⟨g, j, n⟩ a)
  | .inp g j n, .ors b => .ors (insertLit ⟨g, j, n⟩ b)
  | .inp g j n, .inp g' j' n' =>
      if Src.inp g j n = .inp g' j' n' then .inp g j n
      else if g = g' ∧ j = j' then .c true
      else .ors (insertLit ⟨g, j, n⟩ [⟨g', j', n'⟩])
  | _, _ => .top

/-- position `(g, j)` comes before `(g', j')`: raw bits before value bits, then by index -/
def posLt (g : Bool) (j : Nat) (g' : Bool) (j' : Nat) : Bool := (!g && g') || (g == g' && j < j')

/-- the exclusive or of two input bits at different positions, in canonical order -/
def mk2 (g : Bool) (j : Nat) (n : Bool) (g' : Bool) (j' : Nat) (n' : Bool) : Src :=
  if posLt g j g' j' then .x2 g j g' j' (n != n') else .x2 g' j' g j (n != n')

/-- `(p1 ^ p2 ^ n) ^ (bit (g, j) ^ m)`: one of the two positions cancels, or there is no normal form -/
def x2inp (g1 : Bool) (j1 : Nat) (g2 : Bool) (j2 : Nat) (n : Bool) (g : Bool) (j : Nat) (m : Bool) : Src :=
  if g = g1 ∧ j = j1 then .inp g2 j2 (n != m) else if g = g2 ∧ j = j2 then .inp g1 j1 (n != m) else .top

/-- `x ^ y` on one position: constants, an input bit against a constant, the same input bit twice, two different input
    bits (`x2`), and an `x2` against one of its own bits (which cancels) -/
def Src.xor (x y : Src) : Src :=
  match x, y with
  | .top, _ => .top
  | _, .top => .top
  | .c false, s => s
  | s, .c false => s
  | .c true, s => s.not
  | s, .c true => s.not
  | .inp g j n, .inp g' j' n' => if g = g' ∧ j = j' then .c (n != n') else mk2 g j n g' j' n'
  | .x2 g1 j1 g2 j2 n, .inp g j m => x2inp g1 j1 g2 j2 n g j m
  | .inp g j m, .x2 g1 j1 g2 j2 n => x2inp g1 j1 g2 j2 n g j m
  | .x2 g1 j1 g2 j2 n, .x2 g1' j1' g2' j2' n' =>
      if g1 = g1' ∧ j1 = j1' ∧ g2 = g2' ∧ j2 = j2' then .c (n != n') else .top
  | _, _ => .top

/-- `if c { x } else { y }`, bit by bit -/
def Src.mux (c x y : Src) : Src :=
  if c = .top ∨ x = .top ∨ y = .top then .top
  else if x = y then x
  else match c with
    | .c true => x
    | .c false => y
    | c => if x = .c true ∧ y = .c false then c
           else if x = .c false ∧ y = .c true then c.not
           else .top

def noTop (l : List Src) : Bool := l.all (fun s => s != .top)

/-- the number whose bit `k` is `l[k]` -/
def den (raw fv : Nat) : List Src → Nat
  | [] => 0
  | s :: l => (s.eval raw fv).toNat + 2 * den raw fv l

/-- all bits are constants: the value -/
def isConst : List Src → Option Nat
  | [] => some 0
  | .c b :: l => (isConst l).map (fun n => b.toNat + 2 * n)
  | _ :: _ => none

/-- the low `w` bits of `n` as constants -/
def constV : Nat → Nat → List Src
  | 0, _ => []
  | w + 1, n => .c (n % 2 == 1) :: constV w (n / 2)

def zeros (n : Nat) : List Src := List.replicate n (.c false)

/-- bits of an input: `inp arg from … from+n-1` -/
def inputV (arg : Bool) : Nat → Nat → List Src
  | _, 0 => []
  | k, n + 1 => .inp arg k false :: inputV arg (k + 1) n

/-- `x != 0` as one bit, if expressible -/
def nonzero : List Src → Src
  | [] => .c false
  | s :: l => if s = .c false then nonzero l else if l.all (fun t => t == .c false) then s else
      (if s = .c true then .c true else .top)

/-- `x == y` for a constant `y` as one bit, if expressible: every position must agree with `y`'s bit -/
def eqConst : List Src → Nat → Src
  | [], y => .c (y == 0)
  | s :: l, y => Src.and (if y % 2 == 1 then s else s.not) (eqConst l (y / 2))

/-- symbolic values -/
inductive SVal where
  | int (t : ITy) (l : List Src)      -- `l.length = t.bits`
  | bool (s : Src)
  | uint (n : Nat) (l : List Src)     -- `l.length = n`
  | cust                              -- the custom-typed written value itself (only `.raw_value()` applies to it)
  deriving DecidableEq, Repr, Inhabited

/-- symbolic results -/
inductive SRes where
  | ok (v : SVal)
  | panic                             -- panics for every input, in both profiles
  | call (ty : Nat) (v : SVal)        -- `T::new_with_raw_value(v)` of user type `ty`
  deriving DecidableEq, Repr, Inhabited

/-- raw value of the custom-typed argument -/
inductive RawRepr where
  | int (t : ITy)
  | uint (n : Nat)
  deriving DecidableEq, Repr, Inhabited

/-- type of the written value (`field_value` / `value`) -/
inductive ArgTy where
  | none
  | bool
  | int (t : ITy)
  | uint (n : Nat)
  | custom (r : RawRepr)
  deriving DecidableEq, Repr, Inhabited

structure Ctx where
  rawTy : ITy
  arg : ArgTy := .none
  argVar : Var := .fieldValue
  index : Option Nat := none
  deriving Repr

abbrev SEnv := Var → Option SVal

def SEnv.set (σ : SEnv) (v : Var) (x : SVal) : SEnv := fun w => if w = v then some x else σ w

def argSym : ArgTy → Option SVal
  | .none => none
  | .bool => some (.bool (.inp true 0 false))
  | .int t => some (.int t (inputV true 0 t.bits))
  | .uint n => some (.uint n (inputV true 0 n))
  | .custom _ => some .cust

def rawReprSym : RawRepr → SVal
  | .int t => .int t (inputV true 0 t.bits)
  | .uint n => .uint n (inputV true 0 n)

def Ctx.init (ctx : Ctx) : SEnv := fun v =>
  if v = .raw then some (.int ctx.rawTy (inputV false 0 ctx.rawTy.bits))
  else if v = ctx.argVar then argSym ctx.arg
  else if v = .index then ctx.index.bind (fun i => if i < 2 ^ 64 then some (.int .usize (constV 64 i)) else none)
  else none

/-- at every position at most one of the two lists is not the constant `0` (then `+` cannot carry: it is `|`) -/
def disjointL : List Src → List Src → Bool
  | x :: xs, y :: ys => (x == .c false || y == .c false) && disjointL xs ys
  | _, _ => true

def mkInt (t : ITy) (l : List Src) : Option SRes :=
  if noTop l then some (.ok (.int t l)) else none

/-- the binary operators on symbolic operands -/
def binS (op : BinOp) (x y : SVal) : Option SRes :=
  match op, x, y with
  | .shl, .int t a, .int _ s =>
      match isConst s with
      | some sv => if sv < t.bits then some (.ok (.int t (zeros sv ++ a.take (t.bits - sv)))) else none
      | none => none
  | .shr, .int t a, .int _ s =>
      if t.signed then
        (match isConst s with
         | some sv => if sv < t.bits then some (.ok (.int t (a.drop sv ++ List.replicate sv (a.getLast?.getD (.c false))))) else none
         | none => none) else
      match isConst s with
      | some sv => if sv < t.bits then some (.ok (.int t (a.drop sv ++ zeros sv))) else none
      | none => none
  | .and, .int t a, .int t' b => if t = t' then mkInt t (List.zipWith Src.and a b) else none
  | .or, .int t a, .int t' b => if t = t' then mkInt t (List.zipWith Src.or a b) else none
  | .add, .int t a, .int t' b =>
      if t ≠ t' ∨ t.signed then none else
      match isConst a, isConst b with
      | some x, some y => if x + y < 2 ^ t.bits then some (.ok (.int t (constV t.bits (x + y)))) else none
      | _, _ => if disjointL a b then mkInt t (List.zipWith Src.or a b) else none
  | .sub, .int t a, .int t' b =>
      if t ≠ t' ∨ t.signed then none else
      match isConst a, isConst b with
      | some x, some y => if y ≤ x then some (.ok (.int t (constV t.bits (x - y)))) else none
      | _, _ => none
  | .mul, .int t a, .int t' b =>
      if t ≠ t' ∨ t.signed then none else
      match isConst a, isConst b with
      | some x, some y => if x * y < 2 ^ t.bits then some (.ok (.int t (constV t.bits (x * y)))) else none
      | _, _ => none
  | .ne, .int t a, .int t' b =>
      if t ≠ t' then none else
      match isConst b with
      | some y =>
        if y = 0 then (if nonzero a = .top then none else some (.ok (.bool (nonzero a))))
        else (match isConst a with
              | some x => some (.ok (.bool (.c (x != y))))
              | none => none)
      | none => none
  | .lt, .int t a, .int t' b =>
      if t ≠ t' ∨ t.signed then none else
      match isConst a, isConst b with
      | some x, some y => some (.ok (.bool (.c (decide (x < y)))))
      | some 0, none => if nonzero b = .top then none else some (.ok (.bool (nonzero b)))     -- `0 < x` (written `x > 0`) is `x != 0`
      | _, _ => none
  | .bxor, .int t a, .int t' b => if t = t' then mkInt t (List.zipWith Src.xor a b) else none
  | .eqq, .int t a, .int t' b =>
      if t ≠ t' then none else
      match isConst b with
      | some y => if eqConst a y = .top then none else some (.ok (.bool (eqConst a y)))
      | none => none
  | _, _, _ => none

/-- Rust `as` on symbolic bits -/
def castS (t ty : ITy) (l : List Src) : List Src :=
  if ty.bits ≤ t.bits then l.take ty.bits
  else if t.signed then l ++ List.replicate (ty.bits - t.bits) (l.getLast?.getD (.c false))
  else l ++ zeros (ty.bits - t.bits)

def nf (ctx : Ctx) (σ : SEnv) : Expr → Option SRes
  | .lit t n => if n < 2 ^ t.bits then some (.ok (.int t (constV t.bits n))) else none
  | .var v => (σ v).map .ok
  | .bin op a b =>
      match nf ctx σ a with
      | some .panic => some .panic
      | some (.ok x) =>
        (match nf ctx σ b with
         | some .panic => some .panic
         | some (.ok y) => binS op x y
         | _ => none)
      | _ => none
  | .not a =>
      match nf ctx σ a with
      | some .panic => some .panic
      | some (.ok (.int t l)) => if t.signed then none else mkInt t (l.map Src.not)
      | some (.ok (.bool s)) => if s.not = .top then none else some (.ok (.bool s.not))
      | _ => none
  | .cast a ty =>
      match nf ctx σ a with
      | some .panic => some .panic
      | some (.ok (.int t l)) => some (.ok (.int ty (castS t ty l)))
      | some (.ok (.bool s)) => some (.ok (.int ty (s :: zeros (ty.bits - 1))))
      | _ => none
  | .ite c a b =>
      match nf ctx σ c with
      | some .panic => some .panic
      | some (.ok (.bool (.c true))) => nf ctx σ a
      | some (.ok (.bool (.c false))) => nf ctx σ b
      | some (.ok (.bool s)) =>
        (match nf ctx σ a, nf ctx σ b with
         | some (.ok (.int t x)), some (.ok (.int t' y)) =>
             if t = t' then mkInt t (List.zipWith (Src.mux s) x y) else none
         | _, _ => none)
      | _ => none
  | .letE v e body =>
      match nf ctx σ e with
      | some .panic => some .panic
      | some (.ok x) => nf ctx (σ.set v x) body
      | _ => none
  | .assertE c body =>
      match nf ctx σ c with
      | some .panic => some .panic
      | some (.ok (.bool (.c true))) => nf ctx σ body
      | some (.ok (.bool (.c false))) => some .panic
      | _ => none
  | .extract W n e s =>
      match nf ctx σ e with
      | some .panic => some .panic
      | some (.ok (.int t l)) =>
        (match nf ctx σ s with
         | some .panic => some .panic
         | some (.ok (.int .usize sl)) =>
           if t ≠ W ∨ W.signed then none else
           (match isConst sl with
            | some st =>
              if st + n < 2 ^ 64 then
                (if st + n ≤ W.bits then some (.ok (.uint n ((l.drop st).take n))) else some .panic)
              else none
            | none => none)
         | _ => none)
      | _ => none
  | .uintNew n e =>
      match nf ctx σ e with
      | some .panic => some .panic
      | some (.ok (.int t l)) =>
          if t ≠ ITy.unsignedOf n ∨ t.bits < n then none
          else if (l.drop n).all (fun s => s == .c false) then some (.ok (.uint n (l.take n))) else none
      | _ => none
  | .uintValue e =>
      match nf ctx σ e with
      | some .panic => some .panic
      | some (.ok (.uint n l)) =>
          if n ≤ (ITy.unsignedOf n).bits then some (.ok (.int (ITy.unsignedOf n) (l ++ zeros ((ITy.unsignedOf n).bits - n)))) else none
      | _ => none
  | .customNew ty e =>
      match nf ctx σ e with
      | some .panic => some .panic
      | some (.ok x) => some (.call ty x)
      | _ => none
  | .customRaw e =>
      match nf ctx σ e with
      | some .panic => some .panic
      | some (.ok .cust) =>
          (match ctx.arg with
           | .custom r => some (.ok (rawReprSym r))
           | _ => none)
      | _ => none

/-- both bodies have a normal form and it is the same one -/
def eqNf (ctx : Ctx) (a m : Expr) : Bool :=
  match nf ctx ctx.init a, nf ctx ctx.init m with
  | some r, some r' => r == r'
  | _, _ => false

/-- Equivalence of two bodies of an array accessor (`assert!(index < K)` first, then the element access),
    decided index by index; of any other body, decided directly. -/
def bodiesEquiv (ctx : Ctx) (a m : Expr) : Bool :=
  match a, m with
  | .assertE (.bin .lt (.var .index) (.lit .usize k)) a', .assertE (.bin .lt (.var .index) (.lit .usize k')) m' =>
      k == k' && decide (k < 2 ^ 64) && (List.range k).all (fun i => eqNf { ctx with index := some i } a' m')
  | a, m => eqNf { ctx with index := none } a m


/-! ### distinguishing inputs

When two bodies have *different* normal forms, a raw value and a written value on which they evaluate differently
can be read off the first position where the provenances differ. These functions only *propose* an input (the run
executes the real code on it and compares with the reference semantics); nothing is proved about them. -/

/-- `(raw, written value)` making `a` true and `b` false, or the other way round -/
def srcWitness (a b : Src) : Option (Nat × Nat) :=
  let setBit (arg : Bool) (j : Nat) (v : Bool) (p : Nat × Nat) : Nat × Nat :=
    if !v then p else if arg then (p.1, p.2 ||| (1 <<< j)) else (p.1 ||| (1 <<< j), p.2)
  match a, b with
  | .c x, .c y => if x = y then none else some (0, 0)
  | .c x, .inp arg j n => some (setBit arg j (!x != n) (0, 0))
  | .inp arg j n, .c y => some (setBit arg j (!y != n) (0, 0))
  | .inp a1 j1 n1, .inp a2 j2 n2 =>
      if a1 = a2 ∧ j1 = j2 then (if n1 = n2 then none else some (0, 0))
      else some (setBit a2 j2 n2 (setBit a1 j1 (!n1) (0, 0)))
  | _, _ => none

def listWitness : List Src → List Src → Option (Nat × Nat)
  | x :: xs, y :: ys => if x = y then listWitness xs ys else (srcWitness x y).orElse (fun _ => listWitness xs ys)
  | _, _ => none

def svalWitness : SVal → SVal → Option (Nat × Nat)
  | .int _ a, .int _ b => listWitness a b
  | .uint _ a, .uint _ b => listWitness a b
  | .bool a, .bool b => srcWitness a b
  | _, _ => none

def resWitness : SRes → SRes → Option (Nat × Nat)
  | .ok a, .ok b => svalWitness a b
  | .call _ a, .call _ b => svalWitness a b
  | .panic, .ok _ => some (0, 0)
  | .ok _, .panic => some (0, 0)
  | _, _ => none

/-- index, raw value and written value proposed as a distinguishing input for two bodies that are not equivalent -/
def bodiesWitness (ctx : Ctx) (a m : Expr) : Option (Option Nat × Nat × Nat) :=
  let atCtx (c : Ctx) (x y : Expr) : Option (Nat × Nat) :=
    match nf c c.init x, nf c c.init y with
    | some r, some r' => resWitness r r'
    | _, _ => none
  match a, m with
  | .assertE (.bin .lt (.var .index) (.lit .usize k)) a', .assertE (.bin .lt (.var .index) (.lit .usize _)) m' =>
      (List.range k).findSome? (fun i => (atCtx { ctx with index := some i } a' m').map (fun w => (some i, w.1, w.2)))
  | a, m => (atCtx { ctx with index := none } a m).map (fun w => (none, w.1, w.2))

end Bb.Nf
