import BitbybitModel.Symbolic.Nf
import BitbybitModel.Lemmas.Bits
namespace Bb.Nf
open Bb

def evalAt (raw fv : Nat) (l : List Src) (k : Nat) : Bool := (l[k]?.map (Src.eval raw fv)).getD false

theorem testBit_den (raw fv : Nat) : ∀ (l : List Src) (k : Nat), (den raw fv l).testBit k = evalAt raw fv l k := by
  intro l
  induction l with
  | nil => intro k; simp [den, evalAt]
  | cons s l ih =>
    intro k
    cases k with
    | zero =>
      simp only [den, evalAt, Nat.testBit_zero, List.getElem?_cons_zero, Option.map_some, Option.getD_some]
      cases s.eval raw fv <;> simp <;> omega
    | succ k =>
      have : ((s.eval raw fv).toNat + 2 * den raw fv l) / 2 = den raw fv l := by
        cases s.eval raw fv <;> simp <;> omega
      simp only [den, Nat.testBit_succ, this, ih, evalAt, List.getElem?_cons_succ]

theorem den_lt (raw fv : Nat) : ∀ l : List Src, den raw fv l < 2 ^ l.length := by
  intro l
  induction l with
  | nil => simp [den]
  | cons s l ih =>
    simp only [den, List.length_cons, Nat.pow_succ]
    cases s.eval raw fv <;> simp <;> omega

theorem evalAt_ge {raw fv : Nat} {l : List Src} {k : Nat} (h : l.length ≤ k) : evalAt raw fv l k = false := by
  simp [evalAt, List.getElem?_eq_none h]

/-- two values below `2^n` with the same low bits -/
theorem eq_of_evalAt {raw fv x : Nat} {l : List Src} (hx : x < 2 ^ l.length)
    (h : ∀ k, k < l.length → x.testBit k = evalAt raw fv l k) : x = den raw fv l := by
  apply Nat.eq_of_testBit_eq
  intro k
  rw [testBit_den]
  by_cases hk : k < l.length
  · exact h k hk
  · rw [evalAt_ge (by omega), testBit_eq_false_of_lt hx (by omega)]


/-! ### constants, inputs -/

theorem length_constV : ∀ (w n : Nat), (constV w n).length = w := by
  intro w; induction w with
  | zero => intro n; rfl
  | succ w ih => intro n; simp [constV, ih]

theorem den_constV (raw fv : Nat) : ∀ (w n : Nat), den raw fv (constV w n) = n % 2 ^ w := by
  intro w; induction w with
  | zero => intro n; simp [constV, den, Nat.mod_one]
  | succ w ih =>
    intro n
    simp only [constV, den, ih, Src.eval]
    rw [Nat.pow_succ', Nat.mod_mul]
    rcases Nat.mod_two_eq_zero_or_one n with h | h <;> simp [h]

theorem isConst_den (raw fv : Nat) : ∀ (l : List Src) (n : Nat), isConst l = some n → den raw fv l = n := by
  intro l
  induction l with
  | nil => intro n h; simp [isConst] at h; simp [den, h]
  | cons s l ih =>
    intro n h
    cases s with
    | c b =>
      simp only [isConst, Option.map_eq_some_iff] at h
      obtain ⟨m, hm, rfl⟩ := h
      simp [den, Src.eval, ih m hm]
    | inp a j ng => simp [isConst] at h
    | ors ls => simp [isConst] at h
    | x2 g j g' j' ng => simp [isConst] at h
    | top => simp [isConst] at h

theorem length_zeros (n : Nat) : (zeros n).length = n := by simp [zeros]

theorem length_inputV (a : Bool) : ∀ (n k : Nat), (inputV a k n).length = n := by
  intro n; induction n with
  | zero => intro k; rfl
  | succ n ih => intro k; simp [inputV, ih]

theorem getElem?_inputV (a : Bool) : ∀ (n k j : Nat), (inputV a k n)[j]? = if j < n then some (.inp a (k + j) false) else none := by
  intro n; induction n with
  | zero => intro k j; simp [inputV]
  | succ n ih =>
    intro k j
    cases j with
    | zero => simp [inputV]
    | succ j =>
      simp only [inputV, List.getElem?_cons_succ, ih]
      by_cases h : j < n
      · have : j + 1 < n + 1 := by omega
        simp [h, this]; omega
      · have : ¬ j + 1 < n + 1 := by omega
        simp [h, this]

theorem den_inputV_raw (raw fv n : Nat) : den raw fv (inputV false 0 n) = raw % 2 ^ n := by
  symm
  apply eq_of_evalAt
  · rw [length_inputV]; exact Nat.mod_lt _ (Nat.two_pow_pos _)
  · intro k hk
    rw [length_inputV] at hk
    simp [evalAt, getElem?_inputV, hk, Src.eval, Nat.testBit_mod_two_pow]

theorem den_inputV_fv (raw fv n : Nat) : den raw fv (inputV true 0 n) = fv % 2 ^ n := by
  symm
  apply eq_of_evalAt
  · rw [length_inputV]; exact Nat.mod_lt _ (Nat.two_pow_pos _)
  · intro k hk
    rw [length_inputV] at hk
    simp [evalAt, getElem?_inputV, hk, Src.eval, Nat.testBit_mod_two_pow]


/-! ### one bit -/

@[simp] theorem Src.eval_c (raw fv : Nat) (b : Bool) : (Src.c b).eval raw fv = b := rfl

theorem Src.eval_inp (raw fv : Nat) (g : Bool) (j : Nat) (n : Bool) :
    (Src.inp g j n).eval raw fv = Lit.eval raw fv ⟨g, j, n⟩ := by
  cases g <;> simp [Src.eval, Lit.eval]

theorem Src.eval_not (raw fv : Nat) (s : Src) (h : s.not ≠ .top) : (s.not).eval raw fv = !s.eval raw fv := by
  cases s with
  | c b => simp [Src.not, Src.eval]
  | inp a j n => cases a <;> cases n <;> simp [Src.not, Src.eval]
  | ors ls => exact absurd rfl h
  | x2 g j g' j' n => cases n <;> simp [Src.not, Src.eval]
  | top => exact absurd rfl h

theorem any_insertLit (f : Lit → Bool) (l : Lit) : ∀ xs : List Lit, (insertLit l xs).any f = (f l || xs.any f) := by
  intro xs
  induction xs with
  | nil => simp [insertLit]
  | cons x xs ih =>
    unfold insertLit
    by_cases h1 : l = x
    · subst h1; simp
    · rw [if_neg h1]
      by_cases h2 : Lit.lt l x = true
      · rw [if_pos h2]; simp
      · rw [if_neg h2]; simp only [List.any_cons, ih]
        cases f l <;> cases f x <;> simp

theorem any_foldr_insertLit (f : Lit → Bool) (b : List Lit) : ∀ a : List Lit,
    (a.foldr insertLit b).any f = (a.any f || b.any f) := by
  intro a
  induction a with
  | nil => simp
  | cons x a ih => simp only [List.foldr_cons, any_insertLit, ih, List.any_cons, Bool.or_assoc]

theorem Src.eval_and (raw fv : Nat) (x y : Src) (h : Src.and x y ≠ .top) :
    (Src.and x y).eval raw fv = (x.eval raw fv && y.eval raw fv) := by
  cases x with
  | top => exact absurd rfl h
  | c b =>
    cases y with
    | top => cases b <;> exact absurd rfl h
    | c b' => cases b <;> cases b' <;> rfl
    | inp a j n => cases b <;> simp [Src.and, Src.eval]
    | ors ls => cases b <;> simp [Src.and, Src.eval]
    | x2 g j g' j' n => cases b <;> simp [Src.and, Src.eval]
  | x2 g j g' j' n =>
    cases y with
    | top => exact absurd rfl h
    | c b' => cases b' <;> simp [Src.and, Src.eval]
    | inp a' j'' n' => simp [Src.and, Src.not] at h
    | ors ls => simp [Src.and] at h
    | x2 g2 j2 g2' j2' n2 =>
      have e : Src.and (.x2 g j g' j' n) (.x2 g2 j2 g2' j2' n2) =
          if Src.x2 g j g' j' n = .x2 g2 j2 g2' j2' n2 then .x2 g j g' j' n
          else if Src.x2 g j g' j' n = (Src.x2 g2 j2 g2' j2' n2).not then .c false else .top := rfl
      rw [e] at h ⊢
      by_cases h1 : Src.x2 g j g' j' n = .x2 g2 j2 g2' j2' n2
      · rw [if_pos h1, ← h1]; simp
      · rw [if_neg h1] at h ⊢
        by_cases h2 : Src.x2 g j g' j' n = (Src.x2 g2 j2 g2' j2' n2).not
        · rw [if_pos h2, h2, Src.eval_not _ _ _ (by simp [Src.not])]; simp
        · rw [if_neg h2] at h; exact absurd rfl h
  | inp a j n =>
    cases y with
    | top => exact absurd rfl h
    | c b' => cases b' <;> simp [Src.and, Src.eval]
    | ors ls => simp [Src.and] at h
    | x2 g2 j2 g2' j2' n2 => simp [Src.and, Src.not] at h
    | inp a' j' n' =>
      have e : Src.and (.inp a j n) (.inp a' j' n') =
          if Src.inp a j n = .inp a' j' n' then .inp a j n else if Src.inp a j n = (Src.inp a' j' n').not then .c false else .top := rfl
      rw [e] at h ⊢
      by_cases h1 : Src.inp a j n = .inp a' j' n'
      · rw [if_pos h1, ← h1]; simp
      · rw [if_neg h1] at h ⊢
        by_cases h2 : Src.inp a j n = (Src.inp a' j' n').not
        · rw [if_pos h2, h2, Src.eval_not _ _ _ (by simp [Src.not])]; simp [Src.eval]
        · rw [if_neg h2] at h; exact absurd rfl h
  | ors ls =>
    cases y with
    | top => exact absurd rfl h
    | c b' => cases b' <;> simp [Src.and, Src.eval]
    | inp a' j' n' => simp [Src.and] at h
    | x2 g2 j2 g2' j2' n2 => simp [Src.and] at h
    | ors ls' =>
      have e : Src.and (.ors ls) (.ors ls') = if Src.ors ls = .ors ls' then .ors ls else .top := rfl
      rw [e] at h ⊢
      by_cases h1 : Src.ors ls = .ors ls'
      · rw [if_pos h1, ← h1]; simp
      · rw [if_neg h1] at h; exact absurd rfl h

theorem Src.eval_or (raw fv : Nat) (x y : Src) (h : Src.or x y ≠ .top) :
    (Src.or x y).eval raw fv = (x.eval raw fv || y.eval raw fv) := by
  cases x with
  | top => exact absurd rfl h
  | c b =>
    cases y with
    | top => cases b <;> exact absurd rfl h
    | c b' => cases b <;> cases b' <;> rfl
    | inp a j n => cases b <;> simp [Src.or, Src.eval]
    | ors ls => cases b <;> simp [Src.or, Src.eval]
    | x2 g j g' j' n => cases b <;> simp [Src.or, Src.eval]
  | x2 g j g' j' n =>
    cases y with
    | top => exact absurd rfl h
    | c b' => cases b' <;> simp [Src.or, Src.eval]
    | inp a' j'' n' => exact absurd rfl h
    | ors ls => exact absurd rfl h
    | x2 g2 j2 g2' j2' n2 => exact absurd rfl h
  | inp a j n =>
    cases y with
    | top => exact absurd rfl h
    | c b' => cases b' <;> simp [Src.or, Src.eval]
    | x2 g2 j2 g2' j2' n2 => exact absurd rfl h
    | ors ls =>
      have e : Src.or (.inp a j n) (.ors ls) = .ors (insertLit ⟨a, j, n⟩ ls) := rfl
      rw [e, Src.eval_inp]; simp only [Src.eval, any_insertLit]
    | inp a' j' n' =>
      have e : Src.or (.inp a j n) (.inp a' j' n') =
          if Src.inp a j n = .inp a' j' n' then .inp a j n
          else if a = a' ∧ j = j' then .c true else .ors (insertLit ⟨a, j, n⟩ [⟨a', j', n'⟩]) := rfl
      rw [e]
      by_cases h1 : Src.inp a j n = .inp a' j' n'
      · rw [if_pos h1, ← h1]; simp
      · rw [if_neg h1]
        by_cases h2 : a = a' ∧ j = j'
        · rw [if_pos h2]
          obtain ⟨rfl, rfl⟩ := h2
          have hn : n ≠ n' := by intro e; subst e; exact h1 rfl
          rw [Src.eval_inp, Src.eval_inp]
          simp only [Src.eval_c, Lit.eval]
          cases n <;> cases n' <;> simp_all
        · rw [if_neg h2, Src.eval_inp, Src.eval_inp]
          simp only [Src.eval, any_insertLit, List.any_cons, List.any_nil, Bool.or_false]
  | ors ls =>
    cases y with
    | top => exact absurd rfl h
    | c b' => cases b' <;> simp [Src.or, Src.eval]
    | x2 g2 j2 g2' j2' n2 => exact absurd rfl h
    | inp a' j' n' =>
      have e : Src.or (.ors ls) (.inp a' j' n') = .ors (insertLit ⟨a', j', n'⟩ ls) := rfl
      rw [e, Src.eval_inp]; simp only [Src.eval, any_insertLit, Bool.or_comm]
    | ors ls' =>
      have e : Src.or (.ors ls) (.ors ls') = .ors (ls.foldr insertLit ls') := rfl
      rw [e]; simp only [Src.eval, any_foldr_insertLit]

theorem Src.eval_mux (raw fv : Nat) (c x y : Src) (h : Src.mux c x y ≠ .top) :
    (Src.mux c x y).eval raw fv = (if c.eval raw fv then x.eval raw fv else y.eval raw fv) := by
  unfold Src.mux at h ⊢
  by_cases h0 : c = .top ∨ x = .top ∨ y = .top
  · rw [if_pos h0] at h; exact absurd rfl h
  · rw [if_neg h0] at h ⊢
    by_cases h1 : x = y
    · rw [if_pos h1, h1]; simp
    · rw [if_neg h1] at h ⊢
      have key : ∀ s : Src, (if x = .c true ∧ y = .c false then s else if x = .c false ∧ y = .c true then s.not else .top) ≠ .top →
          (if x = .c true ∧ y = .c false then s else if x = .c false ∧ y = .c true then s.not else .top).eval raw fv =
            (if s.eval raw fv then x.eval raw fv else y.eval raw fv) := by
        intro s hs
        by_cases h2 : x = .c true ∧ y = .c false
        · rw [if_pos h2, h2.1, h2.2]; simp only [Src.eval_c]; cases s.eval raw fv <;> rfl
        · rw [if_neg h2] at hs ⊢
          by_cases h3 : x = .c false ∧ y = .c true
          · rw [if_pos h3] at hs ⊢
            rw [h3.1, h3.2, Src.eval_not _ _ _ hs]; simp only [Src.eval_c]; cases s.eval raw fv <;> rfl
          · rw [if_neg h3] at hs; exact absurd rfl hs
      cases c with
      | top => simp at h0
      | c b => cases b <;> simp [Src.eval]
      | inp a j n => exact key _ h
      | ors ls => exact key _ h
      | x2 g j g' j' n => exact key _ h

/-! ### lists of bits -/

section
variable (raw fv : Nat)

theorem evalAt_lt {l : List Src} {k : Nat} (h : k < l.length) : evalAt raw fv l k = (l[k]).eval raw fv := by
  simp [evalAt, List.getElem?_eq_getElem h]

theorem evalAt_append (a b : List Src) (k : Nat) :
    evalAt raw fv (a ++ b) k = if k < a.length then evalAt raw fv a k else evalAt raw fv b (k - a.length) := by
  unfold evalAt
  rw [List.getElem?_append]
  split <;> rfl

theorem evalAt_take (a : List Src) (n k : Nat) :
    evalAt raw fv (a.take n) k = (decide (k < n) && evalAt raw fv a k) := by
  unfold evalAt
  rw [List.getElem?_take]
  split
  · simp_all
  · have : ¬ k < n := by omega
    simp [this]

theorem evalAt_drop (a : List Src) (n k : Nat) : evalAt raw fv (a.drop n) k = evalAt raw fv a (n + k) := by
  unfold evalAt
  rw [List.getElem?_drop]

theorem evalAt_zeros (n k : Nat) : evalAt raw fv (zeros n) k = false := by
  unfold evalAt zeros
  rw [List.getElem?_replicate]
  split <;> simp [Src.eval]

theorem evalAt_replicate (n k : Nat) (s : Src) : evalAt raw fv (List.replicate n s) k = (decide (k < n) && s.eval raw fv) := by
  unfold evalAt
  rw [List.getElem?_replicate]
  split
  · simp_all
  · have : ¬ k < n := by omega
    simp [this]

theorem noTop_getElem {l : List Src} (h : noTop l = true) {k : Nat} (hk : k < l.length) : l[k] ≠ .top := by
  unfold noTop at h
  rw [List.all_eq_true] at h
  have := h l[k] (List.getElem_mem hk)
  simpa using this

theorem den_and {a b : List Src} {n : Nat} (ha : a.length = n) (hb : b.length = n)
    (h : noTop (List.zipWith Src.and a b) = true) :
    den raw fv (List.zipWith Src.and a b) = den raw fv a &&& den raw fv b := by
  symm
  have hl : (List.zipWith Src.and a b).length = n := by simp [ha, hb]
  apply eq_of_evalAt
  · rw [hl]; exact Nat.and_lt_two_pow _ (by rw [← hb]; exact den_lt _ _ _)
  · intro k hk
    rw [Nat.testBit_and, testBit_den, testBit_den, evalAt_lt _ _ hk, evalAt_lt _ _ (by omega), evalAt_lt _ _ (by omega)]
    have := noTop_getElem h hk
    simp only [List.getElem_zipWith] at this ⊢
    exact (Src.eval_and raw fv _ _ this).symm

theorem den_or {a b : List Src} {n : Nat} (ha : a.length = n) (hb : b.length = n)
    (h : noTop (List.zipWith Src.or a b) = true) :
    den raw fv (List.zipWith Src.or a b) = den raw fv a ||| den raw fv b := by
  symm
  have hl : (List.zipWith Src.or a b).length = n := by simp [ha, hb]
  apply eq_of_evalAt
  · rw [hl]; exact Nat.or_lt_two_pow (by rw [← ha]; exact den_lt _ _ _) (by rw [← hb]; exact den_lt _ _ _)
  · intro k hk
    rw [Nat.testBit_or, testBit_den, testBit_den, evalAt_lt _ _ hk, evalAt_lt _ _ (by omega), evalAt_lt _ _ (by omega)]
    have := noTop_getElem h hk
    simp only [List.getElem_zipWith] at this ⊢
    exact (Src.eval_or raw fv _ _ this).symm

theorem Src.eval_inp' (raw fv : Nat) (g : Bool) (j : Nat) (n : Bool) :
    (Src.inp g j n).eval raw fv = ((if g then fv else raw).testBit j != n) := by
  cases g <;> rfl

theorem eval_mk2 (raw fv : Nat) (g : Bool) (j : Nat) (n : Bool) (g' : Bool) (j' : Nat) (n' : Bool) :
    (mk2 g j n g' j' n').eval raw fv = ((Src.inp g j n).eval raw fv != (Src.inp g' j' n').eval raw fv) := by
  rw [Src.eval_inp', Src.eval_inp']
  unfold mk2
  split <;> simp only [Src.eval] <;>
    (generalize (if g then fv else raw).testBit j = a
     generalize (if g' then fv else raw).testBit j' = b
     cases a <;> cases b <;> cases n <;> cases n' <;> rfl)

theorem eval_x2inp (raw fv : Nat) (g1 : Bool) (j1 : Nat) (g2 : Bool) (j2 : Nat) (n : Bool) (g : Bool) (j : Nat) (m : Bool)
    (h : x2inp g1 j1 g2 j2 n g j m ≠ .top) :
    (x2inp g1 j1 g2 j2 n g j m).eval raw fv = ((Src.x2 g1 j1 g2 j2 n).eval raw fv != (Src.inp g j m).eval raw fv) := by
  unfold x2inp at h ⊢
  by_cases h1 : g = g1 ∧ j = j1
  · rw [if_pos h1]; obtain ⟨rfl, rfl⟩ := h1
    rw [Src.eval_inp', Src.eval_inp']; simp only [Src.eval]
    generalize (if g then fv else raw).testBit j = a
    generalize (if g2 then fv else raw).testBit j2 = b
    cases a <;> cases b <;> cases n <;> cases m <;> rfl
  · rw [if_neg h1] at h ⊢
    by_cases h2 : g = g2 ∧ j = j2
    · rw [if_pos h2]; obtain ⟨rfl, rfl⟩ := h2
      rw [Src.eval_inp', Src.eval_inp']; simp only [Src.eval]
      generalize (if g then fv else raw).testBit j = a
      generalize (if g1 then fv else raw).testBit j1 = b
      cases a <;> cases b <;> cases n <;> cases m <;> rfl
    · rw [if_neg h2] at h; exact absurd rfl h

theorem Src.eval_xor (raw fv : Nat) (x y : Src) (h : Src.xor x y ≠ .top) :
    (Src.xor x y).eval raw fv = (x.eval raw fv != y.eval raw fv) := by
  have hnotC : ∀ s : Src, s.not ≠ .top → (s.not).eval raw fv = (true != s.eval raw fv) := by
    intro s hs; rw [Src.eval_not _ _ _ hs]; cases s.eval raw fv <;> rfl
  have hnotC' : ∀ s : Src, s.not ≠ .top → (s.not).eval raw fv = (s.eval raw fv != true) := by
    intro s hs; rw [Src.eval_not _ _ _ hs]; cases s.eval raw fv <;> rfl
  cases x with
  | top => exact absurd rfl h
  | c b =>
    cases y with
    | top => cases b <;> exact absurd rfl h
    | c b' => cases b <;> cases b' <;> rfl
    | inp a j n =>
      cases b with
      | false => simp [Src.xor, Src.eval]
      | true => exact hnotC (.inp a j n) (by simp [Src.not])
    | ors ls =>
      cases b with
      | false => simp [Src.xor, Src.eval]
      | true => exact absurd rfl h
    | x2 g j g' j' n =>
      cases b with
      | false => simp [Src.xor, Src.eval]
      | true => exact hnotC (.x2 g j g' j' n) (by simp [Src.not])
  | inp a j n =>
    cases y with
    | top => exact absurd rfl h
    | c b' =>
      cases b' with
      | false => simp [Src.xor, Src.eval]
      | true => exact hnotC' (.inp a j n) (by simp [Src.not])
    | ors ls => exact absurd rfl h
    | x2 g1 j1 g2 j2 m =>
      have e : Src.xor (.inp a j n) (.x2 g1 j1 g2 j2 m) = x2inp g1 j1 g2 j2 m a j n := rfl
      rw [e] at h ⊢
      rw [eval_x2inp raw fv _ _ _ _ _ _ _ _ h]
      cases (Src.x2 g1 j1 g2 j2 m).eval raw fv <;> cases (Src.inp a j n).eval raw fv <;> rfl
    | inp a' j' n' =>
      have e : Src.xor (.inp a j n) (.inp a' j' n') = if a = a' ∧ j = j' then .c (n != n') else mk2 a j n a' j' n' := rfl
      rw [e] at h ⊢
      by_cases h1 : a = a' ∧ j = j'
      · rw [if_pos h1]; obtain ⟨rfl, rfl⟩ := h1
        cases a <;> cases n <;> cases n' <;> simp [Src.eval]
      · rw [if_neg h1, eval_mk2]
  | ors ls =>
    cases y with
    | top => exact absurd rfl h
    | c b' =>
      cases b' with
      | false => simp [Src.xor, Src.eval]
      | true => exact absurd rfl h
    | inp a' j' n' => exact absurd rfl h
    | ors ls' => exact absurd rfl h
    | x2 g1 j1 g2 j2 m => exact absurd rfl h
  | x2 g1 j1 g2 j2 m =>
    cases y with
    | top => exact absurd rfl h
    | c b' =>
      cases b' with
      | false => simp [Src.xor, Src.eval]
      | true => exact hnotC' (.x2 g1 j1 g2 j2 m) (by simp [Src.not])
    | ors ls => exact absurd rfl h
    | inp a j n =>
      have e : Src.xor (.x2 g1 j1 g2 j2 m) (.inp a j n) = x2inp g1 j1 g2 j2 m a j n := rfl
      rw [e] at h ⊢
      exact eval_x2inp raw fv _ _ _ _ _ _ _ _ h
    | x2 g1' j1' g2' j2' m' =>
      have e : Src.xor (.x2 g1 j1 g2 j2 m) (.x2 g1' j1' g2' j2' m') =
          if g1 = g1' ∧ j1 = j1' ∧ g2 = g2' ∧ j2 = j2' then .c (m != m') else .top := rfl
      rw [e] at h ⊢
      by_cases h1 : g1 = g1' ∧ j1 = j1' ∧ g2 = g2' ∧ j2 = j2'
      · rw [if_pos h1]; obtain ⟨rfl, rfl, rfl, rfl⟩ := h1
        simp only [Src.eval]
        generalize (if g1 then fv else raw).testBit j1 = a
        generalize (if g2 then fv else raw).testBit j2 = b
        cases a <;> cases b <;> cases m <;> cases m' <;> rfl
      · rw [if_neg h1] at h; exact absurd rfl h

theorem den_xor {a b : List Src} {n : Nat} (ha : a.length = n) (hb : b.length = n)
    (h : noTop (List.zipWith Src.xor a b) = true) :
    den raw fv (List.zipWith Src.xor a b) = den raw fv a ^^^ den raw fv b := by
  symm
  have hl : (List.zipWith Src.xor a b).length = n := by simp [ha, hb]
  apply eq_of_evalAt
  · rw [hl]; exact Nat.xor_lt_two_pow (by rw [← ha]; exact den_lt _ _ _) (by rw [← hb]; exact den_lt _ _ _)
  · intro k hk
    rw [Nat.testBit_xor, testBit_den, testBit_den, evalAt_lt _ _ hk, evalAt_lt _ _ (by omega), evalAt_lt _ _ (by omega)]
    have := noTop_getElem h hk
    simp only [List.getElem_zipWith] at this ⊢
    exact (Src.eval_xor raw fv _ _ this).symm

theorem Src.and_ne_top {x y : Src} (h : Src.and x y ≠ .top) : x ≠ .top ∧ y ≠ .top := by
  constructor
  · rintro rfl; exact h rfl
  · rintro rfl; cases x <;> exact h rfl

theorem bit_beq (b : Bool) (d y : Nat) : ((b.toNat + 2 * d) == y) = ((b == (y % 2 == 1)) && (d == y / 2)) := by
  rw [Bool.eq_iff_iff]
  cases b <;> simp only [Bool.toNat_false, Bool.toNat_true, beq_iff_eq, Bool.and_eq_true] <;>
    by_cases hp : y % 2 = 1 <;> simp [hp] <;> omega

/-- `eqConst l y` is the bit `den l = y` (for `y` below `2 ^ l.length`) -/
theorem eqConst_spec : ∀ (l : List Src) (y : Nat), y < 2 ^ l.length → eqConst l y ≠ .top →
    (eqConst l y).eval raw fv = (den raw fv l == y) := by
  intro l
  induction l with
  | nil =>
    intro y hy _
    have : y = 0 := by simpa using hy
    subst this; simp [eqConst, den, Src.eval]
  | cons s l ih =>
    intro y hy h
    simp only [eqConst] at h ⊢
    rw [Src.eval_and _ _ _ _ h]
    obtain ⟨h1, h2⟩ := Src.and_ne_top h
    have hy2 : y / 2 < 2 ^ l.length := by
      simp only [List.length_cons, Nat.pow_succ] at hy; omega
    rw [ih (y / 2) hy2 h2]
    simp only [den]
    rw [bit_beq]
    by_cases hp : y % 2 = 1
    · simp only [hp, beq_self_eq_true, if_true] at h1 ⊢
      cases s.eval raw fv <;> simp
    · have hp' : (y % 2 == 1) = false := by simpa using hp
      simp only [hp', Bool.false_eq_true, if_false] at h1 ⊢
      rw [Src.eval_not _ _ _ h1]
      cases s.eval raw fv <;> simp

theorem den_mux {a b : List Src} {n : Nat} (c : Src) (ha : a.length = n) (hb : b.length = n)
    (h : noTop (List.zipWith (Src.mux c) a b) = true) :
    den raw fv (List.zipWith (Src.mux c) a b) = if c.eval raw fv then den raw fv a else den raw fv b := by
  symm
  have hl : (List.zipWith (Src.mux c) a b).length = n := by simp [ha, hb]
  apply eq_of_evalAt
  · rw [hl]; split
    · rw [← ha]; exact den_lt _ _ _
    · rw [← hb]; exact den_lt _ _ _
  · intro k hk
    have := noTop_getElem h hk
    rw [evalAt_lt _ _ hk]
    simp only [List.getElem_zipWith] at this ⊢
    rw [Src.eval_mux raw fv _ _ _ this]
    split
    · rw [testBit_den, evalAt_lt _ _ (by omega)]
    · rw [testBit_den, evalAt_lt _ _ (by omega)]

theorem den_not {a : List Src} {n : Nat} (ha : a.length = n) (h : noTop (a.map Src.not) = true) :
    den raw fv (a.map Src.not) = 2 ^ n - 1 - den raw fv a := by
  symm
  have hl : (a.map Src.not).length = n := by simp [ha]
  have hd : den raw fv a < 2 ^ n := by rw [← ha]; exact den_lt _ _ _
  apply eq_of_evalAt
  · rw [hl]; exact compl_lt
  · intro k hk
    rw [hl] at hk
    rw [testBit_compl hd, testBit_den, evalAt_lt _ _ (by omega), evalAt_lt _ _ (by omega)]
    have := noTop_getElem h (k := k) (by omega)
    simp only [List.getElem_map] at this ⊢
    simp [hk, Src.eval_not raw fv _ this]

theorem den_shl {a : List Src} {n sv : Nat} (ha : a.length = n) (hs : sv < n) :
    den raw fv (zeros sv ++ a.take (n - sv)) = (den raw fv a <<< sv) % 2 ^ n := by
  symm
  have hl : (zeros sv ++ a.take (n - sv)).length = n := by simp [zeros, ha]; omega
  apply eq_of_evalAt
  · rw [hl]; exact Nat.mod_lt _ (Nat.two_pow_pos _)
  · intro k hk
    rw [hl] at hk
    rw [Nat.testBit_mod_two_pow, Nat.testBit_shiftLeft, testBit_den, evalAt_append, length_zeros]
    by_cases h1 : k < sv
    · have : ¬ k ≥ sv := by omega
      simp [h1, this, evalAt_zeros, hk]
    · have h2 : k ≥ sv := by omega
      have h3 : k - sv < n - sv := by omega
      simp [h1, h2, hk, evalAt_take, h3]

theorem den_shr {a : List Src} {n sv : Nat} (ha : a.length = n) (hs : sv < n) :
    den raw fv (a.drop sv ++ zeros sv) = den raw fv a >>> sv := by
  symm
  have hl : (a.drop sv ++ zeros sv).length = n := by simp [zeros, ha]; omega
  apply eq_of_evalAt
  · rw [hl]
    have : den raw fv a < 2 ^ n := by rw [← ha]; exact den_lt _ _ _
    exact Nat.lt_of_le_of_lt (Nat.shiftRight_le _ _) this
  · intro k hk
    rw [hl] at hk
    rw [Nat.testBit_shiftRight, testBit_den, evalAt_append, List.length_drop, ha, evalAt_drop]
    by_cases h1 : k < n - sv
    · simp [h1]
    · simp only [h1, if_false, evalAt_zeros]
      exact evalAt_ge (by omega)

theorem den_append (a b : List Src) : den raw fv (a ++ b) = den raw fv a + 2 ^ a.length * den raw fv b := by
  induction a with
  | nil => simp [den]
  | cons s a ih =>
    simp only [List.cons_append, den, ih, List.length_cons, Nat.pow_succ]
    rw [Nat.mul_add, Nat.add_assoc, Nat.mul_comm (2 ^ a.length) 2, Nat.mul_assoc]

theorem den_zeros (n : Nat) : den raw fv (zeros n) = 0 := by
  induction n with
  | zero => rfl
  | succ n ih => simp only [zeros, List.replicate_succ, den] at ih ⊢; simp [ih]

theorem den_replicate (n : Nat) (s : Src) : den raw fv (List.replicate n s) = if s.eval raw fv then 2 ^ n - 1 else 0 := by
  induction n with
  | zero => simp [den]
  | succ n ih =>
    simp only [List.replicate_succ, den, ih]
    have := Nat.two_pow_pos n
    cases s.eval raw fv <;> simp [Nat.pow_succ] <;> omega

theorem den_append_zeros (a : List Src) (m : Nat) : den raw fv (a ++ zeros m) = den raw fv a := by
  rw [den_append, den_zeros]; simp

theorem den_take {a : List Src} (n : Nat) : den raw fv (a.take n) = den raw fv a % 2 ^ n := by
  symm
  by_cases hn : n ≤ a.length
  · apply eq_of_evalAt
    · rw [List.length_take, Nat.min_eq_left hn]; exact Nat.mod_lt _ (Nat.two_pow_pos _)
    · intro k hk
      rw [List.length_take, Nat.min_eq_left hn] at hk
      rw [Nat.testBit_mod_two_pow, testBit_den, evalAt_take]
  · rw [List.take_of_length_le (by omega)]
    exact Nat.mod_eq_of_lt (Nat.lt_of_lt_of_le (den_lt _ _ _) (two_pow_le_of_le (by omega)))

theorem den_extract {l : List Src} (st n : Nat) :
    den raw fv ((l.drop st).take n) = (den raw fv l >>> st) % 2 ^ n := by
  rw [den_take]
  congr 1
  apply Nat.eq_of_testBit_eq
  intro k
  rw [testBit_den, evalAt_drop, Nat.testBit_shiftRight, testBit_den]

theorem length_extract {l : List Src} {st n : Nat} (h : st + n ≤ l.length) : ((l.drop st).take n).length = n := by
  simp; omega

theorem testBit_top {x s : Nat} (hs : 1 ≤ s) (hx : x < 2 ^ s) : x.testBit (s - 1) = decide (2 ^ (s - 1) ≤ x) := by
  by_cases h : 2 ^ (s - 1) ≤ x
  · have e : x = 2 ^ (s - 1) + (x - 2 ^ (s - 1)) := by omega
    have hp : 2 ^ s = 2 * 2 ^ (s - 1) := by rw [← Nat.pow_succ']; congr 1; omega
    have hlt : x - 2 ^ (s - 1) < 2 ^ (s - 1) := by omega
    rw [e, Nat.testBit_two_pow_add_eq, Nat.testBit_lt_two_pow hlt]; simp [← e, h]
  · simp only [h, decide_false]
    exact Nat.testBit_lt_two_pow (by omega)

theorem evalAt_last {l : List Src} (h : 1 ≤ l.length) :
    (l.getLast?.getD (.c false)).eval raw fv = evalAt raw fv l (l.length - 1) := by
  rw [List.getLast?_eq_getElem?, evalAt]
  have : l.length - 1 < l.length := by omega
  simp [List.getElem?_eq_getElem this]

theorem testBit_sar (w a s k : Nat) (ha : a < 2 ^ w) (hs : s < w) (hk : k < w) :
    (sar w a s).testBit k = if k < w - s then a.testBit (k + s) else a.testBit (w - 1) := by
  unfold sar
  rw [Nat.testBit_or, Nat.testBit_shiftRight]
  by_cases h1 : k < w - s
  · have hno : ((if a.testBit (w - 1) = true then (2 ^ s - 1) <<< (w - s) else 0).testBit k) = false := by
      split
      · rw [Nat.testBit_shiftLeft]; simp; omega
      · simp
    rw [hno, if_pos h1, Nat.add_comm]; simp
  · have hhi : a.testBit (s + k) = false := Nat.testBit_lt_two_pow (Nat.lt_of_lt_of_le ha (Nat.pow_le_pow_right (by omega) (by omega)))
    rw [hhi, if_neg h1]
    split
    · rename_i hb
      rw [Nat.testBit_shiftLeft, Nat.testBit_two_pow_sub_one]
      have h2 : k ≥ w - s := by omega
      have h3 : k - (w - s) < s := by omega
      simp [h2, h3, hb]
    · rename_i hb; simp at hb ⊢; exact hb

theorem sar_lt (w a s : Nat) (ha : a < 2 ^ w) (hs : s < w) : sar w a s < 2 ^ w := by
  unfold sar
  apply Nat.or_lt_two_pow
  · exact Nat.lt_of_le_of_lt (Nat.shiftRight_le _ _) ha
  · split
    · have : (2 ^ s - 1) <<< (w - s) < 2 ^ (s + (w - s)) := by
        rw [Nat.shiftLeft_eq, Nat.pow_add]
        exact Nat.mul_lt_mul_of_pos_right (by have := Nat.two_pow_pos s; omega) (Nat.two_pow_pos _)
      have e : s + (w - s) = w := by omega
      rw [e] at this; exact this
    · exact Nat.two_pow_pos _

/-- arithmetic shift right on symbolic bits: drop the low positions, repeat the sign position at the top -/
theorem den_sar {a : List Src} {n sv : Nat} (ha : a.length = n) (hs : sv < n) :
    den raw fv (a.drop sv ++ List.replicate sv (a.getLast?.getD (.c false))) = sar n (den raw fv a) sv := by
  symm
  have hl : (a.drop sv ++ List.replicate sv (a.getLast?.getD (.c false))).length = n := by simp [ha]; omega
  have hd : den raw fv a < 2 ^ n := by rw [← ha]; exact den_lt _ _ _
  apply eq_of_evalAt
  · rw [hl]; exact sar_lt _ _ _ hd hs
  · intro k hk
    rw [hl] at hk
    rw [testBit_sar _ _ _ _ hd hs hk, evalAt_append, List.length_drop, ha, evalAt_drop, evalAt_replicate]
    by_cases h1 : k < n - sv
    · simp only [h1, if_true]; rw [testBit_den, Nat.add_comm]
    · simp only [h1, if_false]
      have h2 : k - (n - sv) < sv := by omega
      have e := evalAt_last (raw := raw) (fv := fv) (l := a) (by omega)
      rw [ha] at e
      rw [testBit_den, e]; simp [h2]

theorem den_cast {t ty : ITy} {l : List Src} (hl : l.length = t.bits) :
    den raw fv (castS t ty l) = castBits t ty (den raw fv l) ∧ (castS t ty l).length = ty.bits := by
  have hpos := t.bits_pos
  have hx : den raw fv l < 2 ^ t.bits := by rw [← hl]; exact den_lt _ _ _
  unfold castS castBits
  by_cases h1 : ty.bits ≤ t.bits
  · simp only [h1, if_true]
    exact ⟨den_take _ _ _, by simp [hl, h1]⟩
  · simp only [h1, if_false]
    by_cases h2 : t.signed = true
    · simp only [h2, if_true, true_and]
      refine ⟨?_, by simp [hl]; omega⟩
      rw [den_append, den_replicate, evalAt_last _ _ (by omega), hl, ← testBit_den, testBit_top hpos hx]
      by_cases h3 : 2 ^ (t.bits - 1) ≤ den raw fv l
      · simp only [h3, decide_true, if_true]
        congr 1
        have : ty.bits = t.bits + (ty.bits - t.bits) := by omega
        rw [Nat.mul_sub, Nat.mul_one, ← Nat.pow_add, ← this]
      · simp [h3]
    · simp only [h2, Bool.false_eq_true, if_false, false_and]
      exact ⟨den_append_zeros _ _ _ _, by simp [hl, zeros]; omega⟩

theorem den_uintNew {l : List Src} {n : Nat} (h : (l.drop n).all (fun s => s == .c false) = true) :
    den raw fv l < 2 ^ n ∧ den raw fv (l.take n) = den raw fv l := by
  have hz : den raw fv (l.drop n) = 0 := by
    generalize l.drop n = d at h
    induction d with
    | nil => rfl
    | cons s d ih =>
      simp only [List.all_cons, Bool.and_eq_true, beq_iff_eq] at h
      simp [den, h.1, ih h.2]
  have e : den raw fv l = den raw fv (l.take n) + 2 ^ (l.take n).length * den raw fv (l.drop n) := by
    rw [← den_append, List.take_append_drop]
  rw [hz, Nat.mul_zero, Nat.add_zero] at e
  refine ⟨?_, e.symm⟩
  rw [e]
  exact Nat.lt_of_lt_of_le (den_lt _ _ _) (two_pow_le_of_le (by simp; omega))

theorem nonzero_spec : ∀ (l : List Src), nonzero l ≠ .top → (nonzero l).eval raw fv = (den raw fv l != 0) := by
  intro l
  induction l with
  | nil => intro _; simp [nonzero, den]
  | cons s l ih =>
    intro h
    unfold nonzero at h ⊢
    by_cases h1 : s = .c false
    · rw [if_pos h1] at h ⊢
      rw [ih h, h1]; simp only [den, Src.eval_c, Bool.toNat_false, Nat.zero_add]
      by_cases hz : den raw fv l = 0
      · simp [hz]
      · have : 2 * den raw fv l ≠ 0 := by omega
        rw [bne_iff_ne.mpr hz, bne_iff_ne.mpr this]
    · rw [if_neg h1] at h ⊢
      by_cases h2 : l.all (fun t => t == .c false) = true
      · rw [if_pos h2] at h ⊢
        have hz : den raw fv l = 0 := by
          have := den_uintNew raw fv (l := l) (n := 0) (by simpa using h2)
          simpa using this.1
        simp only [den, hz]
        cases s.eval raw fv <;> simp
      · rw [if_neg h2] at h ⊢
        by_cases h3 : s = .c true
        · rw [if_pos h3, h3]; simp [den]
        · rw [if_neg h3] at h; exact absurd rfl h


/-- `+` of two values that are never both non-zero in one position is `|` (no carries) -/
theorem den_add_disjoint : ∀ (a b : List Src), a.length = b.length → disjointL a b = true →
    noTop (List.zipWith Src.or a b) = true →
    den raw fv (List.zipWith Src.or a b) = den raw fv a + den raw fv b := by
  intro a
  induction a with
  | nil => intro b hl _ _; cases b with
    | nil => simp [den]
    | cons _ _ => simp at hl
  | cons s a ih =>
    intro b hl hd hn
    cases b with
    | nil => simp at hl
    | cons t b =>
      simp only [List.length_cons, Nat.add_right_cancel_iff] at hl
      simp only [disjointL, Bool.and_eq_true, Bool.or_eq_true, beq_iff_eq] at hd
      simp only [List.zipWith_cons_cons, noTop, List.all_cons, Bool.and_eq_true, bne_iff_ne, ne_eq] at hn
      have ih' := ih b hl hd.2 (by simpa [noTop] using hn.2)
      simp only [List.zipWith_cons_cons, den, ih']
      have hor := Src.eval_or raw fv s t hn.1
      rw [hor]
      rcases hd.1 with h | h
      · subst h; simp; omega
      · subst h; simp; omega

end

end Bb.Nf
