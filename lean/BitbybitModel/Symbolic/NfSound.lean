import BitbybitModel.Symbolic.NfLemmas
/-!
# Soundness of the normaliser

`nf_sound`: whatever `nf` answers describes the evaluation of the expression for **every** raw value, every
written value and both build profiles. `eqNf_sound` / `bodiesEquiv_sound`: two bodies with the same normal form
evaluate alike (equal results, or both panic) – for all inputs, all indices and any pair of profiles.
-/
namespace Bb.Nf
open Bb

/-- the concrete inputs a symbolic result is read against -/
structure World where
  Γ : CustomEnv
  raw : Nat
  fv : Nat
  /-- the custom-typed written value (only its raw value matters) -/
  cv : Val

def Matches (w : World) : SVal → Val → Prop
  | .int t l, v => l.length = t.bits ∧ v = .int t (den w.raw w.fv l)
  | .bool s, v => v = .bool (s.eval w.raw w.fv)
  | .uint n l, v => l.length = n ∧ v = .uint n (den w.raw w.fv l)
  | .cust, v => v = w.cv

def Denotes (w : World) : SRes → R → Prop
  | .ok sv, r => ∃ v, r = .ok v ∧ Matches w sv v
  | .panic, r => ∃ m, r = .error (.panic m)
  | .call ty sv, r => ∃ v, Matches w sv v ∧ r = w.Γ.new ty v

def SEnvOk (w : World) (σ : SEnv) (ρ : Env) : Prop := ∀ v sv, σ v = some sv → Matches w sv (ρ.get v)

/-- the custom-typed argument converts to a raw value of the announced representation -/
def ArgOk (w : World) (ctx : Ctx) : Prop :=
  match ctx.arg with
  | .custom r => ∃ rv, w.Γ.raw w.cv = .ok rv ∧ Matches w (rawReprSym r) rv
  | _ => True

theorem Matches.unique {w : World} {sv : SVal} {v v' : Val} (h : Matches w sv v) (h' : Matches w sv v') : v = v' := by
  cases sv with
  | int t l => rw [h.2, h'.2]
  | bool s => rw [h, h']
  | uint n l => rw [h.2, h'.2]
  | cust => rw [h, h']

theorem mkInt_ok {t : ITy} {l : List Src} {r : SRes} (h : mkInt t l = some r) : noTop l = true ∧ r = .ok (.int t l) := by
  unfold mkInt at h
  split at h
  · exact ⟨by assumption, by injection h with h; exact h.symm⟩
  · exact absurd h (by simp)

theorem binS_sound (w : World) (chk : Bool) (op : BinOp) {x y : SVal} {vx vy : Val} {r : SRes}
    (hx : Matches w x vx) (hy : Matches w y vy) (h : binS op x y = some r) :
    Denotes w r (evalBin chk op vx vy) := by
  cases x with
  | int t a =>
    cases y with
    | int t' b =>
      obtain ⟨hla, rfl⟩ := hx
      obtain ⟨hlb, rfl⟩ := hy
      have hda : den w.raw w.fv a < 2 ^ t.bits := by rw [← hla]; exact den_lt _ _ _
      cases op with
      | shl =>
        simp only [binS] at h
        split at h
        · rename_i sv hs
          split at h
          · rename_i hlt
            injection h with h; subst h
            rw [isConst_den _ _ _ _ hs] 
            simp only [evalBin, hlt, if_true]
            refine ⟨_, rfl, ?_, ?_⟩
            · simp [zeros, hla]; omega
            · rw [den_shl _ _ hla hlt]
          · exact absurd h (by simp)
        · exact absurd h (by simp)
      | shr =>
        simp only [binS] at h
        split at h
        · rename_i hsg
          split at h
          · rename_i sv hs
            split at h
            · rename_i hlt
              injection h with h; subst h
              rw [isConst_den _ _ _ _ hs]
              simp only [evalBin, hsg, hlt, if_true]
              refine ⟨_, rfl, ?_, ?_⟩
              · simp [hla]; omega
              · rw [den_sar _ _ hla hlt]
            · exact absurd h (by simp)
          · exact absurd h (by simp)
        · rename_i hsg
          split at h
          · rename_i sv hs
            split at h
            · rename_i hlt
              injection h with h; subst h
              rw [isConst_den _ _ _ _ hs]
              simp only [evalBin, hsg, hlt, if_true]
              refine ⟨_, rfl, ?_, ?_⟩
              · simp [zeros, hla]; omega
              · rw [den_shr _ _ hla hlt]
            · exact absurd h (by simp)
          · exact absurd h (by simp)
      | and =>
        simp only [binS] at h
        split at h
        · rename_i ht; subst ht
          obtain ⟨hnt, rfl⟩ := mkInt_ok h
          simp only [evalBin, if_true]
          exact ⟨_, rfl, by simp [hla, hlb], by rw [den_and _ _ hla hlb hnt]⟩
        · exact absurd h (by simp)
      | or =>
        simp only [binS] at h
        split at h
        · rename_i ht; subst ht
          obtain ⟨hnt, rfl⟩ := mkInt_ok h
          simp only [evalBin, if_true]
          exact ⟨_, rfl, by simp [hla, hlb], by rw [den_or _ _ hla hlb hnt]⟩
        · exact absurd h (by simp)
      | add =>
        simp only [binS] at h
        split at h
        · exact absurd h (by simp)
        · rename_i hg
          split at h
          · rename_i xa ya hxa hya
            split at h
            · rename_i hlt
              injection h with h; subst h
              rw [isConst_den _ _ _ _ hxa, isConst_den _ _ _ _ hya]
              simp only [evalBin, hg, if_false, hlt, if_true]
              exact ⟨_, rfl, length_constV _ _, by rw [den_constV, Nat.mod_eq_of_lt hlt]⟩
            · exact absurd h (by simp)
          · split at h
            · rename_i hdis
              obtain ⟨hnt, rfl⟩ := mkInt_ok h
              have ht : t = t' := by
                have := hg; simp only [not_or, Decidable.not_not] at this; exact this.1
              subst ht
              have hsum := den_add_disjoint w.raw w.fv a b (by rw [hla, hlb]) hdis hnt
              have hlen : (List.zipWith Src.or a b).length = t.bits := by simp [hla, hlb]
              have hlt : den w.raw w.fv a + den w.raw w.fv b < 2 ^ t.bits := by
                rw [← hsum, ← hlen]; exact den_lt _ _ _
              simp only [evalBin, hg, if_false, hlt, if_true]
              exact ⟨_, rfl, hlen, by rw [hsum]⟩
            · exact absurd h (by simp)
      | sub =>
        simp only [binS] at h
        split at h
        · exact absurd h (by simp)
        · rename_i hg
          split at h
          · rename_i xa ya hxa hya
            split at h
            · rename_i hle
              injection h with h; subst h
              rw [isConst_den _ _ _ _ hxa, isConst_den _ _ _ _ hya]
              simp only [evalBin, hg, if_false, hle, if_true]
              have : xa < 2 ^ t.bits := by rw [← isConst_den w.raw w.fv _ _ hxa]; exact hda
              exact ⟨_, rfl, length_constV _ _, by rw [den_constV, Nat.mod_eq_of_lt (by omega)]⟩
            · exact absurd h (by simp)
          · exact absurd h (by simp)
      | mul =>
        simp only [binS] at h
        split at h
        · exact absurd h (by simp)
        · rename_i hg
          split at h
          · rename_i xa ya hxa hya
            split at h
            · rename_i hlt
              injection h with h; subst h
              rw [isConst_den _ _ _ _ hxa, isConst_den _ _ _ _ hya]
              simp only [evalBin, hg, if_false, hlt, if_true]
              exact ⟨_, rfl, length_constV _ _, by rw [den_constV, Nat.mod_eq_of_lt hlt]⟩
            · exact absurd h (by simp)
          · exact absurd h (by simp)
      | ne =>
        simp only [binS] at h
        split at h
        · exact absurd h (by simp)
        · rename_i ht
          have ht : t = t' := by simpa using ht
          subst ht
          split at h
          · rename_i yb hyb
            rw [isConst_den _ _ _ _ hyb]
            split at h
            · rename_i hz; subst hz
              split at h
              · exact absurd h (by simp)
              · rename_i hnt
                injection h with h; subst h
                simp only [evalBin, if_true]
                exact ⟨_, rfl, by simp only [Matches]; rw [nonzero_spec _ _ _ hnt]⟩
            · split at h
              · rename_i xa hxa
                injection h with h; subst h
                rw [isConst_den _ _ _ _ hxa]
                simp only [evalBin, if_true]
                exact ⟨_, rfl, by simp [Matches]⟩
              · exact absurd h (by simp)
          · exact absurd h (by simp)
      | lt =>
        simp only [binS] at h
        split at h
        · exact absurd h (by simp)
        · rename_i hg
          split at h
          · rename_i xa ya hxa hya
            injection h with h; subst h
            rw [isConst_den _ _ _ _ hxa, isConst_den _ _ _ _ hya]
            simp only [evalBin, hg, if_false]
            exact ⟨_, rfl, by simp [Matches]⟩
          · rename_i hxa hya
            split at h
            · exact absurd h (by simp)
            · rename_i hnt
              injection h with h; subst h
              rw [isConst_den _ _ _ _ hxa]
              simp only [evalBin, hg, if_false]
              refine ⟨_, rfl, ?_⟩
              simp only [Matches]
              rw [nonzero_spec _ _ _ hnt]
              congr 1
              by_cases hz : den w.raw w.fv b = 0
              · simp [hz]
              · have : 0 < den w.raw w.fv b := by omega
                simp [hz, this]
          · exact absurd h (by simp)
      | bxor =>
        simp only [binS] at h
        split at h
        · rename_i ht; subst ht
          obtain ⟨hnt, rfl⟩ := mkInt_ok h
          simp only [evalBin, if_true]
          exact ⟨_, rfl, by simp [hla, hlb], by rw [den_xor _ _ hla hlb hnt]⟩
        · exact absurd h (by simp)
      | eqq =>
        simp only [binS] at h
        split at h
        · exact absurd h (by simp)
        · rename_i ht
          have ht : t = t' := by simpa using ht
          subst ht
          split at h
          · rename_i yb hyb
            have hyl : yb < 2 ^ a.length := by
              rw [← isConst_den w.raw w.fv _ _ hyb, hla, ← hlb]; exact den_lt _ _ _
            rw [isConst_den _ _ _ _ hyb]
            split at h
            · exact absurd h (by simp)
            · rename_i hnt
              injection h with h; subst h
              simp only [evalBin, if_true]
              exact ⟨_, rfl, by simp only [Matches]; rw [eqConst_spec _ _ _ _ hyl hnt]⟩
          · exact absurd h (by simp)
    | bool _ => cases op <;> simp [binS] at h
    | uint _ _ => cases op <;> simp [binS] at h
    | cust => cases op <;> simp [binS] at h
  | bool _ => cases op <;> simp [binS] at h
  | uint _ _ => cases op <;> simp [binS] at h
  | cust => cases op <;> simp [binS] at h


theorem SEnvOk.set {w : World} {σ : SEnv} {ρ : Env} (h : SEnvOk w σ ρ) (v : Var) {x : SVal} {vx : Val}
    (hx : Matches w x vx) : SEnvOk w (σ.set v x) (ρ.set v vx) := by
  intro u su hu
  unfold SEnv.set at hu
  by_cases e : u = v
  · subst e
    simp only [if_true, Option.some.injEq] at hu
    subst hu
    cases u <;> exact hx
  · rw [if_neg e] at hu
    have := h u su hu
    cases u <;> cases v <;> first | exact absurd rfl e | exact this

/-- what the induction hypothesis gives for a sub-expression -/
theorem sub_cases {w : World} {r : SRes} {res : R} (h : Denotes w r res) :
    (r = .panic → ∃ m, res = .error (.panic m)) ∧ (∀ x, r = .ok x → ∃ v, res = .ok v ∧ Matches w x v) := by
  constructor
  · intro e; subst e; exact h
  · intro x e; subst e; exact h

theorem nf_sound (w : World) (chk : Bool) (ctx : Ctx) (harg : ArgOk w ctx) :
    ∀ (e : Expr) (σ : SEnv) (ρ : Env) (r : SRes), SEnvOk w σ ρ → nf ctx σ e = some r → Denotes w r (eval w.Γ chk ρ e) := by
  intro e
  induction e with
  | lit t n =>
    intro σ ρ r _ h
    simp only [nf] at h
    split at h
    · rename_i hlt
      injection h with h; subst h
      simp only [eval, hlt, if_true]
      exact ⟨_, rfl, length_constV _ _, by rw [den_constV, Nat.mod_eq_of_lt hlt]⟩
    · exact absurd h (by simp)
  | var v =>
    intro σ ρ r hσ h
    simp only [nf, Option.map_eq_some_iff] at h
    obtain ⟨sv, hsv, rfl⟩ := h
    exact ⟨_, rfl, hσ v sv hsv⟩
  | bin op a b iha ihb =>
    intro σ ρ r hσ h
    simp only [nf] at h
    split at h
    · rename_i ha
      injection h with h; subst h
      obtain ⟨m, hm⟩ := iha σ ρ _ hσ ha
      exact ⟨m, by simp [eval, hm]⟩
    · rename_i x ha
      obtain ⟨vx, hvx, hmx⟩ := iha σ ρ _ hσ ha
      split at h
      · rename_i hb
        injection h with h; subst h
        obtain ⟨m, hm⟩ := ihb σ ρ _ hσ hb
        exact ⟨m, by simp [eval, hvx, hm]⟩
      · rename_i y hb
        obtain ⟨vy, hvy, hmy⟩ := ihb σ ρ _ hσ hb
        have := binS_sound w chk op hmx hmy h
        simpa [eval, hvx, hvy] using this
      · exact absurd h (by simp)
    · exact absurd h (by simp)
  | not a iha =>
    intro σ ρ r hσ h
    simp only [nf] at h
    split at h
    · rename_i ha
      injection h with h; subst h
      obtain ⟨m, hm⟩ := iha σ ρ _ hσ ha
      exact ⟨m, by simp [eval, hm]⟩
    · rename_i t l ha
      obtain ⟨vx, hvx, hl, rfl⟩ := iha σ ρ _ hσ ha
      split at h
      · exact absurd h (by simp)
      · rename_i hsg
        obtain ⟨hnt, rfl⟩ := mkInt_ok h
        refine ⟨_, ?_, by simp [hl], rfl⟩
        simp [eval, hvx, hsg, den_not _ _ hl hnt]
    · rename_i s ha
      obtain ⟨vx, hvx, rfl⟩ := iha σ ρ _ hσ ha
      split at h
      · exact absurd h (by simp)
      · rename_i hs
        injection h with h; subst h
        refine ⟨_, ?_, rfl⟩
        simp [eval, hvx, Src.eval_not _ _ _ hs]
    · exact absurd h (by simp)
  | cast a ty iha =>
    intro σ ρ r hσ h
    simp only [nf] at h
    split at h
    · rename_i ha
      injection h with h; subst h
      obtain ⟨m, hm⟩ := iha σ ρ _ hσ ha
      exact ⟨m, by simp [eval, hm]⟩
    · rename_i t l ha
      obtain ⟨vx, hvx, hl, rfl⟩ := iha σ ρ _ hσ ha
      injection h with h; subst h
      have := den_cast w.raw w.fv (t := t) (ty := ty) hl
      exact ⟨.int ty (castBits t ty (den w.raw w.fv l)), by simp [eval, hvx], this.2, by rw [this.1]⟩
    · rename_i s ha
      obtain ⟨vx, hvx, rfl⟩ := iha σ ρ _ hσ ha
      injection h with h; subst h
      have hp := ty.bits_pos
      refine ⟨.int ty (if s.eval w.raw w.fv then 1 else 0), by simp [eval, hvx], by simp [zeros]; omega, ?_⟩
      simp only [den, den_zeros]
      cases s.eval w.raw w.fv <;> simp
    · exact absurd h (by simp)
  | ite c a b ihc iha ihb =>
    intro σ ρ r hσ h
    simp only [nf] at h
    split at h
    · rename_i hc
      injection h with h; subst h
      obtain ⟨m, hm⟩ := ihc σ ρ _ hσ hc
      exact ⟨m, by simp [eval, hm]⟩
    · rename_i hc
      obtain ⟨vc, hvc, rfl⟩ := ihc σ ρ _ hσ hc
      have := iha σ ρ _ hσ h
      simpa [eval, hvc] using this
    · rename_i hc
      obtain ⟨vc, hvc, rfl⟩ := ihc σ ρ _ hσ hc
      have := ihb σ ρ _ hσ h
      simpa [eval, hvc] using this
    · rename_i s _ _ hc
      obtain ⟨vc, hvc, rfl⟩ := ihc σ ρ _ hσ hc
      split at h
      · rename_i t x t' y ha hb
        obtain ⟨va, hva, hla, rfl⟩ := iha σ ρ _ hσ ha
        obtain ⟨vb, hvb, hlb, rfl⟩ := ihb σ ρ _ hσ hb
        split at h
        · rename_i ht; subst ht
          obtain ⟨hnt, rfl⟩ := mkInt_ok h
          refine ⟨_, ?_, by simp [hla, hlb], rfl⟩
          rw [den_mux _ _ s hla hlb hnt]
          cases hs : s.eval w.raw w.fv <;> simp [eval, hvc, hs, hva, hvb]
        · exact absurd h (by simp)
      · exact absurd h (by simp)
    · exact absurd h (by simp)
  | letE v e body ihe ihb =>
    intro σ ρ r hσ h
    simp only [nf] at h
    split at h
    · rename_i he
      injection h with h; subst h
      obtain ⟨m, hm⟩ := ihe σ ρ _ hσ he
      exact ⟨m, by simp [eval, hm]⟩
    · rename_i x he
      obtain ⟨vx, hvx, hmx⟩ := ihe σ ρ _ hσ he
      have := ihb _ _ _ (hσ.set v hmx) h
      simpa [eval, hvx] using this
    · exact absurd h (by simp)
  | assertE c body ihc ihb =>
    intro σ ρ r hσ h
    simp only [nf] at h
    split at h
    · rename_i hc
      injection h with h; subst h
      obtain ⟨m, hm⟩ := ihc σ ρ _ hσ hc
      exact ⟨m, by simp [eval, hm]⟩
    · rename_i hc
      obtain ⟨vc, hvc, rfl⟩ := ihc σ ρ _ hσ hc
      have := ihb σ ρ _ hσ h
      simpa [eval, hvc] using this
    · rename_i hc
      obtain ⟨vc, hvc, rfl⟩ := ihc σ ρ _ hσ hc
      injection h with h; subst h
      exact ⟨"assertion failed", by simp [eval, hvc]⟩
    · exact absurd h (by simp)
  | extract W n e s ihe ihs =>
    intro σ ρ r hσ h
    simp only [nf] at h
    split at h
    · rename_i he
      injection h with h; subst h
      obtain ⟨m, hm⟩ := ihe σ ρ _ hσ he
      exact ⟨m, by simp [eval, hm]⟩
    · rename_i t l he
      obtain ⟨ve, hve, hl, rfl⟩ := ihe σ ρ _ hσ he
      split at h
      · rename_i hs
        injection h with h; subst h
        obtain ⟨m, hm⟩ := ihs σ ρ _ hσ hs
        exact ⟨m, by simp [eval, hve, hm]⟩
      · rename_i sl hs
        obtain ⟨vs, hvs, hsl, rfl⟩ := ihs σ ρ _ hσ hs
        split at h
        · exact absurd h (by simp)
        · rename_i hty
          split at h
          · rename_i st hst
            rw [isConst_den _ _ _ _ hst] at hvs
            split at h
            · rename_i h64
              split at h
              · rename_i hle
                injection h with h; subst h
                have hty' : t = W ∧ W.signed = false := by
                  simp only [not_or, Decidable.not_not, Bool.not_eq_true] at hty; exact hty
                obtain ⟨rfl, hsg⟩ := hty'
                refine ⟨_, ?_, length_extract (by rw [hl]; exact hle), rfl⟩
                simp [eval, hve, hvs, evalExtract, hsg, h64, hle, den_extract]
              · rename_i hle
                injection h with h; subst h
                have hty' : t = W ∧ W.signed = false := by
                  simp only [not_or, Decidable.not_not, Bool.not_eq_true] at hty; exact hty
                obtain ⟨rfl, hsg⟩ := hty'
                exact ⟨"extract: start_bit + BITS <= W", by simp [eval, hve, hvs, evalExtract, hsg, h64, hle]⟩
            · exact absurd h (by simp)
          · exact absurd h (by simp)
      · exact absurd h (by simp)
    · exact absurd h (by simp)
  | uintNew n e ihe =>
    intro σ ρ r hσ h
    simp only [nf] at h
    split at h
    · rename_i he
      injection h with h; subst h
      obtain ⟨m, hm⟩ := ihe σ ρ _ hσ he
      exact ⟨m, by simp [eval, hm]⟩
    · rename_i t l he
      obtain ⟨ve, hve, hl, rfl⟩ := ihe σ ρ _ hσ he
      split at h
      · exact absurd h (by simp)
      · rename_i hty
        split at h
        · rename_i hall
          injection h with h; subst h
          have hty' : t = ITy.unsignedOf n ∧ n ≤ t.bits := by
            simp only [not_or, Decidable.not_not, Nat.not_lt] at hty; exact hty
          have := den_uintNew w.raw w.fv hall
          refine ⟨_, ?_, by rw [List.length_take, hl]; exact Nat.min_eq_left hty'.2, rfl⟩
          simp [eval, hve, hty'.1, this.1, this.2]
        · exact absurd h (by simp)
    · exact absurd h (by simp)
  | uintValue e ihe =>
    intro σ ρ r hσ h
    simp only [nf] at h
    split at h
    · rename_i he
      injection h with h; subst h
      obtain ⟨m, hm⟩ := ihe σ ρ _ hσ he
      exact ⟨m, by simp [eval, hm]⟩
    · rename_i n l he
      obtain ⟨ve, hve, hl, rfl⟩ := ihe σ ρ _ hσ he
      split at h
      · rename_i hn
        injection h with h; subst h
        refine ⟨.int (ITy.unsignedOf n) (den w.raw w.fv l), by simp [eval, hve], by simp [hl, zeros]; omega, by rw [den_append_zeros]⟩
      · exact absurd h (by simp)
    · exact absurd h (by simp)
  | customNew ty e ihe =>
    intro σ ρ r hσ h
    simp only [nf] at h
    split at h
    · rename_i he
      injection h with h; subst h
      obtain ⟨m, hm⟩ := ihe σ ρ _ hσ he
      exact ⟨m, by simp [eval, hm]⟩
    · rename_i x he
      obtain ⟨ve, hve, hm⟩ := ihe σ ρ _ hσ he
      injection h with h; subst h
      exact ⟨ve, hm, by simp [eval, hve]⟩
    · exact absurd h (by simp)
  | customRaw e ihe =>
    intro σ ρ r hσ h
    simp only [nf] at h
    split at h
    · rename_i he
      injection h with h; subst h
      obtain ⟨m, hm⟩ := ihe σ ρ _ hσ he
      exact ⟨m, by simp [eval, hm]⟩
    · rename_i he
      obtain ⟨ve, hve, hm⟩ := ihe σ ρ _ hσ he
      have hcv : ve = w.cv := hm
      split at h
      · rename_i rr hrr
        injection h with h; subst h
        unfold ArgOk at harg
        rw [hrr] at harg
        obtain ⟨rv, hrv, hmr⟩ := harg
        exact ⟨rv, by simp [eval, hve, hcv, hrv], hmr⟩
      · exact absurd h (by simp)
    · exact absurd h (by simp)


/-! ## Equivalence of two bodies -/

/-- equal results, or both panic (panic messages are not compared) -/
def ResEq (r1 r2 : R) : Prop := r1 = r2 ∨ ((∃ m, r1 = .error (.panic m)) ∧ (∃ m, r2 = .error (.panic m)))

theorem ResEq.ok_left {r1 r2 : R} {v : Val} (h : ResEq r1 r2) (h1 : r2 = .ok v) : r1 = .ok v := by
  rcases h with h | ⟨_, ⟨m, hm⟩⟩
  · rw [h, h1]
  · rw [hm] at h1; exact absurd h1 (by simp)

theorem ResEq.panic_left {r1 r2 : R} {m : String} (h : ResEq r1 r2) (h1 : r2 = .error (.panic m)) : ∃ m', r1 = .error (.panic m') := by
  rcases h with h | ⟨h, _⟩
  · exact ⟨m, by rw [h, h1]⟩
  · exact h

theorem denotes_resEq {w : World} {r : SRes} {r1 r2 : R} (h1 : Denotes w r r1) (h2 : Denotes w r r2) : ResEq r1 r2 := by
  cases r with
  | ok sv =>
    obtain ⟨v, rfl, hv⟩ := h1
    obtain ⟨v', rfl, hv'⟩ := h2
    exact Or.inl (by rw [hv.unique hv'])
  | panic => exact Or.inr ⟨h1, h2⟩
  | call ty sv =>
    obtain ⟨v, hv, rfl⟩ := h1
    obtain ⟨v', hv', rfl⟩ := h2
    exact Or.inl (by rw [hv.unique hv'])

/-- the concrete environment is one the context describes -/
structure EnvOk (w : World) (ctx : Ctx) (ρ : Env) : Prop where
  raw : ρ.raw = .int ctx.rawTy w.raw
  raw_lt : w.raw < 2 ^ ctx.rawTy.bits
  argVar : ctx.argVar = .fieldValue ∨ ctx.argVar = .value
  arg : match ctx.arg with
    | .none => True
    | .bool => ρ.get ctx.argVar = .bool (w.fv.testBit 0)
    | .int t => ρ.get ctx.argVar = .int t w.fv ∧ w.fv < 2 ^ t.bits
    | .uint n => ρ.get ctx.argVar = .uint n w.fv ∧ w.fv < 2 ^ n
    | .custom _ => ρ.get ctx.argVar = w.cv

theorem init_ok {w : World} {ctx : Ctx} {ρ : Env} (hρ : EnvOk w ctx ρ)
    (hi : ∀ i, ctx.index = some i → ρ.index = .int .usize i) : SEnvOk w ctx.init ρ := by
  intro v sv h
  unfold Ctx.init at h
  by_cases h1 : v = .raw
  · subst h1
    simp only [if_true, Option.some.injEq] at h
    subst h
    refine ⟨length_inputV _ _ _, ?_⟩
    rw [den_inputV_raw, Nat.mod_eq_of_lt hρ.raw_lt]
    exact hρ.raw
  · rw [if_neg h1] at h
    by_cases h2 : v = ctx.argVar
    · subst h2
      rw [if_pos rfl] at h
      have harg := hρ.arg
      cases hA : ctx.arg with
      | none => rw [hA] at h; simp [argSym] at h
      | bool =>
        rw [hA] at h harg
        simp only [argSym, Option.some.injEq] at h; subst h
        simp only at harg
        simp [Matches, Src.eval, harg]
      | int t =>
        rw [hA] at h harg
        simp only [argSym, Option.some.injEq] at h; subst h
        simp only at harg
        exact ⟨length_inputV _ _ _, by rw [den_inputV_fv, Nat.mod_eq_of_lt harg.2]; exact harg.1⟩
      | uint n =>
        rw [hA] at h harg
        simp only [argSym, Option.some.injEq] at h; subst h
        simp only at harg
        exact ⟨length_inputV _ _ _, by rw [den_inputV_fv, Nat.mod_eq_of_lt harg.2]; exact harg.1⟩
      | custom r =>
        rw [hA] at h harg
        simp only [argSym, Option.some.injEq] at h; subst h
        exact harg
    · rw [if_neg h2] at h
      by_cases h3 : v = .index
      · subst h3
        rw [if_pos rfl] at h
        cases hI : ctx.index with
        | none => rw [hI] at h; simp at h
        | some i =>
          rw [hI] at h
          simp only [Option.bind_some] at h
          split at h
          · rename_i hlt
            injection h with h; subst h
            refine ⟨length_constV _ _, ?_⟩
            rw [den_constV, Nat.mod_eq_of_lt hlt]
            exact hi i hI
          · exact absurd h (by simp)
      · rw [if_neg h3] at h; exact absurd h (by simp)

/-- **Two bodies with the same normal form evaluate alike for every raw value, every written value and any
    pair of build profiles.** -/
theorem eqNf_sound {ctx : Ctx} {a m : Expr} (h : eqNf ctx a m = true) (w : World) (chk chk' : Bool) (ρ : Env)
    (hρ : EnvOk w ctx ρ) (hi : ∀ i, ctx.index = some i → ρ.index = .int .usize i) (harg : ArgOk w ctx) :
    ResEq (eval w.Γ chk ρ a) (eval w.Γ chk' ρ m) := by
  unfold eqNf at h
  split at h
  · rename_i r r' ha hm
    have : r = r' := by simpa using h
    subst this
    exact denotes_resEq (nf_sound w chk ctx harg a _ ρ r (init_ok hρ hi) ha)
      (nf_sound w chk' ctx harg m _ ρ r (init_ok hρ hi) hm)
  · exact absurd h (by simp)


theorem EnvOk.withIndex {w : World} {ctx : Ctx} {ρ : Env} (h : EnvOk w ctx ρ) (i : Option Nat) :
    EnvOk w { ctx with index := i } ρ := ⟨h.raw, h.raw_lt, h.argVar, h.arg⟩

theorem ArgOk.withIndex {w : World} {ctx : Ctx} (h : ArgOk w ctx) (i : Option Nat) : ArgOk w { ctx with index := i } := h

/-- the index guard of an array accessor does not depend on the profile -/
theorem eval_guard (Γ : CustomEnv) (chk : Bool) (ρ : Env) (k : Nat) (hk : k < 2 ^ 64) :
    eval Γ chk ρ (.bin .lt (.var .index) (.lit .usize k)) = evalBin true .lt ρ.index (.int .usize k) := by
  have : k < 2 ^ ITy.usize.bits := hk
  simp only [eval, Env.get, this, if_true]
  cases ρ.index <;> simp [evalBin]

/-- **Translation validation of one generated body**: if `bodiesEquiv` answers `true`, the two bodies evaluate
    alike in every environment the context describes – every raw value, every written value, **every index**
    (in range or not) and any pair of build profiles. -/
theorem bodiesEquiv_sound {ctx : Ctx} {a m : Expr} (h : bodiesEquiv ctx a m = true) (w : World) (chk chk' : Bool) (ρ : Env)
    (hρ : EnvOk w ctx ρ) (harg : ArgOk w ctx) :
    ResEq (eval w.Γ chk ρ a) (eval w.Γ chk' ρ m) := by
  unfold bodiesEquiv at h
  split at h
  · rename_i k a' k' m'
    simp only [Bool.and_eq_true, beq_iff_eq, decide_eq_true_eq, List.all_eq_true, List.mem_range] at h
    obtain ⟨⟨rfl, hk⟩, hall⟩ := h
    simp only [eval.eq_8]
    rw [eval_guard _ chk _ _ hk, eval_guard _ chk' _ _ hk]
    cases hidx : ρ.index with
    | int t x =>
      by_cases ht : t = .usize
      · subst ht
        by_cases hx : x < k
        · have := eqNf_sound (hall x hx) w chk chk' ρ (hρ.withIndex _) (by intro i hi; injection hi with hi; rw [← hi, hidx]) (harg.withIndex _)
          simpa [evalBin, ITy.signed, hx] using this
        · simp [evalBin, ITy.signed, hx]; exact Or.inl rfl
      · simp [evalBin, ht]; exact Or.inl rfl
    | bool b => simp [evalBin]; exact Or.inl rfl
    | uint n x => simp [evalBin]; exact Or.inl rfl
    | custom t r => simp [evalBin]; exact Or.inl rfl
    | res o v => simp [evalBin]; exact Or.inl rfl
  · exact eqNf_sound h w chk chk' ρ (hρ.withIndex _) (by intro i hi; exact absurd hi (by simp)) (harg.withIndex _)

/-- what is proved about the model's body holds for the emitted body -/
theorem transfer_ok {ctx : Ctx} {a m : Expr} (h : bodiesEquiv ctx a m = true) (w : World) (chk chk' : Bool) (ρ : Env)
    (hρ : EnvOk w ctx ρ) (harg : ArgOk w ctx) {v : Val} (hm : eval w.Γ chk' ρ m = .ok v) : eval w.Γ chk ρ a = .ok v :=
  (bodiesEquiv_sound h w chk chk' ρ hρ harg).ok_left hm

theorem transfer_panic {ctx : Ctx} {a m : Expr} (h : bodiesEquiv ctx a m = true) (w : World) (chk chk' : Bool) (ρ : Env)
    (hρ : EnvOk w ctx ρ) (harg : ArgOk w ctx) {msg : String} (hm : eval w.Γ chk' ρ m = .error (.panic msg)) :
    ∃ msg', eval w.Γ chk ρ a = .error (.panic msg') :=
  (bodiesEquiv_sound h w chk chk' ρ hρ harg).panic_left hm

/-! ## Refutation: a proposed input really distinguishes two bodies with different normal forms -/

/-- setting one bit -/
theorem testBit_or_bit (x j k : Nat) : (x ||| (1 <<< j)).testBit k = (x.testBit k || decide (j = k)) := by
  rw [Nat.testBit_or, Nat.one_shiftLeft, Nat.testBit_two_pow]

theorem srcWitness_sound {a b : Src} {r v : Nat} (h : srcWitness a b = some (r, v)) : a.eval r v ≠ b.eval r v := by
  unfold srcWitness at h
  split at h
  · rename_i x y
    split at h
    · exact absurd h (by simp)
    · rename_i hne
      simp only [Src.eval]; exact hne
  · rename_i x arg j n
    injection h with h
    cases arg <;> cases x <;> cases n <;> simp at h <;> obtain ⟨rfl, rfl⟩ := h <;> simp [Src.eval, testBit_or_bit]
  · rename_i arg j n y
    injection h with h
    cases arg <;> cases y <;> cases n <;> simp at h <;> obtain ⟨rfl, rfl⟩ := h <;> simp [Src.eval, testBit_or_bit]
  · rename_i a1 j1 n1 a2 j2 n2
    split at h
    · rename_i hsame
      split at h
      · exact absurd h (by simp)
      · rename_i hn
        simp only [Option.some.injEq, Prod.mk.injEq] at h
        obtain ⟨rfl, rfl⟩ := h
        obtain ⟨rfl, rfl⟩ := hsame
        cases a1 <;> cases n1 <;> cases n2 <;> simp_all [Src.eval]
    · rename_i hdiff
      injection h with h
      have hj : a1 = a2 → j1 ≠ j2 := fun e hj => hdiff ⟨e, hj⟩
      cases a1 <;> cases a2 <;> cases n1 <;> cases n2 <;> simp at h <;> obtain ⟨rfl, rfl⟩ := h <;>
        simp [Src.eval, testBit_or_bit] <;>
        (intro hle; exact Nat.testBit_lt_two_pow (Nat.one_lt_two_pow (by have := hj rfl; omega)))
  · exact absurd h (by simp)


theorem listWitness_sound {r v : Nat} : ∀ (a b : List Src), listWitness a b = some (r, v) → den r v a ≠ den r v b := by
  intro a
  induction a with
  | nil => intro b h; simp [listWitness] at h
  | cons x xs ih =>
    intro b h
    cases b with
    | nil => simp [listWitness] at h
    | cons y ys =>
      simp only [listWitness] at h
      simp only [den]
      by_cases hxy : x = y
      · rw [if_pos hxy] at h
        subst hxy
        have := ih ys h
        omega
      · rw [if_neg hxy] at h
        cases hs : srcWitness x y with
        | some p =>
          rw [hs] at h
          simp only [Option.orElse_some, Option.some.injEq] at h
          subst h
          have := srcWitness_sound hs
          cases hx : x.eval r v <;> cases hy : y.eval r v <;> simp_all <;> omega
        | none =>
          rw [hs] at h
          simp only [Option.orElse_none] at h
          have := ih ys h
          cases x.eval r v <;> cases y.eval r v <;> simp <;> omega

/-- **a proposed input refutes the equivalence**: if the normal forms of two bodies differ in a position where both are
    a constant or a single input bit, the proposed raw value and written value make the two bodies evaluate differently
    (results that are `T::new_with_raw_value(..)` calls excepted: nothing is known about the user's function) -/
theorem resWitness_sound {w : World} {r r' : SRes} {res res' : R} (hr : Denotes w r res) (hr' : Denotes w r' res')
    (h : resWitness r r' = some (w.raw, w.fv)) (hnc : ∀ t sv, r ≠ .call t sv) : ¬ ResEq res res' := by
  intro heq
  cases r with
  | call t sv => exact hnc t sv rfl
  | panic =>
    cases r' with
    | ok sv' =>
      obtain ⟨m, rfl⟩ := hr
      obtain ⟨v', rfl, _⟩ := hr'
      rcases heq with e | ⟨_, ⟨m', e⟩⟩
      · exact absurd e (by simp)
      · exact absurd e (by simp)
    | panic => simp [resWitness] at h
    | call _ _ => simp [resWitness] at h
  | ok sv =>
    obtain ⟨v, rfl, hm⟩ := hr
    cases r' with
    | panic =>
      obtain ⟨m, rfl⟩ := hr'
      rcases heq with e | ⟨⟨m', e⟩, _⟩
      · exact absurd e (by simp)
      · exact absurd e (by simp)
    | call _ _ => simp [resWitness] at h
    | ok sv' =>
      obtain ⟨v', rfl, hm'⟩ := hr'
      have hvv : v = v' := by
        rcases heq with e | ⟨⟨m', e⟩, _⟩
        · injection e
        · exact absurd e (by simp)
      subst hvv
      simp only [resWitness] at h
      cases sv with
      | int t a =>
        cases sv' with
        | int t' b =>
          have := listWitness_sound a b h
          obtain ⟨_, e1⟩ := hm
          obtain ⟨_, e2⟩ := hm'
          rw [e1] at e2; injection e2 with _ e3; exact this e3
        | _ => simp [svalWitness] at h
      | uint n a =>
        cases sv' with
        | uint n' b =>
          have := listWitness_sound a b h
          obtain ⟨_, e1⟩ := hm
          obtain ⟨_, e2⟩ := hm'
          rw [e1] at e2; injection e2 with _ e3; exact this e3
        | _ => simp [svalWitness] at h
      | bool s =>
        cases sv' with
        | bool s' =>
          have := srcWitness_sound h
          have e1 : v = .bool (s.eval w.raw w.fv) := hm
          have e2 : v = .bool (s'.eval w.raw w.fv) := hm'
          rw [e1] at e2; injection e2 with e3; exact this e3
        | _ => simp [svalWitness] at h
      | cust => cases sv' <;> simp [svalWitness] at h


/-- if both bodies have a normal form and `resWitness` proposes `(raw, written value)`, then in every environment that
    holds exactly these inputs the two bodies do **not** evaluate alike – so when the normaliser answers `differ` (and
    the results are not calls of a user function) a failing input for the *translated* body exists and is the proposed one;
    the run executes the real code on it -/
theorem witness_refutes {ctx : Ctx} {a m : Expr} {r r' : SRes} (w : World) (chk chk' : Bool) (ρ : Env)
    (ha : nf ctx ctx.init a = some r) (hm : nf ctx ctx.init m = some r')
    (hw : resWitness r r' = some (w.raw, w.fv)) (hnc : ∀ t sv, r ≠ .call t sv)
    (hρ : EnvOk w ctx ρ) (hi : ∀ i, ctx.index = some i → ρ.index = .int .usize i) (harg : ArgOk w ctx) :
    ¬ ResEq (eval w.Γ chk ρ a) (eval w.Γ chk' ρ m) :=
  resWitness_sound (nf_sound w chk ctx harg a _ ρ r (init_ok hρ hi) ha)
    (nf_sound w chk' ctx harg m _ ρ r' (init_ok hρ hi) hm) hw hnc

end Bb.Nf
