import BitbybitModel.Driver.Step
open Bb.Driver

partial def loop (h : IO.FS.Stream) (out : IO.FS.Stream) (st : State) (chk : Bool) : IO Unit := do
  let line ← h.getLine
  if line.isEmpty then return ()
  let (st', chk', outs) := step st chk line
  for o in outs do out.putStrLn o
  loop h out st' chk'

def main : IO Unit := do
  let stdin ← IO.getStdin
  let stdout ← IO.getStdout
  loop stdin stdout {} true
